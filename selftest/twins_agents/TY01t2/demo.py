#
# shared differential-demo harness. demo.py in each of t1/t2/t3 embeds a copy of this
# file (so that each demo.py stays standalone) followed by a change-specific section.
#
# usage: cd <empty temp dir>; PYTHONPATH=<tree> /venv/bin/python demo.py > transcript.txt
#
# everything that is printed is deterministic: no timings, no timestamps, no tracebacks
# (tracebacks carry source line numbers, which any patch shifts), no absolute paths
# other than the fixed relative names created below.
#
import json
import os
import random
import re
import shutil
import sys

CONFIG_INI = """[csvpath_files]
extensions = txt, csvpath, csvpaths

[csv_files]
extensions = txt, csv, tsv, dat, tab, psv, ssv

[errors]
csvpath = collect, fail, print
csvpaths = collect

[logging]
csvpath = info
csvpaths = info
log_file = logs/csvpath.log
log_files_to_keep = 100
log_file_size = 52428800

[config]
path = config/config.ini

[cache]
path = cache

[listeners]

[marquez]
base_url = http://localhost:5000

[functions]
imports = config/functions.imports

[results]
archive = archive
transfers = transfers

[inputs]
files = inputs/named_files
csvpaths = inputs/named_paths
on_unmatched_file_fingerprints = halt
"""

FILES = {
    # ragged rows, blank lines, empty cells, zero, multi-digit, negative, decimals,
    # padded cells, a quoted comma
    "main.csv": (
        "id,name,n,m,flag\n"
        "1,alpha,10,3,true\n"
        "2,beta,0,7,false\n"
        "\n"
        "3,,250,,true\n"
        "4,delta\n"
        "5, echo ,-4,12,false,extra,more\n"
        ",,,,\n"
        "7,alpha,10,3,\n"
        "\n"
        "\n"
        '8,"go,lf",1000,1000,true\n'
        "9,hotel,3.5,2,x\n"
        "10,alpha,007,0,false\n"
    ),
    # the last line is blank (two trailing blank lines): the last()-on-blank path
    "blank_end.csv": "id,name,n\n1,a,5\n2,b,15\n\n3,c,25\n\n\n",
    "empty.csv": "",
    "header_only.csv": "id,name,n\n",
    "one_col.csv": "v\n1\n\n22\n\n333\n0\n",
    "no_newline_end.csv": "id,name,n\n1,a,5\n2,,0\n3,c,100",
}

SCANS = ["*", "1*", "0", "2-5", "1+4+6", "3*", "40*", "0-2", "5"]


def setup_env() -> None:
    """creates config, inputs and data files in the cwd. refuses to run in a dirty dir"""
    for d in ["archive", "cache", "logs", "inputs", "transfers", "config"]:
        if os.path.exists(d):
            shutil.rmtree(d)
    os.makedirs("config")
    with open(os.path.join("config", "config.ini"), "w", encoding="utf-8") as f:
        f.write(CONFIG_INI)
    with open(os.path.join("config", "functions.imports"), "w", encoding="utf-8") as f:
        f.write("")
    for name, content in FILES.items():
        with open(name, "w", encoding="utf-8") as f:
            f.write(content)


def j(o) -> str:
    return json.dumps(o, sort_keys=True, default=str)


def show_errors(path) -> None:
    errs = path.errors or []
    print(f"  errors: {len(errs)}")
    for e in errs:
        print(
            "    - "
            + j(
                [
                    getattr(e, "exception_class", None),
                    str(e.error),
                    e.line_count,
                    e.scan_count,
                    e.match_count,
                ]
            )
        )


def show_state(path) -> None:
    print(f"  variables: {j(path.variables)}")
    print(
        f"  valid: {path.is_valid} stopped: {path.stopped} "
        f"scans: {path.scan_count} matches: {path.match_count} "
        f"frozen: {path.is_frozen} advance: {path.advance_count}"
    )
    lm = path._line_monitor  # avoid the lazy load of the property
    if lm is not None:
        print(
            "  lines: "
            + j(
                [
                    lm.physical_line_number,
                    lm.physical_line_count,
                    lm.data_line_number,
                    lm.data_line_count,
                    lm.physical_end_line_number,
                    lm.data_end_line_count,
                ]
            )
        )
    if path.unmatched is not None:
        print(f"  unmatched: {j(path.unmatched)}")
    show_errors(path)


def run_case(label: str, csvpath: str, how: str = "collect", **kw) -> None:
    """runs one csvpath standalone and prints everything observable.
    how: collect | next | ff | collect2 (collect(2) and then collect the rest) |
         nextbreak (abandon the iterator after the first line)"""
    from csvpath import CsvPath

    print(f"CASE {label} [{how}] {csvpath}")
    path = None
    try:
        path = CsvPath(**kw)
        path.parse(csvpath)
        if how == "collect":
            lines = path.collect()
            print(f"  returned: {j(lines)}")
        elif how == "next":
            k = 0
            for line in path.next():
                k += 1
                print(
                    f"  yield {k}: {j(line)} at {path.line_monitor.physical_line_number}"
                    f" scans={path.scan_count} matches={path.match_count}"
                )
        elif how == "ff":
            path.fast_forward()
            print("  fast_forward done")
        elif how == "collect2":
            lines = path.collect(2)
            print(f"  first two: {j(lines)}")
            lines = path.collect()
            print(f"  rest: {j(lines)}")
        elif how == "nextbreak":
            for line in path.next():
                print(f"  first yield: {j(line)}")
                break
        else:
            raise ValueError(how)
    except Exception as e:  # pylint: disable=W0718
        msg = " | ".join(m.strip() for m in str(e).strip().split("\n") if m.strip())
        marker = " | Expected one of: | "
        if marker in msg:
            # lark lists the expected terminals in set order, which follows the hash seed
            head, tail = msg.split(marker, 1)
            msg = head + marker + " | ".join(sorted(tail.split(" | ")))
        print(f"  EXCEPTION {type(e).__name__}: {msg[:300]}")
        if hasattr(e, "orig_exc"):
            print(f"    original {type(e.orig_exc).__name__}: {str(e.orig_exc).strip()[:300]}")
        c = e.__cause__
        while c is not None:
            print(f"    caused by {type(c).__name__}: {str(c).strip()[:300]}")
            c = c.__cause__
    if path is not None:
        try:
            show_state(path)
        except Exception as e:  # pylint: disable=W0718
            print(f"  STATE EXCEPTION {type(e).__name__}: {e}")


# ---------------------------------------------------------------------------
# a small deterministic generator of well-typed csvpaths over the documented
# core constructs. depth <= 4, 1-6 components, a last() -> component, if any,
# comes last, onmatch only in AND mode.
# ---------------------------------------------------------------------------


class Gen:
    NUM_HEADERS = ["#n", "#m", "#id", "#2", "#3"]
    STR_HEADERS = ["#name", "#flag", "#1", "#nosuch"]
    ANY_HEADERS = ["#id", "#name", "#n", "#m", "#flag", "#0", "#5", "#6"]

    def __init__(self, seed: int, logic_and: bool) -> None:
        self.r = random.Random(seed)
        self.logic_and = logic_and
        self.vars = ["a", "b", "c"]

    def num(self, d: int) -> str:
        r = self.r
        if d <= 0 or r.random() < 0.3:
            return r.choice(
                [str(r.choice([0, 1, 2, 3, 7, 10, 12, 250, 1000])), r.choice(self.NUM_HEADERS)]
                + ["count_lines()", "line_number()", "count_scans()", f"@{r.choice(self.vars)}"]
            )
        k = r.randrange(9)
        if k == 0:
            return f"add({self.num(d-1)}, {self.num(d-1)})"
        if k == 1:
            return f"subtract({self.num(d-1)}, {self.num(d-1)})"
        if k == 2:
            return f"multiply({self.num(d-1)}, {self.num(d-1)})"
        if k == 3:
            return f"mod({self.num(d-1)}, {r.choice([2, 3, 5])})"
        if k == 4:
            return f"length({self.str(d-1)})"
        if k == 5:
            return f"int({r.choice(self.NUM_HEADERS)})"
        if k == 6:
            return f"divide({self.num(d-1)}, {r.choice(['2', '4', '#m', '0'])})"
        if k == 7:
            return f"round({self.num(d-1)})"
        return f"sum({r.choice(self.NUM_HEADERS)})"

    def str(self, d: int) -> str:
        r = self.r
        if d <= 0 or r.random() < 0.35:
            return r.choice(
                ['"alpha"', '"a"', '""', '"true"', '"10"', '" echo "'] + self.STR_HEADERS
            )
        k = r.randrange(6)
        if k == 0:
            return f"concat({self.str(d-1)}, {self.str(d-1)})"
        if k == 1:
            return f"lower({self.str(d-1)})"
        if k == 2:
            return f"upper({self.str(d-1)})"
        if k == 3:
            return f"strip({self.str(d-1)})"
        if k == 4:
            return f"substring({self.str(d-1)}, {r.choice([0, 1, 3])})"
        return f"concat({self.str(d-1)}, {self.num(d-1)})"

    def bool(self, d: int) -> str:
        r = self.r
        if d <= 0 or r.random() < 0.25:
            return r.choice(
                ["yes()", "no()", r.choice(self.ANY_HEADERS), f"@{r.choice(self.vars)}"]
                + [f"exists({r.choice(self.ANY_HEADERS)})", f"empty({r.choice(self.ANY_HEADERS)})"]
            )
        k = r.randrange(12)
        if k == 0:
            return f"{self.lhs(self.num(d-1), self.NUM_HEADERS)} == {self.num(d-1)}"
        if k == 1:
            return f"{self.lhs(self.str(d-1), self.STR_HEADERS)} == {self.str(d-1)}"
        if k == 2:
            f = r.choice(["gt", "lt", "gte", "lte", "above", "below"])
            return f"{f}({self.num(d-1)}, {self.num(d-1)})"
        if k == 3:
            return f"not({self.bool(d-1)})"
        if k == 4:
            return f"and({self.bool(d-1)}, {self.bool(d-1)})"
        if k == 5:
            return f"or({self.bool(d-1)}, {self.bool(d-1)})"
        if k == 6:
            return f'in({self.str(d-1)}, "alpha|beta|true|10")'
        if k == 7:
            return f"starts_with({self.str(d-1)}, {self.str(0)})"
        if k == 8:
            return f"between({self.num(d-1)}, {self.num(0)}, {self.num(0)})"
        if k == 9:
            return f"equals({self.num(d-1)}, {self.num(d-1)})"
        if k == 10:
            return r.choice(
                ["first(#name)", "every(#name, 2)", "has_matches()", "count() == 2", "firstline()"]
            )
        return f"or({self.bool(d-1)}, {self.bool(d-1)}, {self.bool(d-1)})"

    @staticmethod
    def top_level_eq(s: str) -> bool:
        depth = 0
        quoted = False
        for i, c in enumerate(s):
            if c == '"':
                quoted = not quoted
            elif quoted:
                continue
            elif c == "(":
                depth += 1
            elif c == ")":
                depth -= 1
            elif depth == 0 and s[i : i + 4] == " == ":
                return True
        return False

    def lhs(self, s: str, headers: list) -> str:
        """the grammar does not allow a bare term to start an equality"""
        if s[0] in '"-0123456789':
            return self.r.choice(headers)
        return s

    def value(self, d: int) -> str:
        k = self.r.randrange(3)
        if k == 0:
            return self.num(d)
        if k == 1:
            return self.str(d)
        b = self.bool(d)
        if self.top_level_eq(b):
            # the grammar does not allow a bare equality as an assignment's value
            b = f"not({b})"
        return b

    def qualifier(self) -> str:
        qs = ["", "", "", ".latch", ".onchange", ".asbool", ".nocontrib", ".notnone"]
        qs += [".increase", ".decrease", ".tracker"]
        if self.logic_and:
            qs += [".onmatch", ".onmatch"]
        return self.r.choice(qs)

    def action(self, d: int) -> str:
        r = self.r
        k = r.randrange(5)
        if k == 0:
            return f"@{r.choice(self.vars)} = {self.value(d)}"
        if k == 1:
            return f'print("L$.csvpath.line_number: {r.choice(self.vars)}=$.variables.{r.choice(self.vars)}")'
        if k == 2:
            return f"@{r.choice(self.vars)} = count()"
        if k == 3:
            return f"push(\"stack\", {self.value(d-1)})"
        return r.choice(["counter.hits(1)", "increment.inc(yes(), 2)", "tally(#name)", "fail()"])

    def component(self, d: int) -> str:
        r = self.r
        k = r.randrange(10)
        if k <= 3:
            return self.bool(d)
        if k <= 5:
            return f"@{r.choice(self.vars)}{self.qualifier()} = {self.value(d-1)}"
        if k <= 7:
            return f"{self.bool(d-1)} -> {self.action(d-1)}"
        if k == 8:
            q = ".onmatch" if self.logic_and and r.random() < 0.5 else ""
            return r.choice(
                [f"count{q}()", f"counter{q}.k(2)", f"tally{q}(#flag)", f"print{q}(\"p:$.csvpath.count_matches\")"]
            )
        return f"@{r.choice(self.vars)} = {self.num(d-1)}"

    def csvpath(self, filename: str, scan: str) -> str:
        r = self.r
        ncomp = r.randrange(1, 7)
        depth = r.randrange(1, 4)
        comps = [self.component(depth) for _ in range(ncomp)]
        if r.random() < 0.3:
            comps.append(f"last() -> {self.action(1)}")
        mode = "AND" if self.logic_and else "OR"
        match = "\n    ".join(comps)
        return f"~ logic-mode:{mode} ~ ${filename}[{scan}][\n    {match}\n]"


def generated_cases(count: int, seed: int) -> None:
    files = ["main.csv", "main.csv", "main.csv", "blank_end.csv", "no_newline_end.csv", "one_col.csv"]
    hows = ["collect", "next", "collect", "ff", "collect2", "collect"]
    r = random.Random(seed)
    for i in range(count):
        logic_and = i % 2 == 0
        g = Gen(seed * 100000 + i, logic_and)
        f = r.choice(files)
        scan = r.choice(SCANS[:6]) if r.random() < 0.8 else r.choice(SCANS)
        run_case(f"G{seed}.{i}", g.csvpath(f, scan), hows[i % len(hows)])


# ---------------------------------------------------------------------------
# CsvPaths (named group) runs with the archive dumped
# ---------------------------------------------------------------------------

_STAMP = re.compile(r"\d{4}-\d{2}-\d{2}_\d{2}-\d{2}-\d{2}(\.\d+)?(_\d+)?")


def dump_archive(root: str = "archive") -> None:
    """lists the archive with run directories normalised to <run1>, <run2>, ... in
    chronological order (a second run within the same second gets a .N suffix, which
    sorts after the bare stamp) and prints the content of the data-bearing files.
    files carrying times, uuids and hashes are listed only."""
    listing = []
    for dirpath, dirnames, filenames in os.walk(root):
        dirnames.sort()
        for fn in sorted(filenames):
            listing.append(os.path.join(dirpath, fn))
    stamps = sorted({m.group(0) for p in listing for m in [_STAMP.search(p)] if m})
    names = {s: f"<run{i + 1}>" for i, s in enumerate(stamps)}

    def normalise(p: str) -> str:
        return _STAMP.sub(lambda m: names[m.group(0)], p)

    for p in sorted(listing, key=normalise):
        norm = normalise(p)
        base = os.path.basename(p)
        if base in ("data.csv", "unmatched.csv", "vars.json", "printouts.txt"):
            with open(p, "r", encoding="utf-8") as f:
                content = f.read()
            print(f"  FILE {norm} ({len(content)} chars)")
            for line in content.split("\n"):
                print(f"    | {line}")
        elif base == "errors.json":
            with open(p, "r", encoding="utf-8") as f:
                errs = json.load(f)
            print(f"  FILE {norm}: {len(errs)} errors")
            for e in errs:
                print("    | " + j([e.get("error"), e.get("line_count"), e.get("match_count")]))
        else:
            print(f"  FILE {norm}")


def run_group(label: str, filename: str, paths: list, method: str = "collect_paths") -> None:
    from csvpath import CsvPaths

    print(f"GROUP {label} [{method}] file={filename}")
    for p in paths:
        print(f"  path: {p}")
    try:
        cp = CsvPaths()
        cp.file_manager.add_named_file(name=f"file_{label}", path=filename)
        cp.paths_manager.add_named_paths(name=f"paths_{label}", paths=paths)
        getattr(cp, method)(filename=f"file_{label}", pathsname=f"paths_{label}")
        results = cp.results_manager.get_named_results(f"paths_{label}")
        for i, r in enumerate(results):
            lines = r.lines
            if lines is not None and hasattr(lines, "next"):
                lines = list(lines.next())
            print(f"  result {i}: id={r.csvpath.identity!r} valid={r.is_valid} len={len(r)}")
            print(f"    lines={j(lines)}")
            print(f"    variables={j(r.variables)}")
            print(f"    errors={len(r.errors or [])} printouts={j(r.get_printouts())}")
            print(
                f"    unmatched={j(r.unmatched)} stopped={r.csvpath.stopped} "
                f"matches={r.csvpath.match_count} scans={r.csvpath.scan_count}"
            )
    except Exception as e:  # pylint: disable=W0718
        print(f"  EXCEPTION {type(e).__name__}: {str(e).strip()[:300]}")
    dump_archive(os.path.join("archive", f"paths_{label}"))


# ---------------------------------------------------------------------------
# t2-specific section: the change caches three pure lookups in locals:
#  - Function.to_value: the owning expression, used to detect new arg-validation errors
#  - Equality._do_assignment / _do_when: the left and right operands
#  - Qualified.line_matches (the onmatch machinery): the owning expression
# so we drive assignments with every qualifier and tracking values, when/do with
# nocontrib in both logic modes, last() on blank and non-blank last lines, onmatch
# on functions, variables and prints at different positions, and value-producing
# functions whose arguments fail validation at different nesting depths.
# ---------------------------------------------------------------------------

ASSIGNMENTS = [
    "@x = #n",
    "@x = #n @y = @x",
    "@x.latch = #name",
    "@x.onchange = #name",
    "@x.onchange.latch = #flag",
    "@x.asbool = #flag",
    "@x.asbool = #n",
    "@x.nocontrib = #m no()",
    "@x.asbool.nocontrib = #flag",
    "@x.notnone = #m",
    "@x.increase = int(#id)",
    "@x.decrease = int(#n)",
    "@x.increase.notnone = int(#m)",
    "@x.onmatch = #id #m",
    "#m @x.onmatch = #id",
    "@x.onmatch = count() #flag == \"true\"",
    "@x = count() #flag == \"true\"",
    "@x = has_matches() #m",
    "@x.sometracker = #name",
    "@x.onmatch.sometracker = line_number() gt(#n, 5)",
    "@x.latch.sometracker = #n",
    "@name_by.name = #id",
    "@x = #name == \"alpha\"",
    "@x = not(#name == \"alpha\") @y.asbool = @x",
    "@x = add(#n, #m) @y = subtract(@x, 1) @z = concat(@x, \"/\", @y) gt(@y, 10)",
    "@x = #nosuch",
    "@x = #9",
    "@x = none()",
    "@x.onchange = count_lines() @y.latch = count_lines() @z.increase = count_scans()",
    "@x = count(#name == \"alpha\")",
    "@x = count.onmatch() @y.onmatch = count() #n",
    "@x = tally(#flag)",
]

WHEN_DOS = [
    "#m -> @x = #id",
    "#m.nocontrib -> @x = #id",
    "not(#m) -> @x = #id",
    "#name == \"alpha\" -> @x = count_lines()",
    "#name == \"alpha\" -> @x.onchange = #n",
    "yes() -> @x = #id #flag == \"true\"",
    "no() -> @x = #id",
    "yes.nocontrib() -> @x = #id no()",
    "no.nocontrib() -> @x = #id yes()",
    "#m -> #flag == \"true\"",
    "#m -> no()",
    "#m -> print(\"m is $.headers.m\")",
    "gt(#n, 5) -> @big.onmatch = count() #m",
    "#m -> @a = #n  @a -> @b = add(@a, 1)  @b -> print(\"b=$.variables.b\")",
    "and(#n, #m) -> @both = count_lines()  or(#n, #m) -> @either = count_lines()",
    "last() -> @total = count_lines()",
    "last.nocontrib() -> @total = count_lines()",
    "#id last() -> print(\"last: $.csvpath.count_lines scans $.csvpath.count_scans\")",
    "last() -> @a = #id  last() -> @b = @a  no()",
    "firstline() -> @h = #name  last() -> @t = #name",
    "#flag == \"true\" -> skip()  @seen = count_lines()",
    "#id == \"5\" -> stop()  @seen = count_lines()",
    "#id == \"3\" -> fail()  @seen = count_lines()",
    "@x = #m  @x -> @y = #id  last() -> @z = @y",
    "(#m) -> @x = #id",
]

ONMATCH = [
    "print.onmatch(\"match $.csvpath.count_matches at $.csvpath.line_number\") #m",
    "#m print.onmatch(\"match $.csvpath.count_matches at $.csvpath.line_number\")",
    "#m print.onmatch(\"one $.csvpath.count_matches\") print.onmatch(\"two $.csvpath.count_matches\") #flag",
    "counter.onmatch.c(1) #m @c2.onmatch = count() tally.onmatch(#flag)",
    "count.onmatch() == 2 #m",
    "@a.onmatch = #id @b.onmatch = @a gt(#n, 3) @c.onmatch = @b",
    "push.onmatch(\"p\", #id) gt(#n, 3) #flag",
    "increment.onmatch.i(#flag == \"true\", 2) #m",
    "every.onmatch.e(#flag, 2) #m",
    "sum.onmatch(#n) #m @s = sum(#n)",
    "@x.onmatch = #id no()",
    "stop.onmatch(#id == \"3\") #m",
    "skip.onmatch(#id == \"3\") #m @seen = count_lines()",
    "fail.onmatch() #m",
    "first.onmatch(#flag) #m",
    "has_matches.onmatch() #m",
]

ARG_ERRORS = [
    "@x = add(#name, 1)",
    "@x = add(#n, #name) @y = add(#n, 1)",
    "@x = subtract(multiply(#name, 2), 1)",
    "@x = divide(#n, #m)",
    "@x = divide(#n, 0)",
    "@x = mod(#name, 2) yes()",
    "@x = int(#name)",
    "@x = round(#name, 2)",
    "@x = length(#n) @y = substring(#name, #flag)",
    "@x = concat(#name, add(#flag, 1))",
    "gt(add(#name, 1), 2)",
    "add(#name, 1) == 2",
    "@x = sum(#name)",
    "not(add(#name, 1))",
    "or(gt(add(#name, 1), 2), #m)",
    "#m -> @x = add(#name, 1)",
    "@x.onmatch = add(#name, 1) #m",
    "print(add(#name, 1)) #m",
]

VALIDATION_MODES = [
    "raise, no-print",
    "no-raise, print, stop",
    "no-raise, no-print, fail",
    "no-raise, no-print, no-fail, match",
    "no-raise, no-print, no-fail, no-match",
    "no-raise, print, no-stop, no-fail",
]


def t2_cases() -> None:
    hows = ["collect", "next", "collect", "ff"]
    n = 0
    for mode in ["AND", "OR"]:
        for group, label in [(ASSIGNMENTS, "A"), (WHEN_DOS, "W")]:
            for i, m in enumerate(group):
                n += 1
                scan = ["*", "1*", "1-8", "*", "2+4+7+13"][n % 5]
                run_case(f"{label}{i}.{mode}", f"~ logic-mode:{mode} ~ $main.csv[{scan}][{m}]", hows[n % 4])
    # onmatch only in AND mode
    for i, m in enumerate(ONMATCH):
        run_case(f"O{i}", f"$main.csv[{'*' if i % 2 else '1*'}][{m}]", hows[i % 4])
    # a blank last line: last() fires from Matcher._do_lasts with the path frozen
    for i, m in enumerate(WHEN_DOS + ONMATCH[:6]):
        run_case(f"B{i}", f"$blank_end.csv[*][{m}]", hows[i % 4])
    for i, m in enumerate(ASSIGNMENTS[:16]):
        run_case(f"BA{i}", f"~ logic-mode:{'OR' if i % 2 else 'AND'} ~ $blank_end.csv[*][{m} last() -> @end = count_lines()]")
    for i, m in enumerate(ARG_ERRORS):
        vm = VALIDATION_MODES[i % len(VALIDATION_MODES)]
        run_case(f"E{i}.default", f"$main.csv[*][{m}]", hows[i % 4])
        run_case(f"E{i}.vm", f"~ validation-mode: {vm} ~ $main.csv[1*][{m}]", hows[(i + 1) % 4])
        run_case(f"E{i}.or", f"~ logic-mode: OR validation-mode: no-raise, no-print ~ $main.csv[1-6][{m}]")
    # other files and readers' edge cases
    for f in ["empty.csv", "header_only.csv", "one_col.csv", "no_newline_end.csv"]:
        run_case(f"X.{f}.1", f"${f}[*][@x.onchange = #0 last() -> @l = count_lines()]")
        run_case(f"X.{f}.2", f"${f}[*][#0 -> @x.onmatch = count() @y.increase = int(#0)]", "next")
    run_case("X.noskip", "$main.csv[*][@x = #id #m -> @y.onmatch = @x]", "collect", skip_blank_lines=False)
    run_case("X.repeat", "$main.csv[1*][@x.latch = #name @c.onmatch = count() gt(#n, 5)]", "collect2")
    run_case("X.break", "$main.csv[1*][@x = #name gt(#n, 5) -> @y = #id]", "nextbreak")


if __name__ == "__main__":
    setup_env()
    t2_cases()
    generated_cases(150, 22)
    generated_cases(60, 23)
    run_group(
        "t2a",
        "main.csv",
        [
            "~id:assign~ $[*][@x.onchange = #name @y.onmatch = count() #m]",
            "~id:whendo unmatched-mode:keep~ $[1*][#m -> @m = #id gt(#n, 5) -> print(\"big $.headers.n\") #flag]",
            "~id:errs validation-mode: no-raise, print~ $[*][@x = add(#name, 1) last() -> @n = count_lines()]",
            "~id:ormode logic-mode: OR~ $[1*][#m.nocontrib -> @x = #id  #flag == \"x\"]",
        ],
    )
    run_group(
        "t2b",
        "blank_end.csv",
        ["~id:first~ $[*][@t.onmatch = count() #n last() -> print(\"end $.variables.t\")]", "~id:second~ $[1*][@x.increase = int(#n)]"],
        "fast_forward_paths",
    )
    run_group("t2a", "main.csv", ["~id:again~ $[0-4][@x.latch = #name yes()]"], "collect_by_line")
