"""Differential demo for refactoring t3 (Qualified / Matcher loops -> next()/any()/comprehension).

Usage:  PYTHONPATH=<csvpath checkout> /venv/bin/python demo.py > out.txt

Works in a fresh temporary directory and prints a deterministic transcript:
 1. Qualified.first_non_term_qualifier / second_non_term_qualifier /
    has_known_qualifiers over a grid of qualifier lists and defaults
 2. the same methods on the productions of parsed match parts, and the shape
    of Matcher.expressions
 3. csvpath runs where the name / tracking qualifiers decide which variable
    is written (assignments, count, tally, sum, subtotal, counter, every,
    first, increment, push ...), with per-line printouts
"""
import itertools
import os
import tempfile

WORK = tempfile.mkdtemp(prefix="demo_TXC03_t3_")
os.chdir(WORK)

from csvpath import CsvPath  # noqa: E402
from csvpath.matching.matcher import Matcher  # noqa: E402
from csvpath.matching.productions.qualified import Qualified, Qualities  # noqa: E402

FILES = {
    "mixed.csv": "a,b,c\n1,x,10\n2,x,5\n\n3,y\n4,,0\n5,z,7,extra\n6,z,7\n",
    "nums.csv": "n,up,down,flat\n1,1,9,4\n2,2,8,4\n3,3,7,4\n4,2,8,4\n5,0,0,0\n6,,,\n7,5,5,5\n",
    "sales.csv": "co,item,price\nacme,nut,1.5\nacme,bolt,0\nzed,nut,2\n\nzed,nut,\nacme,nut,3\nqq,,4\n",
    "headeronly.csv": "a,b,c\n",
    "blanktail.csv": "a,b,c\n1,x,3\n2,y,4\n\n",
    "empty.csv": "",
}
for name, content in FILES.items():
    with open(name, "w", encoding="utf-8") as f:
        f.write(content)


def call(f, *args, **kwargs):
    try:
        r = f(*args, **kwargs)
        return f"{type(r).__name__}:{r!r}"
    except Exception as ex:  # pylint: disable=W0718
        # first line only: lark lists the expected tokens in set order
        first_line = f"{ex}".split("\n", 1)[0]
        return f"EXC {type(ex).__name__}: {first_line}"


# ------------------------------------------------------------------
print("=== SECTION 1: Qualified on hand-made qualifier lists")
KNOWN = [q.value for q in Qualities]
print(f"QUALIFIERS: {Qualified.QUALIFIERS}")
ATOMS = ["onmatch", "latch", "distinct", "once", "name1", "name2", "name1", "", " ", "Onmatch", "onmatch "]
LISTS = [[], None]
for n in (1, 2, 3):
    for combo in itertools.permutations(range(len(ATOMS)), n):
        LISTS.append([ATOMS[i] for i in combo])
LISTS += [
    KNOWN[:],
    KNOWN[::-1] + ["tail"],
    ["k"] * 3 + ["j"],
    [None],
    [None, "x"],
    ["x", None],
    [1, 2],
    [0, "onmatch", 0, 5],
    [("t",), "u"],
    [True, False],
    ["a", "a", "a"],
    ["onmatch", "a", "onmatch", "a", "b"],
]
DEFAULTS = [None, "dflt", "", 0, False]
n = 0
for quals in LISTS:
    q = Qualified()
    q._qualifiers = None if quals is None else list(quals)
    snapshot = None if quals is None else list(quals)
    row = []
    for d in DEFAULTS:
        row.append(call(q.first_non_term_qualifier, d))
        row.append(call(q.second_non_term_qualifier, d))
    row.append(call(q.first_non_term_qualifier))
    row.append(call(q.second_non_term_qualifier))
    row.append(call(q.has_known_qualifiers))
    unchanged = q._qualifiers == snapshot
    n += 1
    print(f"quals={quals!r} -> {' | '.join(row)} | untouched={unchanged}")
print(f"lists: {n}")

print("--- names parsed by Qualified(name=...)")
NAMES = [
    "x",
    "x.a",
    "x.onmatch",
    "x.onmatch.a",
    "x.a.onmatch",
    "x.a.b",
    "x.a.a.b",
    "x.latch.a.onchange.b.asbool",
    "x.increase.decrease.notnone.nocontrib.distinct.once",
    "x..a",
    "x.a.",
    "x. a",
    " x .a",
    '"quoted name".a.b',
    '"q.dotted".onmatch."r.s"',
    "",
    " ",
    ".a",
    None,
]
for nm in NAMES:
    try:
        q = Qualified(name=nm)
    except Exception as ex:  # pylint: disable=W0718
        print(f"name={nm!r} -> EXC {type(ex).__name__}: {ex}")
        continue
    flags = {k: getattr(q, k) for k in ("onmatch", "onchange", "asbool", "nocontrib", "latch", "increase", "decrease", "notnone", "distinct", "once")}
    on = [k for k, v in flags.items() if v]
    print(
        f"name={nm!r} -> name={q.name!r} quals={q.qualifiers!r} first={call(q.first_non_term_qualifier)} "
        f"first_d={call(q.first_non_term_qualifier, q.name)} second={call(q.second_non_term_qualifier)} "
        f"second_d={call(q.second_non_term_qualifier, 'D')} known={call(q.has_known_qualifiers)} on={on}"
    )
    # mutate through the public API and ask again
    q.add_qualifier("added")
    q.onmatch = True
    q.latch = False
    print(
        f"      after add/set: quals={q.qualifiers!r} first={call(q.first_non_term_qualifier)} "
        f"second={call(q.second_non_term_qualifier)} known={call(q.has_known_qualifiers)}"
    )


# ------------------------------------------------------------------
print("=== SECTION 2: parsed match parts")


def walk(m, depth=0):
    yield m, depth
    for c in m.children:
        yield from walk(c, depth + 1)


MATCH_PARTS = [
    "[yes()]",
    "[ @x = #a ]",
    "[ @x.trk = #a @x.onmatch.trk2.latch = #b @y.k1.k2.k3 = @x.trk ]",
    '[ count.mine(#b == "x") tally.onmatch.t1(#a, #b) every.who.onmatch(#b, 2) ]',
    '[ #b.asbool #"a".nocontrib @z.asbool.nocontrib ]',
    "[ #b.asbool #a.nocontrib @z.asbool.nocontrib @z.k ]",
    '[ push.distinct.notnone("st", #a) print.once.onchange("hi") last.nocontrib() -> @fin.latch = "end" ]',
    '[ ~ a comment ~ #a == "1" -> @x.increase.up = int(#c) or(#b, not(#c)) ]',
    "[ counter.cc(2) sum.total.onmatch(#c) subtotal.bycol(#b, #c) first.f1(#a) increment.inc(yes(), 2) ]",
]
for part in MATCH_PARTS:
    path = CsvPath()
    try:
        matcher = Matcher(csvpath=path, data=part)
    except Exception as ex:  # pylint: disable=W0718
        first_line = f"{ex}".split("\n", 1)[0]
        print(f"match part {part}: EXC {type(ex).__name__}: {first_line}")
        continue
    ex = matcher.expressions
    shapes = [(type(p).__name__, len(p), type(p[0]).__name__, p[1]) for p in ex]
    distinct = len({id(p) for p in ex}) == len(ex)
    print(f"match part {part}")
    print(f"  expressions: type={type(ex).__name__} n={len(ex)} shapes={shapes} distinct_pairs={distinct}")
    for pair in ex:
        for m, depth in walk(pair[0]):
            print(
                f"  {'  ' * depth}{type(m).__name__} name={m.name!r} quals={m.qualifiers!r} "
                f"first={call(m.first_non_term_qualifier)} first_d={call(m.first_non_term_qualifier, m.name)} "
                f"second={call(m.second_non_term_qualifier)} known={call(m.has_known_qualifiers)}"
            )
    # a reset must leave the pairs in place with their votes cleared
    for pair in ex:
        pair[1] = True
    matcher.reset()
    print(f"  after reset: {[p[1] for p in matcher.expressions]} same_list={matcher.expressions is ex}")
for bad in ["", None, "[", "[ @x = ]", "[ nosuchfunction() ]"]:
    path = CsvPath()
    print(f"bad match part {bad!r}: {call(lambda: len(Matcher(csvpath=path, data=bad).expressions))[:160]}")


# ------------------------------------------------------------------
def show_errors(path):
    for e in path.errors or []:
        msg = e.message if e.message is not None else f"{e.error}"
        print(
            f"    error: line={e.line_count} scan={e.scan_count} match={e.match_count} "
            f"class={type(e.error).__name__} msg={msg!r}"
        )


def run(csvpath_str, *, method="collect"):
    print(f"--- {method}: {csvpath_str}")
    path = CsvPath()
    try:
        path.parse(csvpath_str)
        if method == "collect":
            lines = path.collect()
            print(f"    lines: {lines}")
        elif method == "fast_forward":
            path.fast_forward()
        else:
            for line in path.next():
                print(
                    f"    next: {line} vars={path.variables} "
                    f"scan={path.scan_count} match={path.match_count}"
                )
    except Exception as ex:  # pylint: disable=W0718
        print(f"    EXCEPTION {type(ex).__name__}: {ex}")
    print(f"    variables: {path.variables}")
    print(
        f"    scan_count={path.scan_count} match_count={path.match_count} "
        f"valid={path.is_valid} stopped={path.stopped} frozen={path.is_frozen}"
    )
    show_errors(path)
    return path


LN = "ln=$.csvpath.line_number lines=$.csvpath.count_lines scans=$.csvpath.count_scans matches=$.csvpath.count_matches"
VARS = 'print("  > ' + LN + ' x=$.variables.x y=$.variables.y")'

print("=== SECTION 3: runs where qualifiers choose the variable")
# the position of the tracking name among the well-known qualifiers
WELL = ["onmatch", "latch", "onchange", "notnone", "nocontrib", "asbool", "increase", "decrease"]
for n in (0, 1, 2):
    for combo in itertools.permutations(WELL, n):
        for pos in range(0, n + 1):
            parts = list(combo)
            parts.insert(pos, "trk")
            q = ".".join(parts)
            run(f'$mixed.csv[*][ @x.{q} = #b #c {VARS} ]')
# two arbitrary names: the first is the tracking value
for q in ["k1.k2", "k2.k1", "k1.onmatch.k2", "onmatch.k1.k1", "k1.k1.k2", "latch.k1.onchange.k2"]:
    run(f'$mixed.csv[*][ @x.{q} = #a @y = @x.k1 #b {VARS} ]')

FUNCS = [
    'count{q}(#b)',
    'count{q}(#b == "x")',
    'tally{q}(#b)',
    'tally{q}(#b, #c)',
    'sum{q}(#c)',
    'subtotal{q}(#b, #c)',
    'counter{q}(2)',
    'every{q}(#b, 2)',
    'first{q}(#b)',
    'first{q}(#b, #c)',
    '@i = increment{q}(#b == "x", 2)',
    'push{q}("st", #b)',
    'has_dups{q}(#b)',
    'print{q}("  > printing at $.csvpath.line_number")',
    'max{q}(#c)',
    'average{q}(#c, "line")',
    'percent_unique{q}(#b)',
]
QS = ["", ".nm", ".onmatch", ".nm.onmatch", ".onmatch.nm", ".nm.nm2", ".once.nm", ".distinct", ".notnone.nm", ".onchange"]
for fn in FUNCS:
    for q in QS:
        comp = fn.format(q=q)
        run(f'$mixed.csv[*][ {comp} #c print("  > {LN}") ]')
for fn in FUNCS[:10]:
    for fname in ["sales.csv", "headeronly.csv", "blanktail.csv", "empty.csv"]:
        comp = fn.format(q=".nm.onmatch").replace("#b", "#0").replace("#c", "#2")
        run(f'${fname}[*][ {comp} #1 print("  > {LN}") ]')
print("--- other run methods, OR logic, repeated")
for _ in range(2):
    run('$mixed.csv[*][ tally.t.onmatch(#b) @x.k.onmatch = #a count.c(#b) #c ]', method="next")
    run('~ logic-mode: OR ~ $mixed.csv[*][ tally.t.onmatch(#b) @x.k.onchange = #b every.e(#c, 2) #a == "2" ]', method="fast_forward")
    run(f'~ return-mode: no-matches ~ $nums.csv[1*][ @x.hi.increase = int(#up) @y.lo.decrease = int(#down) {VARS} ]')
print("done")
