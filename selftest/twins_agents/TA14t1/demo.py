#!/usr/bin/env python
"""Differential demonstration for property C14 (assignment qualifiers decide
the vote and the write per docs/assignment.md).

Run it in an EMPTY scratch directory with PYTHONPATH pointing at the csvpath
tree under test:

    mkdir /tmp/demo_x && cd /tmp/demo_x && \
        PYTHONPATH=/path/to/tree /venv/bin/python /path/to/demo.py > out.txt

Everything observable is printed to stdout in a deterministic form. The
transcript of unmodified HEAD is expected.txt; a behaviour-preserving
refactoring must reproduce it byte for byte.

Sections
  A  real csvpaths: all 256 qualifier subsets x 24 value sequences x
     {rest of line matches, does not match}; mixed match/no-match lines for
     the onmatch half; 'true'/'false' values where neither increase nor
     decrease is set; int() values for the increase/decrease subsets.
  B  the private assignment helpers driven directly (as the project's own
     unit tests do) over many (current, new) value pairs of mixed types,
     AND and OR logic, injected and real-time line_matches, missing args,
     exceptions from incomparable values.
  C  assorted real csvpaths: several assignments per line, count() /
     has_matches() (implied onmatch), tracking variables, when/do, OR logic
     mode, qualifier order permutations, blank lines, ragged rows, errors
     under different validation modes, other onmatch users of
     Qualified.line_matches (first, increment, min, ...), next() and
     fast_forward(), explain mode, Qualified helpers.
  D  a CsvPaths group run; vars/meta/errors/data from ./archive are listed
     with the run-directory timestamps normalised.
"""
import contextlib
import io
import itertools
import json
import os
import re
import sys

CONFIG = """[csvpath_files]
extensions = txt, csvpath, csvpaths

[csv_files]
extensions = txt, csv, tsv, dat, tab, psv, ssv

[errors]
csvpath = raise, collect, stop, fail, print
csvpaths = raise, collect

[logging]
csvpath = info
csvpaths = info
log_file = logs/csvpath.log
log_files_to_keep = 100
log_file_size = 52428800

[config]
path = config/config.ini

[cache]
path = cache

[listeners]
[marquez]
base_url = http://localhost:5000

[functions]
imports = config/functions.imports

[results]
archive = archive
transfers = transfers

[inputs]
files = inputs/named_files
csvpaths = inputs/named_paths
on_unmatched_file_fingerprints = halt
"""

os.makedirs("config", exist_ok=True)
with open("config/config.ini", "w", encoding="utf-8") as _f:
    _f.write(CONFIG)
if not os.path.exists("config/functions.imports"):
    with open("config/functions.imports", "w", encoding="utf-8") as _f:
        _f.write("")

from csvpath import CsvPath, CsvPaths  # noqa: E402  pylint: disable=C0413
from csvpath.matching.matcher import Matcher  # noqa: E402  pylint: disable=C0413
from csvpath.matching.productions.equality import (  # noqa: E402  pylint: disable=C0413
    Equality,
)
from csvpath.matching.productions.variable import (  # noqa: E402  pylint: disable=C0413
    Variable,
)

OUT = sys.stdout


def emit(*a):
    OUT.write(" ".join(str(_) for _ in a) + "\n")


# ---------------------------------------------------------------------------
# instrumentation: record what every Matcher.matches() call returned, the
# variables right after it, and the explain entries for the line.
# ---------------------------------------------------------------------------
TRACE = []
_orig_matches = Matcher.matches


def _whats(matcher):
    out = []
    for w in matcher._explain:  # pylint: disable=W0212
        if w._action == "assign":  # pylint: disable=W0212
            out.append(f"{w.get_result()}/{w.get_because()}")
    return out


def _traced_matches(self):
    pln = self.csvpath.line_monitor.physical_line_number
    try:
        r = _orig_matches(self)
    except Exception as e:  # pylint: disable=W0718
        TRACE.append(
            f"L{pln}:RAISE:{type(e).__name__}:{fmt(self.csvpath.variables)}:{','.join(_whats(self))}"
        )
        raise
    TRACE.append(
        f"L{pln}:{r}:{fmt(self.csvpath.variables)}:{','.join(_whats(self))}"
    )
    return r


Matcher.matches = _traced_matches


def fmt(o):
    """deterministic repr; dicts keep insertion order on purpose (ordering is observable)"""
    if isinstance(o, float) and o != o:  # nan
        return "nan"
    if isinstance(o, dict):
        return "{" + ", ".join(f"{fmt(k)}: {fmt(v)}" for k, v in o.items()) + "}"
    if isinstance(o, list):
        return "[" + ", ".join(fmt(_) for _ in o) + "]"
    if isinstance(o, tuple):
        return "(" + ", ".join(fmt(_) for _ in o) + ("," if len(o) == 1 else "") + ")"
    return repr(o)


def fmt_errors(errs):
    if not errs:
        return "[]"
    out = []
    for e in errs:
        out.append(
            f"(line={e.line_count} match={e.match_count} scan={e.scan_count} "
            f"{type(e.error).__name__} msg={e.message!r})"
        )
    return "[" + ", ".join(out) + "]"


def write_csv(name, rows):
    with open(name, "w", encoding="utf-8") as f:
        for r in rows:
            f.write(r + "\n")


def run_path(path, *, method="collect", explain=False, verbose=True, tag=""):
    """run a real csvpath and print everything observable about it"""
    del TRACE[:]
    p = CsvPath()
    buf = io.StringIO()
    lines = None
    exc = None
    try:
        with contextlib.redirect_stdout(buf):
            p.parse(path)
            if explain:
                p.explain = True
            if method == "collect":
                lines = p.collect()
            elif method == "fast_forward":
                p.fast_forward()
            elif method == "next":
                lines = []
                for line in p.next():
                    lines.append((list(line), fmt(p.variables)))
    except Exception as e:  # pylint: disable=W0718
        exc = f"{type(e).__name__}: {str(e)[:200]}"
    if verbose:
        emit(f"{tag}PATH {path!r} [{method}]")
        emit("   lines     :", fmt(lines))
        emit("   variables :", fmt(p.variables))
        emit(
            "   valid/stopped/match_count/line:",
            p.is_valid,
            p.stopped,
            p.match_count,
            p.line_monitor.physical_line_number if p.line_monitor else None,
        )
        emit("   errors    :", fmt_errors(p.errors))
        emit("   exception :", exc)
        emit("   stdout    :", repr(buf.getvalue()))
        emit("   trace     :", " | ".join(TRACE))
    return p, lines, exc, buf.getvalue()


# ---------------------------------------------------------------------------
QUALS = [
    "onmatch",
    "latch",
    "onchange",
    "increase",
    "decrease",
    "notnone",
    "asbool",
    "nocontrib",
]


def subsets():
    for bits in itertools.product([0, 1], repeat=len(QUALS)):
        yield [q for q, b in zip(QUALS, bits) if b]


SEQS = [
    ("", "", ""),
    ("1", "1", "1"),
    ("1", "2", "3"),
    ("3", "2", "1"),
    ("1", "1", "2"),
    ("2", "1", "2"),
    ("2", "2", "1"),
    ("", "1", "1"),
    ("1", "", "1"),
    ("1", "", "2"),
    ("", "", "2"),
    ("2", "2", ""),
    ("3", "1", ""),
    ("1", "3", "2"),
    ("2", "3", "3"),
    ("", "3", "1"),
    ("3", "", "3"),
    ("3", "", ""),
    ("", "2", ""),
    ("2", "1", "3"),
    ("3", "3", "2"),
    ("1", "2", "2"),
    ("2", "", "1"),
    ("", "1", "3"),
]

BOOL_SEQS = [
    ("true", "false", "true"),
    ("false", "false", "true"),
    ("false", "", "false"),
    ("true", "true", ""),
    ("", "false", "1"),
    ("false", "2", "true"),
]

INT_SEQS = [
    ("1", "2", "3"),
    ("3", "2", "1"),
    ("0", "1", "0"),
    ("2", "0", "2"),
    ("", "0", "1"),
    ("1", "1", ""),
    ("-1", "0", "-2"),
    ("0", "0", "0"),
]


def section_a():
    emit("=" * 70)
    emit("SECTION A: exhaustive qualifier subsets as real csvpaths")
    emit("=" * 70)
    n = 0
    filecache = {}

    def the_file(seq, ms):
        key = (seq, ms)
        if key not in filecache:
            name = f"a_{len(filecache)}.csv"
            write_csv(name, ["y,m"] + [f"{y},{m}" for y, m in zip(seq, ms)])
            filecache[key] = name
        return filecache[key]

    def one(qs, seq, ms, rhs, label):
        nonlocal n
        n += 1
        name = the_file(seq, ms)
        q = "".join(f".{_}" for _ in qs)
        path = f'${name}[1*][ @x{q} = {rhs} #m == "t" ]'
        p, lines, exc, out = run_path(path, verbose=False)
        emit(
            f"A {label} q={'.'.join(qs) or '-'} y={'/'.join(_ or '_' for _ in seq)} "
            f"m={''.join(ms)} => n={None if lines is None else len(lines)} "
            f"vars={fmt(p.variables)} valid={p.is_valid} mc={p.match_count} "
            f"err={fmt_errors(p.errors)} exc={exc} out={out!r} :: {' | '.join(TRACE)}"
        )

    for qs in subsets():
        for seq in SEQS:
            one(qs, seq, ("t", "t", "t"), "#y", "str")
            one(qs, seq, ("f", "f", "f"), "#y", "str")
        if "onmatch" in qs:
            for seq in SEQS[:12]:
                one(qs, seq, ("t", "f", "t"), "#y", "str")
                one(qs, seq, ("f", "t", "f"), "#y", "str")
        if "increase" not in qs and "decrease" not in qs:
            for seq in BOOL_SEQS:
                one(qs, seq, ("t", "t", "t"), "#y", "bool")
                one(qs, seq, ("f", "f", "f"), "#y", "bool")
        else:
            for seq in INT_SEQS:
                one(qs, seq, ("t", "t", "t"), "int(#y)", "int")
                one(qs, seq, ("f", "t", "t"), "int(#y)", "int")
    emit(f"A runs: {n}")


# ---------------------------------------------------------------------------
NAN = float("nan")
PAIRS = [
    (None, None),
    (None, 0),
    (None, 1),
    (None, ""),
    (None, "a"),
    (None, []),
    (None, {}),
    (None, False),
    (None, True),
    (None, "false"),
    (None, "nan"),
    (None, NAN),
    (0, 0),
    (0, 1),
    (1, 0),
    (1, 1),
    (1, 2),
    (2, 1),
    (0, None),
    (1, None),
    ("", None),
    ("a", "b"),
    ("b", "a"),
    ("a", "a"),
    ("", "a"),
    ("a", ""),
    ("", ""),
    (1, "a"),
    ("a", 1),
    ("1", 1),
    (1.5, 2),
    (2, 1.5),
    (0.0, 0),
    (0, 0.0),
    (0, -1),
    (-1, 0),
    (-2, -1),
    ([], [1]),
    ([1], []),
    ([1], [1]),
    ([1], [2]),
    ((1,), (1,)),
    ((1, 2), (1,)),
    ("true", "false"),
    ("false", "true"),
    (True, 1),
    (1, True),
    (False, 0),
    (True, False),
    (False, True),
    ({}, {"a": 1}),
    ({"a": 1}, {"a": 2}),
    (NAN, NAN),
    (1, NAN),
]


def _new_eq(and_mode=True):
    path = CsvPath()
    matcher = Matcher(csvpath=path, data="[yes()]")
    matcher.AND = and_mode
    eq = Equality(matcher=matcher)
    return path, matcher, eq


def section_b():
    emit("=" * 70)
    emit("SECTION B: private assignment helpers driven directly")
    emit("=" * 70)
    n = 0
    for and_mode in (True, False):
        path, matcher, eq = _new_eq(and_mode)
        for bits in itertools.product([False, True], repeat=len(QUALS)):
            flags = dict(zip(QUALS, bits))
            lms = (True, False) if flags["onmatch"] else (True,)
            for lm in lms:
                for cur, new in PAIRS:
                    n += 1
                    path.variables = {}
                    if cur is not None:
                        path.variables["v"] = cur
                    matcher._explain = []  # pylint: disable=W0212
                    args = dict(flags)
                    args.update(
                        {
                            "noqualifiers": not any(bits),
                            "count": False,
                            "new_value": new,
                            "name": "v",
                            "tracking": None,
                            "current_value": cur,
                            "line_matches": lm,
                        }
                    )
                    try:
                        ret = eq._do_assignment_new_impl(  # pylint: disable=W0212
                            name="v", tracking=None, args=args
                        )
                        res = fmt(ret)
                    except Exception as e:  # pylint: disable=W0718
                        res = f"EXC {type(e).__name__}: {e}"
                    emit(
                        f"B {'AND' if and_mode else 'OR'} "
                        f"{''.join('1' if b else '0' for b in bits)} lm={lm} "
                        f"cur={fmt(cur)} new={fmt(new)} => {res} vars={fmt(path.variables)} "
                        f"what={[str(w) for w in matcher._explain]}"  # pylint: disable=W0212
                    )
    emit(f"B impl calls: {n}")

    #
    # tracking values, real-time line_matches (None), missing args
    #
    emit("-- B2: tracking, real-time line_matches, missing args")
    for and_mode in (True, False):
        path, matcher, eq = _new_eq(and_mode)
        base = {q: False for q in QUALS}
        base.update(
            {
                "noqualifiers": True,
                "count": False,
                "new_value": 5,
                "name": "v",
                "tracking": "k",
                "current_value": None,
                "line_matches": None,
            }
        )
        for combo in (
            [],
            ["onmatch"],
            ["onmatch", "latch"],
            ["onmatch", "asbool"],
            ["latch"],
            ["onchange", "increase"],
            ["notnone", "nocontrib"],
        ):
            for trk in (None, "k", "", " ", 0):
                for cur, new in ((None, 5), (5, 5), (5, 6), (6, 5), (None, None), (5, 0)):
                    path.variables = {}
                    matcher._explain = []  # pylint: disable=W0212
                    matcher.reset()
                    args = dict(base)
                    for q in combo:
                        args[q] = True
                    args["tracking"] = trk
                    args["current_value"] = cur
                    args["new_value"] = new
                    try:
                        ret = eq._do_assignment_new_impl(  # pylint: disable=W0212
                            name="v", tracking=trk, args=args
                        )
                        res = fmt(ret)
                    except Exception as e:  # pylint: disable=W0718
                        res = f"EXC {type(e).__name__}: {' '.join(str(e).split())}"
                    emit(
                        f"B2 {'AND' if and_mode else 'OR'} {combo} trk={trk!r} cur={fmt(cur)} "
                        f"new={fmt(new)} => {res} vars={fmt(path.variables)} "
                        f"exprs={[e[1] for e in matcher.expressions]} "
                        f"what={[str(w) for w in matcher._explain]}"  # pylint: disable=W0212
                    )
        for missing in list(base.keys()) + ["nothing"]:
            args = dict(base)
            args["line_matches"] = True
            args.pop(missing, None)
            path.variables = {}
            matcher._explain = []  # pylint: disable=W0212
            try:
                ret = eq._do_assignment_new_impl(  # pylint: disable=W0212
                    name="v", tracking=None, args=args
                )
                res = fmt(ret)
            except Exception as e:  # pylint: disable=W0718
                res = f"EXC {type(e).__name__}: {e}"
            emit(
                f"B2 {'AND' if and_mode else 'OR'} missing={missing} => {res} "
                f"vars={fmt(path.variables)} n_what={len(matcher._explain)}"  # pylint: disable=W0212
            )
        for name in ("v", "", None, " "):
            args = dict(base)
            args["line_matches"] = True
            path.variables = {}
            try:
                ret = eq._do_assignment_new_impl(  # pylint: disable=W0212
                    name=name, tracking=None, args=args
                )
                res = fmt(ret)
            except Exception as e:  # pylint: disable=W0718
                res = f"EXC {type(e).__name__}: {' '.join(str(e).split())}"
            emit(f"B2 name={name!r} => {res} vars={fmt(path.variables)}")

    #
    # the two lower helpers directly
    #
    emit("-- B3: _set_variable_if and _latch_and_onchange directly")
    small = [
        (None, None),
        (None, 0),
        (None, 3),
        (0, 0),
        (0, 3),
        (3, 0),
        (3, 3),
        (3, 4),
        (4, 3),
        ("", "a"),
        ("a", ""),
        ("a", "b"),
        ("b", "a"),
        (3, "a"),
        ([], [0]),
        ([0], []),
        (0.0, -0.0),
        (NAN, 1),
        (3, None),
    ]
    for and_mode in (True, False):
        path, matcher, eq = _new_eq(and_mode)
        for ret_in in (True, False):
            for notnone, increase, decrease in itertools.product([False, True], repeat=3):
                for trk in (None, "t"):
                    for cur, new in small:
                        path.variables = {}
                        matcher._explain = []  # pylint: disable=W0212
                        try:
                            r = eq._set_variable_if(  # pylint: disable=W0212
                                ret_in,
                                "v",
                                current_value=cur,
                                value=new,
                                tracking=trk,
                                notnone=notnone,
                                increase=increase,
                                decrease=decrease,
                            )
                            res = fmt(r)
                        except Exception as e:  # pylint: disable=W0718
                            res = f"EXC {type(e).__name__}: {e}"
                        emit(
                            f"B3 svi {'AND' if and_mode else 'OR'} ret={ret_in} nn={notnone} "
                            f"inc={increase} dec={decrease} trk={trk} cur={fmt(cur)} new={fmt(new)} "
                            f"=> {res} vars={fmt(path.variables)} "
                            f"what={[str(w) for w in matcher._explain]}"  # pylint: disable=W0212
                        )
        # defaults of the keyword arguments
        path.variables = {}
        emit(
            "B3 svi defaults:",
            eq._set_variable_if(True, "d", current_value=1, value=0),  # pylint: disable=W0212
            eq._set_variable_if(False, "e", current_value=None, value=None),  # pylint: disable=W0212
            fmt(path.variables),
        )
        for ret_in in (True, False):
            for latch, onchange in itertools.product([False, True], repeat=2):
                for notnone, increase in itertools.product([False, True], repeat=2):
                    for cur, new in small:
                        path.variables = {}
                        matcher._explain = []  # pylint: disable=W0212
                        try:
                            r = eq._latch_and_onchange(  # pylint: disable=W0212
                                ret=ret_in,
                                current_value=cur,
                                new_value=new,
                                name="v",
                                tracking=None,
                                latch=latch,
                                onchange=onchange,
                                notnone=notnone,
                                increase=increase,
                                decrease=False,
                            )
                            res = fmt(r)
                        except Exception as e:  # pylint: disable=W0718
                            res = f"EXC {type(e).__name__}: {e}"
                        emit(
                            f"B3 lao {'AND' if and_mode else 'OR'} ret={ret_in} latch={latch} "
                            f"onchange={onchange} nn={notnone} inc={increase} cur={fmt(cur)} "
                            f"new={fmt(new)} => {res} vars={fmt(path.variables)} "
                            f"what={[str(w) for w in matcher._explain]}"  # pylint: disable=W0212
                        )
        emit(
            "B3 tflm:",
            eq._test_friendly_line_matches(True),  # pylint: disable=W0212
            eq._test_friendly_line_matches(False),  # pylint: disable=W0212
            eq._test_friendly_line_matches(None),  # pylint: disable=W0212
            eq._test_friendly_line_matches(),  # pylint: disable=W0212
            eq._test_friendly_line_matches(0),  # pylint: disable=W0212
            eq._test_friendly_line_matches("x"),  # pylint: disable=W0212
        )

    #
    # Qualified helpers
    #
    emit("-- B4: Qualified helpers")
    path, matcher, eq = _new_eq(True)
    for nm in (
        "x",
        "x.onmatch",
        "x.city",
        "x.city.onmatch",
        "x.onmatch.city.town",
        "x.latch.onchange.increase.decrease.notnone.asbool.nocontrib.once.distinct",
        "x.foo.bar.baz",
        "x.onmatch.onmatch",
        "x.Onmatch",
    ):
        v = Variable(matcher, name=nm)
        emit(
            f"B4 {nm}: name={v.name} quals={v.qualifiers} known={v.has_known_qualifiers()} "
            f"first={v.first_non_term_qualifier()} first_d={v.first_non_term_qualifier('dflt')} "
            f"second={v.second_non_term_qualifier()} "
            f"flags={[getattr(v, q) for q in QUALS]} once={v.once} distinct={v.distinct} "
            f"has(onmatch)={v.has_qualifier('onmatch')}"
        )
        v.onmatch = True
        v.latch = False
        v.add_qualifier("asbool")
        emit(f"B4   after set: quals={v.qualifiers} known={v.has_known_qualifiers()}")
    emit("B4 eq.has_known_qualifiers:", eq.has_known_qualifiers(), eq.qualifiers)


# ---------------------------------------------------------------------------
def section_c():
    emit("=" * 70)
    emit("SECTION C: assorted real csvpaths")
    emit("=" * 70)
    write_csv(
        "c.csv",
        [
            "y,m,z",
            "1,t,a",
            ",t,a",
            "3,x,b",
            "",
            "2",
            "abc,t,zzz,extra",
            "0,t,",
            "0,x,b",
            "  ,t,b",
            "3,t,c",
            "3,t,c",
        ],
    )
    write_csv("blank_end.csv", ["y,m", "1,t", "2,f", "2,t", "", ""])
    write_csv("only_header.csv", ["y,m"])
    with open("empty.csv", "w", encoding="utf-8") as f:
        f.write("")

    paths = [
        '$c.csv[1*][ @x = #y ]',
        '$c.csv[*][ @x = #y ]',
        '$c.csv[1*][ @x.onmatch = #y #m == "t" ]',
        '$c.csv[1*][ #m == "t" @x.onmatch = #y ]',
        '$c.csv[1*][ @x.onmatch = #y #m == "t" @w.onmatch = #z ]',
        '$c.csv[1*][ @x.onmatch = #y @w.onmatch = #z ]',
        '$c.csv[1*][ @x.onmatch.latch = #y @w.onchange = #z #m == "t" ]',
        '$c.csv[1*][ @x.latch = #y @w.onchange.nocontrib = #z @v.notnone = #y ]',
        '$c.csv[1*][ @c = count() ]',
        '$c.csv[1*][ @c = count() #m == "t" ]',
        '$c.csv[1*][ #m == "t" @c = count() @h = has_matches() ]',
        '$c.csv[1*][ @h = has_matches() #z == "a" ]',
        '$c.csv[1*][ @c.asbool = count() #m == "x" ]',
        '$c.csv[1*][ @c.latch = count() #m == "t" ]',
        '$c.csv[1*][ @c = count(#m == "t") ]',
        '$c.csv[1*][ @n.increase = line_number() ]',
        '$c.csv[1*][ @n.decrease = line_number() ]',
        '$c.csv[1*][ @n.increase = int(#y) ]',
        '~ validation-mode: no-raise, no-stop, print ~ $c.csv[1*][ @n.increase = int(#y) ]',
        '~ validation-mode: no-raise, no-stop, no-print, no-fail ~ $c.csv[1*][ @n.increase = int(#y) ]',
        '$c.csv[1*][ @n = line_number() @n.increase = #y ]',
        '~ validation-mode: no-raise, no-stop, print ~ $c.csv[1*][ @n = line_number() @n.increase = #y ]',
        '~ validation-mode: no-raise, stop, no-print ~ $c.csv[1*][ @n = line_number() @n.decrease = #y ]',
        '~ validation-mode: no-raise, no-stop, no-print, fail ~ $c.csv[1*][ @n.onmatch = line_number() @n.onmatch.decrease = #y #m == "t"]',
        '$c.csv[1*][ @x.city = #y @x.town = #z ]',
        '$c.csv[1*][ @x.city.latch = #y @x.town.onchange = #z ]',
        '$c.csv[1*][ @x.city.onmatch.increase = #y #m == "t" ]',
        '$c.csv[1*][ @x.onmatch.city.notnone = #y #m == "t" ]',
        '$c.csv[1*][ @x.nocontrib.asbool.latch.onmatch = #y #m == "t" ]',
        '$c.csv[1*][ @x.asbool.onchange = #y ]',
        '$c.csv[1*][ @x.decrease.notnone.onchange = #y ]',
        '$c.csv[1*][ @x.asbool = #m ]',
        '$c.csv[1*][ @x.asbool = none() ]',
        '$c.csv[1*][ @x.notnone = none() ]',
        '$c.csv[1*][ @x.notnone.nocontrib = none() ]',
        '$c.csv[1*][ @x = @y ]',
        '$c.csv[1*][ @y = #y @x.onchange = @y ]',
        '$c.csv[1*][ @x.onchange = @x ]',
        '$c.csv[1*][ @x.latch = "k" ]',
        '$c.csv[1*][ @x.onchange = "k" ]',
        '$c.csv[1*][ @x.increase = 0 ]',
        '$c.csv[1*][ @x.asbool = 0 ]',
        '$c.csv[1*][ @x.asbool = "false" ]',
        '$c.csv[1*][ @x.asbool = "" ]',
        '$c.csv[1*][ #m == "t" -> @x.latch = #y ]',
        '$c.csv[1*][ #m == "t" -> @x.onchange = #z ]',
        '$c.csv[1*][ #m == "t" -> @x.onmatch = #z  #z == "a" ]',
        '$c.csv[1*][ @x.onmatch = #y  yes() -> @w.onmatch = #z  #m == "t" ]',
        '$c.csv[1*][ @x.onmatch = #y  not(#m == "x") ]',
        '$c.csv[1*][ @x.onmatch = #y  or(#m == "x", #z == "a") ]',
        '$c.csv[1*][ @x.onmatch = #y  @k.onmatch = count()  #m == "t" ]',
        '$c.csv[1*][ @x.onmatch = count()  @k.onmatch = count()  #m == "t" ]',
        '~ logic-mode: OR ~ $c.csv[1*][ @x = #y ]',
        '~ logic-mode: OR ~ $c.csv[1*][ @x.onchange = #z ]',
        '~ logic-mode: OR ~ $c.csv[1*][ @x.onchange = #z #m == "t" ]',
        '~ logic-mode: OR ~ $c.csv[1*][ @x.onmatch = #y #m == "t" ]',
        '~ logic-mode: OR ~ $c.csv[1*][ #m == "t" @x.onmatch = #y ]',
        '~ logic-mode: OR ~ $c.csv[1*][ @x.onmatch.latch = #y #m == "x" #z == "c" ]',
        '~ logic-mode: OR ~ $c.csv[1*][ @x.notnone = #y ]',
        '~ logic-mode: OR ~ $c.csv[1*][ @x.increase = #y @w.asbool = #z ]',
        '~ logic-mode: OR ~ $c.csv[1*][ @x.nocontrib = #y no() ]',
        '~ logic-mode: OR ~ $c.csv[1*][ @x.asbool.nocontrib = #y no() ]',
        '~ logic-mode: OR ~ $c.csv[1*][ @c = count() #m == "t" ]',
        '~ return-mode: no-matches ~ $c.csv[1*][ @x.onmatch.increase = #y #m == "t" ]',
        '$c.csv[1*][ first.onmatch(#z) #m == "t" ]',
        '$c.csv[1*][ first(#z) #m == "t" ]',
        '$c.csv[1*][ @i = increment.onmatch(#m == "t", 2) ]',
        '$c.csv[1*][ @i = increment(#m == "t", 2) #z == "a" ]',
        '$c.csv[1*][ @mn = min.onmatch(#y) #m == "t" ]',
        '$c.csv[1*][ @mx = max.onmatch(#y) #m == "t" ]',
        '$c.csv[1*][ @t.onmatch = tally(#z) #m == "t" ]',
        '$c.csv[1*][ tally.onmatch(#z) #m == "t" ]',
        '$c.csv[1*][ @e.onmatch = every(#m == "t", 2) ]',
        '$c.csv[1*][ print.onmatch("line $.csvpath.line_number: $.variables.x") @x.onmatch = #y #m == "t" ]',
        '$c.csv[1*][ @x.onmatch = #y #m == "t" last() -> print("x is $.variables.x, count $.csvpath.match_count") ]',
        '$c.csv[1*][ @x.onmatch = #y #m == "t" stop(#y == "abc") ]',
        '$c.csv[1*][ @x.onmatch = #y #m == "t" skip(#y == "abc") ]',
        '$c.csv[1*][ @x.onmatch = #y #m == "t" fail(#y == "abc") ]',
        '$c.csv[2-4][ @x.onmatch.notnone = #y ]',
        '$c.csv[3+5+7][ @x.increase = #y ]',
        '$blank_end.csv[1*][ @x.onchange = #y last() -> @done = "yes" ]',
        '$blank_end.csv[1*][ @x.onmatch.onchange = #y #m == "t" ]',
        '$blank_end.csv[*][ @x.latch = #m ]',
        '$only_header.csv[*][ @x.latch = #m ]',
        '$only_header.csv[1*][ @x.latch = #m ]',
        '$empty.csv[*][ @x.onmatch = count() ]',
        '$c.csv[1*][ @x.onmatch = #nosuch #m == "t" ]',
        '~ validation-mode: no-raise, no-stop, print ~ $c.csv[1*][ @x.onmatch = #nosuch #m == "t" ]',
        '$c.csv[1*][ @x.onmatch = #3 #m == "t" ]',
        '~ validation-mode: no-raise, no-stop, print ~ $c.csv[1*][ @x.notnone = #3 ]',
    ]
    for i, path in enumerate(paths):
        run_path(path, tag=f"C{i:03d} ")
    emit("-- C: next() / fast_forward() / explain")
    for i, path in enumerate(
        [
            '$c.csv[1*][ @x.onmatch.increase = #y #m == "t" ]',
            '$c.csv[1*][ @x.onchange = #z @c.onmatch = count() ]',
            '~ logic-mode: OR ~ $c.csv[1*][ @x.latch.asbool = #y #m == "x" ]',
            '~ explain-mode: explain ~ $c.csv[1*][ @x.onmatch.latch = #y #m == "t" ]',
        ]
    ):
        run_path(path, method="next", tag=f"CN{i} ")
        run_path(path, method="fast_forward", tag=f"CF{i} ")
        run_path(path, method="collect", explain=True, tag=f"CE{i} ")
    emit("-- C: the same CsvPath class, repeated runs give the same answers")
    for _ in range(3):
        run_path('$c.csv[1*][ @x.onmatch.onchange = #z @c = count() #m == "t" ]', tag="CR ")


# ---------------------------------------------------------------------------
RUN_DIR = re.compile(r"\d{4}-\d{2}-\d{2}_\d{2}-\d{2}-\d{2}(\.\d+)?")


def section_d():
    emit("=" * 70)
    emit("SECTION D: CsvPaths group run and its archive")
    emit("=" * 70)
    write_csv("d.csv", ["y,m,z", "1,t,a", ",t,a", "3,x,b", "2,t,b", "2,t,", "1,x,c"])
    cp = CsvPaths()
    buf = io.StringIO()
    with contextlib.redirect_stdout(buf):
        cp.file_manager.add_named_file(name="d", path="d.csv")
        cp.paths_manager.add_named_paths(
            name="assign",
            paths=[
                '~ id: plain ~ $[1*][ @x = #y @c = count() ]',
                '~ id: onmatch ~ $[1*][ @x.onmatch.increase = #y #m == "t" @c = count() ]',
                '~ id: latchchange ~ $[1*][ @l.latch = #z @o.onchange = #z @t.z.notnone = #y ]',
                '~ id: boolish logic-mode: OR ~ $[1*][ @b.asbool = #z @n.nocontrib.decrease = #y ]',
            ],
        )
        cp.collect_paths(filename="d", pathsname="assign")
        results = cp.results_manager.get_named_results("assign")
    emit("stdout:", repr(buf.getvalue()))
    for r in results:
        emit(
            "result:",
            r.csvpath.identity,
            "lines=",
            fmt([list(_) for _ in r.lines.next()]),
            "vars=",
            fmt(r.csvpath.variables),
            "valid=",
            r.csvpath.is_valid,
            "errors=",
            fmt_errors(r.errors),
        )
    listing = []
    for root, dirs, files in os.walk("archive"):
        dirs.sort()
        for f in sorted(files):
            listing.append(os.path.join(root, f))
    for f in sorted(RUN_DIR.sub("<RUN>", _) for _ in listing):
        emit("archive:", f)
    for f in sorted(listing):
        short = RUN_DIR.sub("<RUN>", f)
        if f.endswith("vars.json") or f.endswith("errors.json"):
            with open(f, encoding="utf-8") as fh:
                emit(short, "=>", json.dumps(json.load(fh), sort_keys=False))
        elif f.endswith("data.csv") or f.endswith("unmatched.csv") or f.endswith("printouts.txt"):
            with open(f, encoding="utf-8") as fh:
                emit(short, "=>", repr(fh.read()))


if __name__ == "__main__":
    only = sys.argv[1:] or ["a", "b", "c", "d"]
    if "b" in only:
        section_b()
    if "c" in only:
        section_c()
    if "d" in only:
        section_d()
    if "a" in only:
        section_a()
    emit("DONE")
