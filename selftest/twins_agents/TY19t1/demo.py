#!/usr/bin/env python
"""Differential demonstration for property C19:

   "Results depend only on the csvpath, the file and the configuration"

The script exercises the line-count/header cache (FileCacher, Cache),
LineCounter, LineMonitor and CsvPath.get_total_lines_and_headers through the
public, pre-existing API only. It prints a deterministic transcript of
everything observable: returned lines, variables, validity, errors,
printouts, headers, line monitors, the cache directory and the archive.

Run it in an empty scratch directory:

    mkdir /tmp/demo && cd /tmp/demo && PYTHONPATH=<tree> python demo.py

It is self-contained: it writes its own ./config/config.ini (offline: no
OpenLineage listeners) and its own data files, and it wipes whatever it
created on a previous run in the same directory before starting.
"""
import io
import json
import os
import re
import shutil
import sys
import contextlib

CONFIG = """[csvpath_files]
extensions = txt, csvpath, csvpaths

[csv_files]
extensions = txt, csv, tsv, dat, tab, psv, ssv

[errors]
csvpath = collect, fail, print
csvpaths = collect, print

[logging]
csvpath = info
csvpaths = info
log_file = logs/csvpath.log
log_files_to_keep = 100
log_file_size = 52428800

[config]
path = config/config.ini

[cache]
path = cache

[listeners]
[marquez]
base_url = http://localhost:5000

[functions]
imports = config/functions.imports

[results]
archive = archive
transfers = transfers

[inputs]
files = inputs/named_files
csvpaths = inputs/named_paths
on_unmatched_file_fingerprints = halt
"""

for d in ["config", "cache", "archive", "inputs", "logs", "transfers", "data"]:
    shutil.rmtree(d, ignore_errors=True)
os.makedirs("config")
os.makedirs("data")
with open("config/config.ini", "w", encoding="utf-8") as f:
    f.write(CONFIG)
with open("config/functions.imports", "w", encoding="utf-8") as f:
    f.write("")

from csvpath import CsvPath, CsvPaths  # noqa: E402
from csvpath.managers.files.file_cacher import FileCacher  # noqa: E402
from csvpath.util.cache import Cache  # noqa: E402
from csvpath.util.line_counter import LineCounter  # noqa: E402
from csvpath.util.line_monitor import LineMonitor  # noqa: E402

#
# ---------------------------------------------------------------- inputs
#
FILES = {
    "plain": "a,b,c\n1,2,3\n4,5,6\n7,8,9\n",
    "blanks": "\n\na,b,c\n1,2,3\n\n4,5,6\n\n",
    "ragged": "a,b,c\n1\n2,3\n4,5,6,7,8\n",
    "empties": 'a,b,c\n,,\n0,,0\n"",0,\n',
    "quoted": '"first, name"," last  name ","say ""hi""",d;e,`f`|g,"tab\there"\n'
    "x,y,z,0,1,2\n"
    '"p, q"," r ","s ""t""",3,4,5\n',
    "header_only": "a,b\n",
    "empty": "",
    "only_blank": "\n\n\n",
    "noeol": "a,b\n1,2",
    "unicode": "ñame,größe\né,1\nü,2\n",
    "blank_last": "a,b\n1,2\n3,4\n\n",
    "spaces": " a , b ,, \n 1 , 2 ,3,4\n",
    "multiline": '"head\nline",b\n"va\nlue",2\n',
}
for name, content in FILES.items():
    with open(f"data/{name}.csv", "w", encoding="utf-8", newline="") as f:
        f.write(content)
with open("data/pipes.psv", "w", encoding="utf-8", newline="") as f:
    f.write("a|b,c|'d|e'\n1|2|3\n\n4|5|6\n")

PATHS = {
    "all": "$[*][yes()]",
    "counts": """$[*][ @l=count_lines() @t=total_lines() @n=line_number()
                     @h=count_headers() @hl=count_headers_in_line()
                     push("ns", line_number())
                     last.nocontrib() -> print("last at $.csvpath.line_number of $.csvpath.total_lines") ]""",
    "hdrs": """$[*][ @h0=header_name(0) @e=end() @first=#0
                   print.once("headers: $.csvpath.headers") ]""",
    "scan12": "$[1-2][yes()]",
    "scan2on": "$[2*][ @c=count() ]",
    "scan0": "$[0][ @only=line_number() ]",
    "stop2": "$[*][ line_number()==2 -> stop() ]",
    "fail4": """$[*][ #0=="4" -> fail() ]""",
    "reset": """$[*][ line_number()==1 -> reset_headers() @hn=header_name(0) @hc=count_headers() ]""",
    "nomatch": "$[*][no()]",
    "unk": """$[*][ #nosuchheader=="1" ]""",
    "baddiv": """$[*][ @d=divide(#0, 0) ]""",
    "adv": """$[*][ line_number()==0 -> advance(1) @seen=line_number() ]""",
    "ablank": """$[*][ after_blank() ]""",
    "firstl": """$[*][ firstline() -> print("first: $.csvpath.line_number") lastline.nocontrib() -> @lastline=count_lines() ]""",
    "byname": """$[*][ @fn=#"first name" @ln=#"last  name" @sh=#2 ]""",
}

TS = re.compile(r"\d{4}-\d\d-\d\d[_T ]\d\d[-:]\d\d[-:]\d\d(\.\d+)?(\+\d\d:\d\d)?(_\d+)?")
RUNDIR = re.compile(r"(\d{4}-\d\d-\d\d_\d\d-\d\d-\d\d)(\.\d+)?")
VOLATILE = {
    "time",
    "run_time",
    "time_completed",
    "lines_time",
    "last_line_time",
    "run_started_at",
    "uuid",
    "run_uuid",
    "timestamp",
    "at",
    "trace",
    "hostname",
    "username",
    "ip_address",
}
CWD = os.getcwd()


def norm(s: str) -> str:
    s = f"{s}".replace(CWD, "<CWD>")
    return TS.sub("<TS>", s)


def normj(j):
    if isinstance(j, dict):
        return {
            k: (
                "<V>"
                if (k in VOLATILE or k.endswith("uuid")) and j[k] is not None
                else normj(v)
            )
            for k, v in j.items()
        }
    if isinstance(j, list):
        return [normj(_) for _ in j]
    if isinstance(j, str):
        return norm(j)
    return j


def out(*args):
    print(norm(" ".join(f"{a}" for a in args)))
    sys.stdout.flush()


def errs(errors):
    if errors is None:
        return None
    ret = []
    for e in errors:
        ret.append(
            norm(
                f"{type(e).__name__}(line={getattr(e,'line_count',None)},"
                f"match={getattr(e,'match_count',None)},scan={getattr(e,'scan_count',None)},"
                f"msg={getattr(e,'message',None)},src={type(getattr(e,'error',None)).__name__},"
                f"err={getattr(e,'error',None)},file={getattr(e,'filename',None)},datum={getattr(e,'datum',None)})"
            )
        )
    return ret


def lm_str(lm):
    return None if lm is None else lm.dump()


def show_path(tag, p, lines):
    out(f"  [{tag}] lines={lines}")
    out(f"  [{tag}] variables={json.dumps(p.variables, sort_keys=True, default=str)}")
    out(
        f"  [{tag}] valid={p.is_valid} stopped={p.stopped} errors={errs(p.errors)} has_errors={p.has_errors()}"
    )
    out(f"  [{tag}] headers={p.headers} lm={lm_str(p.line_monitor)}")
    out(
        f"  [{tag}] scan_count={p.scan_count} match_count={p.match_count} total={p.get_total_lines()}"
    )


def captured(fn):
    """runs fn capturing stdout so that printouts land in the transcript in a
    fixed place, whatever the buffering."""
    buf = io.StringIO()
    res = None
    exc = None
    with contextlib.redirect_stdout(buf):
        try:
            res = fn()
        except Exception as e:  # pylint: disable=W0718
            exc = f"{type(e).__name__}: {e}"
    return res, exc, buf.getvalue()


def run_direct(fname, pname, how="collect", **kw):
    """a CsvPath created directly: LineCounter does the counting"""
    p = CsvPath(**kw)
    path = PATHS[pname].replace("$[", f"${fname}[", 1)

    def go():
        p.parse(path)
        if how == "collect":
            return p.collect()
        if how == "ff":
            p.fast_forward()
            return None
        return [line[:] for line in p.next()]

    lines, exc, printed = captured(go)
    tag = f"direct {how} {pname} {fname}"
    out(f"  [{tag}] raised={exc} stdout={printed!r}")
    show_path(tag, p, lines)
    return p


def run_via(cp, named_file, pname, how="collect"):
    """a CsvPath created by a CsvPaths: the FileCacher does the counting"""
    p = cp.csvpath()
    path = PATHS[pname].replace("$[", f"${named_file}[", 1)

    def go():
        p.parse(path)
        if how == "collect":
            return p.collect()
        if how == "ff":
            p.fast_forward()
            return None
        return [line[:] for line in p.next()]

    lines, exc, printed = captured(go)
    tag = f"via {how} {pname} {named_file}"
    out(f"  [{tag}] raised={exc} stdout={printed!r}")
    show_path(tag, p, lines)
    return p


def list_cache():
    """cache file names embed the mtime of the counted file so we list the
    entries by content, sorted."""
    entries = []
    if os.path.exists("cache"):
        for n in os.listdir("cache"):
            with open(os.path.join("cache", n), "r", encoding="utf-8", newline="") as f:
                entries.append((n[n.rfind(".") :], len(n), f.read()))
    entries.sort()
    out(f"  cache: {len(entries)} entries")
    for e in entries:
        out(f"    {e[0]} namelen={e[1]} {e[2]!r}")


def list_tree(root):
    paths = []
    for r, _, fs in os.walk(root):
        for f in fs:
            paths.append(os.path.join(r, f))
    # run dirs are named for the second the run started in, with .0, .1, ...
    # appended when several runs started in the same second. number them
    # chronologically.
    names = set()
    for p in paths:
        for part in p.split(os.sep):
            if RUNDIR.fullmatch(part):
                names.add(part)

    def chrono(n):
        m = RUNDIR.fullmatch(n)
        return (m.group(1), -1 if m.group(2) is None else int(m.group(2)[1:]))

    runs = {n: f"<RUN{i}>" for i, n in enumerate(sorted(names, key=chrono))}
    lines = []
    for p in paths:
        q = os.sep.join(runs.get(part, part) for part in p.split(os.sep))
        lines.append((q, p))
    for q, p in sorted(lines):
        out(f"    {q}")
        if p.endswith(".json"):
            with open(p, "r", encoding="utf-8") as f:
                try:
                    j = normj(json.load(f))
                    s = json.dumps(j, sort_keys=True)
                except Exception as e:  # pylint: disable=W0718
                    s = f"unreadable: {type(e).__name__}"
            for k, v in runs.items():
                s = s.replace(k, v)
            s = re.sub(r"[0-9a-f]{64}", "<SHA>", s)
            out(f"      {s}")
        elif p.endswith(".csv") or p.endswith(".txt") or p.endswith(".csvpaths"):
            with open(p, "r", encoding="utf-8", newline="") as f:
                out(f"      {f.read()!r}")


def new_csvpaths(**kw):
    cp = CsvPaths(**kw)
    for name in FILES:
        cp.file_manager.add_named_file(name=name, path=f"data/{name}.csv")
    return cp


def show_results(cp, pathsname):
    rs = cp.results_manager.get_named_results(pathsname)
    for r in rs:
        tag = f"{pathsname}.{r.identity_or_index}"
        try:
            lines = [line for line in r.lines.next()]
        except Exception as e:  # pylint: disable=W0718
            lines = f"{type(e).__name__}"
        out(f"  [{tag}] lines={lines} len={len(r)}")
        out(f"  [{tag}] unmatched={r.unmatched}")
        out(f"  [{tag}] variables={json.dumps(r.variables, sort_keys=True, default=str)}")
        out(
            f"  [{tag}] valid={r.is_valid} errors={errs(r.errors)} printouts={r.get_printouts()}"
        )
        out(
            f"  [{tag}] headers={r.csvpath.headers} lm={lm_str(r.csvpath.line_monitor)} total={r.csvpath.get_total_lines()}"
        )


#
# ---------------------------------------------------------------- 1. direct
#
out("=== 1. CsvPath created directly (LineCounter), every file x several csvpaths")
for fname in FILES:
    for pname in ["all", "counts", "hdrs"]:
        run_direct(f"data/{fname}.csv", pname)
out("=== 1b. direct: other csvpaths on a few files, collect / fast_forward / next")
for fname in ["plain", "blanks", "ragged", "empties", "blank_last"]:
    for pname in [
        "scan12",
        "scan2on",
        "scan0",
        "stop2",
        "fail4",
        "reset",
        "nomatch",
        "unk",
        "baddiv",
        "adv",
        "ablank",
        "firstl",
    ]:
        for how in ["collect", "ff", "next"]:
            run_direct(f"data/{fname}.csv", pname, how)
run_direct("data/quoted.csv", "byname")
run_direct("data/spaces.csv", "hdrs")
out("=== 1c. direct: repeats and interleavings give the same thing")
for _ in range(2):
    run_direct("data/blanks.csv", "counts")
    run_direct("data/quoted.csv", "hdrs")
    run_direct("data/blanks.csv", "reset")
out("=== 1d. direct: skip_blank_lines=False, other delimiter / quotechar")
run_direct("data/blanks.csv", "counts", skip_blank_lines=False)
run_direct("data/only_blank.csv", "counts", skip_blank_lines=False)
run_direct("data/pipes.psv", "hdrs", delimiter="|", quotechar="'")
run_direct("data/pipes.psv", "counts", delimiter="|", quotechar="'")
out("=== 1e. direct: no filename / missing file")
p = CsvPath()
r, exc, printed = captured(p.get_total_lines_and_headers)
out(f"  no scanner: returned={r} raised={exc} stdout={printed!r}")
p = CsvPath()
r, exc, printed = captured(lambda: p.parse("$data/plain.csv[*][yes()]"))
r, exc, printed = captured(p.get_total_lines_and_headers)
out(
    f"  parsed only: returned={r} raised={exc} headers={p.headers} lm={lm_str(p.line_monitor)} total={p.get_total_lines()}"
)
p = CsvPath()
r, exc, printed = captured(lambda: p.parse("$data/nosuchfile.csv[*][yes()]"))
out(f"  missing file parse: raised={exc}")
r, exc, printed = captured(p.get_total_lines_and_headers)
out(f"  missing file count: returned={r} raised={exc}")

#
# ---------------------------------------------------------------- 2. via CsvPaths
#
out("=== 2. CsvPath created by CsvPaths (FileCacher), cold cache")
cp = new_csvpaths()
list_cache()
for fname in FILES:
    for pname in ["all", "counts", "hdrs"]:
        run_via(cp, fname, pname)
list_cache()
out("=== 2b. same CsvPaths again: in-memory entries; destructive csvpaths in between")
for fname in ["plain", "blanks", "ragged", "empties", "blank_last", "quoted"]:
    run_via(cp, fname, "reset")
    run_via(cp, fname, "hdrs")
    run_via(cp, fname, "adv", "next")
    run_via(cp, fname, "counts", "ff")
run_via(cp, "quoted", "byname")
out("=== 2c. callers mutating what they were given do not disturb later callers")
cacher = cp.file_manager.cacher
fn = cp.file_manager.get_named_file("quoted")
lm1 = cacher.get_new_line_monitor(fn)
h1 = cacher.get_original_headers(fn)
out(f"  lm1={lm_str(lm1)} h1={h1} types={type(lm1).__name__},{type(h1).__name__}")
lm1.next_line(last_line=[], data=["x"])
lm1.next_line(last_line=[], data=[])
lm1.set_end_lines_and_reset()
h1.append("extra")
h1[0] = "changed"
lm2 = cacher.get_new_line_monitor(fn)
h2 = cacher.get_original_headers(fn)
out(f"  lm1 mutated={lm_str(lm1)} h1 mutated={h1}")
out(f"  lm2={lm_str(lm2)} h2={h2} same_lm={lm1 is lm2} same_h={h1 is h2}")
out(f"  lm2.last_line={lm2.last_line} is_last_line={lm2.is_last_line()}")
run_via(cp, "quoted", "hdrs")
out(f"  memo keys={len(cacher.pathed_lines_and_headers)}")
out("=== 2d. new CsvPaths, same process: cache dir is warm")
cp2 = new_csvpaths()
for fname in FILES:
    run_via(cp2, fname, "counts")
    run_via(cp2, fname, "hdrs")
list_cache()
out("=== 2e. cache wiped, new CsvPaths: cold again; different order of jobs")
shutil.rmtree("cache")
cp3 = new_csvpaths()
for fname in reversed(list(FILES)):
    run_via(cp3, fname, "hdrs")
    run_via(cp3, fname, "counts")
list_cache()
out("=== 2f. damaged cache entries are recounted")
for n in sorted(os.listdir("cache")):
    if n.endswith(".json"):
        with open(os.path.join("cache", n), "w", encoding="utf-8") as f:
            f.write("  \n")
cp4 = new_csvpaths()
for fname in ["plain", "blanks", "quoted", "empty"]:
    run_via(cp4, fname, "counts")
list_cache()
for n in sorted(os.listdir("cache")):
    if n.endswith(".csv"):
        os.remove(os.path.join("cache", n))
cp5 = new_csvpaths()
for fname in ["plain", "blanks", "quoted", "empty", "only_blank"]:
    run_via(cp5, fname, "hdrs")
list_cache()
out("=== 2g. a file that is not a named file: path used as is")
cp6 = CsvPaths()
p = cp6.csvpath()
lines, exc, printed = captured(
    lambda: (p.parse(PATHS["counts"].replace("$[", "$data/blanks.csv[", 1)), p.collect())[1]
)
out(f"  raised={exc} stdout={printed!r}")
show_path("via unnamed counts blanks", p, lines)
p = cp6.csvpath()
r, exc, printed = captured(p.get_total_lines_and_headers)
out(f"  no scanner via CsvPaths: returned={r} raised={exc}")
r, exc, printed = captured(lambda: cp6.file_manager.cacher.get_new_line_monitor("data/nosuch.csv"))
out(f"  cacher missing file lm: raised={exc}")
r, exc, printed = captured(lambda: cp6.file_manager.cacher.get_original_headers("data/nosuch.csv"))
out(f"  cacher missing file headers: raised={exc}")
out(f"  memo keys={sorted(cp6.file_manager.cacher.pathed_lines_and_headers)}")
out("=== 2h. a file rewritten at the same path is recounted by a new CsvPaths")
with open("data/rewrite.csv", "w", encoding="utf-8") as f:
    f.write("a,b\n1,2\n")
cp7 = CsvPaths()
lm = cp7.file_manager.cacher.get_new_line_monitor("data/rewrite.csv")
out(f"  before: {lm_str(lm)} {cp7.file_manager.cacher.get_original_headers('data/rewrite.csv')}")
with open("data/rewrite.csv", "w", encoding="utf-8") as f:
    f.write("x,y,z\n1,2,3\n4,5,6\n\n")
cp8 = CsvPaths()
lm = cp8.file_manager.cacher.get_new_line_monitor("data/rewrite.csv")
out(f"  after: {lm_str(lm)} {cp8.file_manager.cacher.get_original_headers('data/rewrite.csv')}")
out("=== 2i. CsvPaths with another delimiter")
shutil.rmtree("cache")
cpp = CsvPaths(delimiter="|", quotechar="'")
cpp.file_manager.add_named_file(name="pipes", path="data/pipes.psv")
run_via(cpp, "pipes", "hdrs")
run_via(cpp, "pipes", "counts")
cpp = CsvPaths(delimiter="|", quotechar="'", skip_blank_lines=False)
cpp.file_manager.add_named_file(name="pipes", path="data/pipes.psv")
run_via(cpp, "pipes", "counts")
list_cache()

#
# ---------------------------------------------------------------- 3. named-paths runs
#
out("=== 3. named-paths runs: archive contents")
shutil.rmtree("cache")
shutil.rmtree("archive", ignore_errors=True)
cpn = new_csvpaths()
cpn.paths_manager.add_named_paths(
    name="grp",
    paths=[
        PATHS["counts"],
        "~id:hdrs~ " + PATHS["hdrs"],
        "~id:reset~ " + PATHS["reset"],
        "~id:stop~ " + PATHS["stop2"],
        "~id:unk validation-mode:no-raise~ " + PATHS["unk"],
        "~id:fail unmatched-mode:keep~ " + PATHS["fail4"],
        "~id:baddiv~ " + PATHS["baddiv"],
    ],
)
for fname, method in [
    ("blanks", "collect_paths"),
    ("quoted", "fast_forward_paths"),
    ("ragged", "collect_paths"),
    ("empty", "collect_paths"),
    ("blank_last", "collect_paths"),
]:
    _, exc, printed = captured(
        lambda: getattr(cpn, method)(filename=fname, pathsname="grp")  # pylint: disable=W0640
    )
    out(f"  {method} {fname}: raised={exc} stdout={printed!r}")
    show_results(cpn, "grp")
_, exc, printed = captured(
    lambda: [line for line in cpn.next_paths(filename="plain", pathsname="grp")]
)
out(f"  next_paths plain: raised={exc} stdout={printed!r} yielded={_}")
show_results(cpn, "grp")
_, exc, printed = captured(lambda: cpn.collect_by_line(filename="blanks", pathsname="grp"))
out(f"  collect_by_line blanks: raised={exc} stdout={printed!r}")
show_results(cpn, "grp")
_, exc, printed = captured(lambda: cpn.fast_forward_by_line(filename="ragged", pathsname="grp"))
out(f"  fast_forward_by_line ragged: raised={exc} stdout={printed!r}")
show_results(cpn, "grp")
out("  archive:")
list_tree("archive")
list_cache()

#
# ---------------------------------------------------------------- 4. the helpers
#
out("=== 4. helpers used directly")
cp9 = CsvPaths()
cache = Cache(cp9)
out(f"  cached_text missing json={cache.cached_text('data/plain.csv-nope', 'json')!r}")
out(f"  cached_text missing csv={cache.cached_text('data/plain.csv-nope', 'csv')!r}")
cache.cache_text("data/k1", "json", '{"a": 1}\n\n  ')
cache.cache_text("data/k1", "csv", "\r\n\r\nh1,\"h,2\"\r\nx,y\r\n")
cache.cache_text("data/k2", "csv", "")
cache.cache_text("data/k3", "csv", "\n\n")
cache.cache_text("data/k4", "json", 12)
out(f"  k1 json={cache.cached_text('data/k1', 'json')!r}")
out(f"  k1 csv={cache.cached_text('data/k1', 'csv')!r}")
out(f"  k2 csv={cache.cached_text('data/k2', 'csv')!r}")
out(f"  k3 csv={cache.cached_text('data/k3', 'csv')!r}")
out(f"  k4 json={cache.cached_text('data/k4', 'json')!r}")
out(f"  k4 other={cache.cached_text('data/k4', 'other')!r}")
fc = FileCacher(cp9)
out(f"  fresh cacher memo={fc.pathed_lines_and_headers} csvpaths_is={fc.csvpaths is cp9}")
for fname in ["plain", "blanks", "empty", "only_blank", "quoted", "multiline", "spaces"]:
    path = f"data/{fname}.csv"
    a = fc.get_original_headers(path)
    b = fc.get_new_line_monitor(path)
    c = fc.get_new_line_monitor(path)
    out(f"  {fname}: headers={a} lm={lm_str(b)} again={lm_str(c)} distinct={b is not c}")
    lc = LineCounter(cp9)
    lm, hs = lc.get_lines_and_headers(path)
    out(f"  {fname}: counter headers={hs} lm={lm_str(lm)} equal={lm.dump() == b.dump() and hs == a}")
    fc2 = FileCacher(cp9)
    out(
        f"  {fname}: second cacher lm={lm_str(fc2.get_new_line_monitor(path))} headers={fc2.get_original_headers(path)}"
    )
out(f"  memo keys={sorted(fc.pathed_lines_and_headers)}")
out(
    "  clean_headers="
    + repr(
        LineCounter.clean_headers(
            [" a ", "b;c", "d,e", "f|g", "h\ti", "`j`", "", "  ", ";,|\t`", " ; k ", 'l"m', "n\no"]
        )
    )
)
out(f"  clean_headers empty={LineCounter.clean_headers([])!r}")
lm = LineMonitor()
out(f"  new lm={lm.dump()}")
lm2 = LineMonitor()
lm2.load(lm.dump())
out(f"  roundtrip={lm2.dump()} copy={lm.copy().dump()}")
for data in [["a"], [], [], ["b", ""], []]:
    lm.next_line(last_line=[], data=data)
out(f"  counted lm={lm.dump()} copy={lm.copy().dump()} last={lm.is_last_line()}")
lm.set_end_lines_and_reset()
out(f"  ended lm={lm.dump()} copy={lm.copy().dump()}")
lm2.load(lm.dump())
out(f"  roundtrip={lm2.dump()} copy_is_new={lm.copy() is not lm}")
list_cache()
out("=== done")
