#!/venv/bin/python
"""Differential demonstration for refactoring t1 (property C17).

t1 rewrites ExpressionUtility.get_name_and_qualifiers: the unquoted branch is
pulled out into _parse_unquoted() and the recursive _next_qual() becomes the
iterative _collect_quals().

Run in an empty scratch directory:

    mkdir -p /tmp/demo_TXC17_1 && cd /tmp/demo_TXC17_1
    PYTHONPATH=<tree> /venv/bin/python demo.py > out.txt

The script is self-contained: it writes ./config/config.ini, its CSV files and
removes ./archive ./inputs ./cache ./logs before starting. Everything printed
is deterministic (timestamps, uuids, traces and timings are masked).
"""
import os
import sys

if os.environ.get("PYTHONHASHSEED") != "0":
    # lark's "Expected one of" lists are built from sets of strings. pin the
    # hash seed so that the transcript does not depend on the process.
    os.environ["PYTHONHASHSEED"] = "0"
    os.execv(sys.executable, [sys.executable] + sys.argv)

import contextlib
import io
import json
import random
import re
import shutil

CONFIG = """[csvpath_files]
extensions = txt, csvpath, csvpaths

[csv_files]
extensions = txt, csv, tsv, dat, tab, psv, ssv

[errors]
csvpath = collect, fail, print
csvpaths = collect

[logging]
csvpath = info
csvpaths = info
log_file = logs/csvpath.log
log_files_to_keep = 100
log_file_size = 52428800

[config]
path = config/config.ini

[cache]
path = cache

[listeners]
[marquez]
base_url = http://localhost:5000

[functions]
imports = config/functions.imports

[results]
archive = archive
transfers = transfers

[inputs]
files = inputs/named_files
csvpaths = inputs/named_paths
on_unmatched_file_fingerprints = halt
"""

FOOD = """firstname,lastname,say,Last Year Number,a.b
David,Kermit,ribbit,10,x

Fish,Bat,blurgh,0,
Frog,Bat,ribbit,-3.5
,,,,
Bug,Bat,"sniffle sniffle",007,y,extra
Ant,,,+4,z
"""

SMALL = """a,b,c
1,2,3

4,,6
7,8
0,x,"y z"

"""


def setup():
    for d in ("archive", "inputs", "cache", "logs", "config", "transfers"):
        shutil.rmtree(d, ignore_errors=True)
    os.makedirs("config")
    with open("config/config.ini", "w", encoding="utf-8") as f:
        f.write(CONFIG)
    with open("config/functions.imports", "w", encoding="utf-8") as f:
        f.write("")
    with open("food.csv", "w", encoding="utf-8") as f:
        f.write(FOOD)
    with open("small.csv", "w", encoding="utf-8") as f:
        f.write(SMALL)
    with open("empty.csv", "w", encoding="utf-8") as f:
        f.write("")
    with open("headers_only.csv", "w", encoding="utf-8") as f:
        f.write("a,b,c\n")


setup()

from csvpath import CsvPath, CsvPaths  # noqa: E402
from csvpath.matching.util.expression_utility import ExpressionUtility  # noqa: E402
from csvpath.matching.productions import (  # noqa: E402
    Equality,
    Expression,
    Header,
    Reference,
    Term,
    Variable,
)
from csvpath.matching.productions.qualified import Qualified  # noqa: E402
from csvpath.matching.functions.function import Function  # noqa: E402
from csvpath.matching.functions.function_factory import FunctionFactory  # noqa: E402

RUN_RE = re.compile(r"\d{4}-\d{2}-\d{2}_\d{2}-\d{2}-\d{2}(\.\d+)?")
RUN_NAMES = {}  # "<named-paths>/<run dir>" -> "<named-paths>/<RUNk>", k in run order
ADDR_RE = re.compile(r"0x[0-9a-f]{6,}")
HEX_RE = re.compile(r"[0-9a-f]{64}")
VOLATILE = {
    "time",
    "uuid",
    "run_time",
    "lines_time",
    "last_line_time",
    "run_started_at",
    "time_completed",
    "named_paths_uuid",
    "trace",
    "at",
    "named_file_last_change",
    "last_change",
    "from",
}


def say(*args):
    print(*args)


def norm_text(s):
    for k in sorted(RUN_NAMES, key=len, reverse=True):
        s = s.replace(k, RUN_NAMES[k])
    s = RUN_RE.sub("<RUN>", s)
    s = ADDR_RE.sub("0x<addr>", s)
    return s


def map_run_dirs(root="archive"):
    """run dirs are named for the second the run started in, with .N added
    when two runs of the same named-paths start within one second. number
    them in run order so the transcript does not depend on the clock."""
    RUN_NAMES.clear()
    if not os.path.isdir(root):
        return
    for np_ in sorted(os.listdir(root)):
        d = os.path.join(root, np_)
        if not os.path.isdir(d):
            continue
        runs = [r for r in os.listdir(d) if RUN_RE.fullmatch(r)]

        def order(r):
            base, _, n = r.partition(".")
            return (base, int(n) if n != "" else -1)

        for k, r in enumerate(sorted(runs, key=order)):
            RUN_NAMES[f"{np_}/{r}"] = f"{np_}/<RUN{k + 1}>"


def norm_json(o, parent=None):
    if isinstance(o, dict):
        out = {}
        for k, v in o.items():
            if k in VOLATILE and v is not None:
                out[k] = "<masked>"
            elif k == "file_fingerprints" and isinstance(v, dict):
                # these files embed times (and traces) so their digests vary
                out[k] = {
                    fk: (
                        "<masked>"
                        if fk in ("meta.json", "manifest.json", "errors.json")
                        else fv
                    )
                    for fk, fv in v.items()
                }
            else:
                out[k] = norm_json(v, k)
        return out
    if isinstance(o, list):
        return [norm_json(_) for _ in o]
    if isinstance(o, str):
        return norm_text(o)
    return o


def describe_exception(e):
    chain = []
    seen = 0
    while e is not None and seen < 6:
        chain.append(f"{type(e).__name__}: {norm_text(str(e))}")
        nxt = getattr(e, "orig_exc", None) or e.__cause__
        e = nxt
        seen += 1
    return " <- ".join(chain)


def dump(node, indent=0):
    """dumps a match component tree: kind, name, qualifiers, op, value, children"""
    pad = "  " * indent
    kind = type(node).__name__
    bits = [kind]
    if isinstance(node, Function):
        bits.append(f"fname={node.name!r}")
    elif isinstance(node, (Header, Variable, Reference)):
        bits.append(f"name={node.name!r}")
    if isinstance(node, Qualified) and not isinstance(node, (Expression, Equality)):
        bits.append(f"qname={node.qualified_name!r}")
        bits.append(f"quals={node.qualifiers!r}")
        if node.qualifier is not None:
            bits.append(f"qualifier={node.qualifier!r}")
    if isinstance(node, Equality):
        bits.append(f"op={str(node.op)!r}")
    if isinstance(node, Term):
        bits.append(f"value={node.value!r}:{type(node.value).__name__}")
    say(pad + " ".join(bits))
    for c in node.children:
        if c is None:
            say(pad + "  None")
            continue
        if c.parent is not node:
            say(pad + "  !! parent mismatch below")
        dump(c, indent + 1)


def tree_text(path):
    buf = io.StringIO()
    with contextlib.redirect_stdout(buf):
        p = CsvPath()
        p.parse(path)
        m = p.parse(path, disposably=True)
        for e in m.expressions:
            dump(e[0])
    return buf.getvalue()


def show_errors(errors):
    if errors is None:
        say("  errors: None")
        return
    say(f"  errors: {len(errors)}")
    for e in errors:
        say(
            "   - line=%s match=%s scan=%s class=%s error=%s source=%s message=%s datum=%s"
            % (
                e.line_count,
                e.match_count,
                e.scan_count,
                type(e.error).__name__,
                norm_text(str(e.error)),
                norm_text(str(e.source)),
                e.message,
                e.datum,
            )
        )


def show_metadata(md):
    say("  metadata:", json.dumps(norm_json(md), sort_keys=True, default=str))


def run(path, *, method="collect", show_tree=False):
    say("-" * 70)
    say(f"RUN[{method}] {path!r}")
    out = io.StringIO()
    p = None
    try:
        with contextlib.redirect_stdout(out):
            p = CsvPath()
            p.parse(path)
            lines = None
            if method == "collect":
                lines = p.collect()
            elif method == "fast_forward":
                p.fast_forward()
            elif method == "next":
                lines = []
                for line in p.next():
                    lines.append(list(line))
        if show_tree:
            say("  tree:")
            tt = io.StringIO()
            with contextlib.redirect_stdout(tt):
                for e in p.matcher.expressions:
                    dump(e[0], 2)
            sys.stdout.write(tt.getvalue())
        if lines is not None:
            say(f"  lines: {len(lines)}")
            for line in lines:
                say(f"   {line!r}")
        say("  scan:", p.scan, "| match:", p.match)
        say("  variables:", json.dumps(p.variables, sort_keys=True, default=str))
        say("  is_valid:", p.is_valid, "stopped:", p.stopped)
        say(
            "  counts: lines=%s scans=%s matches=%s"
            % (
                p.line_monitor.physical_line_count,
                p.scan_count,
                p.match_count,
            )
        )
        show_errors(p.errors)
        show_metadata(p.metadata)
    except Exception as e:  # pylint: disable=W0718
        say("  EXCEPTION:", describe_exception(e))
        if p is not None:
            try:
                show_errors(p.errors)
                say("  is_valid:", p.is_valid)
            except Exception as e2:  # pylint: disable=W0718
                say("  (no errors available: %s)" % type(e2).__name__)
    printed = out.getvalue()
    say("  printouts:")
    for ln in printed.split("\n"):
        say("   |" + norm_text(ln))


def layouts(tokens, n, seed):
    """tokens: the csvpath as a list of strings. items of the list that are
    None mark the places between match components where whitespace, newlines
    and ~comments~ may be inserted."""
    rnd = random.Random(seed)
    fillers = [
        "",
        " ",
        "  ",
        "\n",
        "\t",
        " \n  ",
        "\r\n",
        " ~a comment~ ",
        "~x~",
        "\n~ multi\n line: comment ~\n",
        " ~~ ",
        "~ #notaheader @notavar yes() ~",
    ]
    out = []
    for _ in range(n):
        s = ""
        for t in tokens:
            if t is None:
                f = rnd.choice(fillers)
                # a filler must at least separate the components
                s += f if f != "" else " "
            else:
                s += t
        out.append(s)
    return out


# =====================================================================
say("=" * 70)
say("PART A: ExpressionUtility.get_name_and_qualifiers directly")
NAMES = [
    "test",
    "test.onmatch",
    "test.onchange.onmatch",
    "count.a.b.c.d.e.f.g",
    "a.",
    "a..",
    "a..b",
    "a.b.",
    ".a",
    "..a",
    ".",
    "..",
    "",
    " ",
    "  .x",
    " a .b ",
    "a. b . c",
    "0",
    "0.0",
    "1.5.onmatch",
    "-1",
    "name_with_underscore.q_1.q-2",
    "a-b-c.once",
    '"Last Year Number"',
    '"Last Year Number".onmatch',
    '"Last Year Number".onmatch.asbool',
    '"a.b"',
    '"a.b".c',
    '"a.b"."c.d"',
    '"a.b".c."d.e".f',
    'x."y"',
    'x."y".z',
    '"x"y',
    '"',
    '""',
    '"".a',
    '" "',
    '"a',
    'a"',
    '"a"."',
    '"a".',
    '"a"..b',
    '.".".',
    '" lead"',
    "x" + ".q" * 40,
    "tab\t.q",
    "nl\n.q",
    "é.ü",
]
for nm in NAMES:
    try:
        r = ExpressionUtility.get_name_and_qualifiers(nm)
        say(f"  {nm!r} -> {r!r} types={type(r).__name__},{type(r[1]).__name__}")
    except Exception as e:  # pylint: disable=W0718
        say(f"  {nm!r} -> EXC {type(e).__name__}: {e}")
for bad in [None, 5, 1.5, b"a.b", ["a.b"], ("a", "b")]:
    try:
        r = ExpressionUtility.get_name_and_qualifiers(bad)
        say(f"  {bad!r} -> {r!r}")
    except Exception as e:  # pylint: disable=W0718
        say(f"  {bad!r} -> EXC {type(e).__name__}: {e}")

# the returned list is fresh on every call, never shared
n1, q1 = ExpressionUtility.get_name_and_qualifiers("a.b.c")
n2, q2 = ExpressionUtility.get_name_and_qualifiers("a.b.c")
q1.append("zzz")
say("  fresh lists:", q1, q2, q1 is q2)
n3, q3 = ExpressionUtility.get_name_and_qualifiers("a")
n4, q4 = ExpressionUtility.get_name_and_qualifiers("a")
q3.append("zzz")
say("  fresh empty lists:", q3, q4, q3 is q4)


class StrSub(str):
    pass


r = ExpressionUtility.get_name_and_qualifiers(StrSub("f.onmatch.x"))
say("  str subclass:", r, type(r[0]).__name__, [type(_).__name__ for _ in r[1]])

# =====================================================================
say("=" * 70)
say("PART B: names and qualifiers as seen on productions")
for nm in [
    "a",
    "a.onmatch",
    "a.b.c",
    '"Last Year Number".asbool',
    '"a.b".nocontrib.x',
    " padded .q",
    "",
    ".",
    ".q",
    " ",
]:
    for cls in (Header, Variable, Reference, Term):
        try:
            if cls is Term:
                o = cls(None, value="v", name=nm)
            else:
                o = cls(None, name=nm)
            say(
                f"  {cls.__name__}({nm!r}): name={o.name!r} qname={o.qualified_name!r} "
                f"quals={o.qualifiers!r} onmatch={o.onmatch} asbool={o.asbool} "
                f"first={o.first_non_term_qualifier()!r} second={o.second_non_term_qualifier()!r}"
            )
        except Exception as e:  # pylint: disable=W0718
            say(f"  {cls.__name__}({nm!r}): EXC {type(e).__name__}: {e}")
for fn in [
    "count",
    "count.onmatch",
    "count.mine.onmatch",
    "count.onmatch.mine.other",
    "tally.x.y.z",
    "count.",
    "count..x",
    "nosuchfunction.onmatch",
]:
    try:
        f = FunctionFactory.get_function(None, name=fn, child=None)
        say(
            f"  function {fn!r}: {type(f).__name__} name={f.name!r} qname={f.qualified_name!r} "
            f"qualifier={f.qualifier!r} quals={f.qualifiers!r} onmatch={f.onmatch} "
            f"first={f.first_non_term_qualifier()!r} second={f.second_non_term_qualifier()!r}"
        )
    except Exception as e:  # pylint: disable=W0718
        say(f"  function {fn!r}: EXC {type(e).__name__}: {e}")

# =====================================================================
say("=" * 70)
say("PART C: one AST, many layouts -> one tree")
ASTS = [
    [
        "$food.csv[*][",
        None,
        '#"Last Year Number"',
        None,
        "#say.asbool.nocontrib",
        None,
        "@n.onmatch.increase = count.mine.onmatch()",
        None,
        '#firstname.nocontrib == "Frog" -> @frog.latch.notnone = #0',
        None,
        "]",
    ],
    [
        "$food.csv[1-3+5][",
        None,
        "tally.names.onmatch(#firstname, #lastname)",
        None,
        'or.x(#say=="ribbit", in.y(#2, "a|b|c"), not.z(empty.w(#1)))',
        None,
        "@a.b.c.d = add(-1, +2.50, 0, .5)",
        None,
        "regex.r(/s[a-z]+\\.?le/, #say)",
        None,
        "]",
    ],
    [
        "$food.csv[*][",
        None,
        '#"a.b"',
        None,
        '@quoted_var.q.onchange = "lit . with dots"',
        None,
        "$food.csv.variables.n.mine",
        None,
        "push.distinct.notnone(\"stack\", #say)",
        None,
        "]",
    ],
]
for i, toks in enumerate(ASTS):
    canonical = "".join(" " if t is None else t for t in toks)
    say(f"AST {i}: {canonical!r}")
    try:
        base = tree_text(canonical)
        sys.stdout.write(base)
        same = 0
        for lay in layouts(toks, 25, 1000 + i):
            t = tree_text(lay)
            if t == base:
                same += 1
            else:
                say("  DIFFERENT TREE for layout", repr(lay))
                sys.stdout.write(t)
        say(f"  layouts identical to canonical: {same}/25")
    except Exception as e:  # pylint: disable=W0718
        say("  EXCEPTION:", describe_exception(e))

# =====================================================================
say("=" * 70)
say("PART D: runs")
RUNS = [
    "$food.csv[*][yes()]",
    "$food.csv[*][ #firstname ]",
    '$food.csv[*][ #"Last Year Number" ]',
    '$food.csv[*][ #"Last Year Number".asbool ]',
    '$food.csv[*][ #"a.b" ]',
    '$food.csv[*][ @x = #"a.b" ]',
    '$food.csv[*][ @"a.b".latch = #say  @c = count() ]',
    "$food.csv[*][ @n.onmatch = count.mine.onmatch() #lastname == \"Bat\" ]",
    "$food.csv[1*][ @t.increase = #3  print(\"$.variables.t\") ]",
    "$food.csv[1*][ @t.decrease = #3 ]",
    "$food.csv[*][ tally.who(#lastname) ]",
    "$food.csv[*][ tally.who.onmatch(#lastname) #say == \"ribbit\" ]",
    "$food.csv[*][ @l.onchange = #lastname ]",
    "$food.csv[*][ @l.onchange.nocontrib = #lastname ]",
    "$food.csv[*][ @first.notnone.latch = #1 ]",
    "$food.csv[*][ @z = add(#3, 0) ]",
    "$food.csv[*][ @z.asbool = #3 ]",
    "$food.csv[*][ #3.asbool ]",
    "$food.csv[*][ push.distinct(\"says\", #say) ]",
    "$food.csv[*][ count.a.b.c.d() == 2 ]",
    "$food.csv[*][ counter.k.onmatch(2) #0 ]",
    "$food.csv[*][ every.fish(#lastname, 2) ]",
    "$food.csv[*][ #0. ]",
    "$food.csv[*][ @v. = 1 ]",
    "$food.csv[*][ @v..x = 1 ]",
    "$food.csv[*][ count.() ]",
    "$food.csv[*][ nosuch.onmatch() ]",
    "$food.csv[*][ last.nocontrib() -> @total.onmatch = count_lines() ]",
    "$small.csv[*][ @b.notnone = #b  @c.latch = #c ]",
    "$small.csv[*][ #b.asbool ]",
    "$small.csv[*][ #a.asbool ]",
    "$small.csv[*][ @zero = #a  @zero.asbool ]",
    "$empty.csv[*][ @x.onmatch = count() ]",
    "$headers_only.csv[*][ @x.onmatch = count() ]",
    '~ name: outer  description: an outer comment ~ $small.csv[*][ #c.onchange ]',
]
for r_ in RUNS:
    run(r_, show_tree=True)
say("=" * 70)
say("PART D2: repeated and alternative run methods")
for meth in ("collect", "next", "fast_forward", "collect"):
    run(
        '$food.csv[*][ @n.onmatch = count.mine.onmatch() #lastname.nocontrib == "Bat" ~c~ tally.t.onmatch(#say) ]',
        method=meth,
    )

# =====================================================================
say("=" * 70)
say("PART E: CsvPaths group run and archive")


def show_archive(root="archive"):
    map_run_dirs(root)
    listing = []
    for dirpath, dirnames, filenames in os.walk(root):
        dirnames.sort()
        for fn in sorted(filenames):
            listing.append(os.path.join(dirpath, fn))
    # two runs in the same second get a .N suffix; normalise then sort
    shown = sorted((norm_text(p_), p_) for p_ in listing)
    for np_, p_ in shown:
        say("FILE", np_)
        with open(p_, "r", encoding="utf-8") as f:
            content = f.read()
        if p_.endswith(".json"):
            try:
                j = norm_json(json.loads(content))
                content = json.dumps(j, indent=1, sort_keys=True)
            except Exception as e:  # pylint: disable=W0718
                content = f"<unparsable json {type(e).__name__}> " + content
        for ln in norm_text(content).split("\n"):
            say("   |" + HEX_RE.sub("<sha>", ln) if "fingerprint" in ln or "inputs/named_files" in ln else "   |" + ln)


out = io.StringIO()
try:
    with contextlib.redirect_stdout(out):
        cp = CsvPaths()
        cp.file_manager.add_named_file(name="food", path="food.csv")
        cp.file_manager.add_named_file(name="small", path="small.csv")
        cp.paths_manager.add_named_paths(
            name="quals",
            paths=[
                '~ id: first ~ $[*][ @n.onmatch = count.mine.onmatch() #lastname == "Bat" print("n=$.variables.n")]',
                '~ id: second\n validation-mode: no-raise, print ~\n$[*][\n  tally.who.onmatch(#lastname)\n ~ inner ~ #"Last Year Number"\n #say.asbool.nocontrib ]',
                '~ id: third ~ $[*][ @ab.latch.notnone = #"a.b"  @v..x = #0 ]',
                '~ id: fourth ~ $[*][ nosuch.onmatch() ]',
            ],
        )
        cp.collect_paths(filename="food", pathsname="quals")
        results = cp.results_manager.get_named_results("quals")
        cp.fast_forward_paths(filename="small", pathsname="quals")
        results2 = cp.results_manager.get_named_results("quals")
    for tag, rs in (("collect food", results), ("fast_forward small", results2)):
        say(f"results after {tag}: {len(rs)}")
        for r in rs:
            say(
                "  result identity=%s valid=%s lines=%s vars=%s errors=%s printouts=%s"
                % (
                    r.csvpath.identity,
                    r.is_valid,
                    len(r.lines) if r.lines is not None else None,
                    json.dumps(r.variables, sort_keys=True, default=str),
                    [norm_text(str(e.error)) for e in r.errors] if r.errors else r.errors,
                    r.get_printouts() if hasattr(r, "get_printouts") else None,
                )
            )
except Exception as e:  # pylint: disable=W0718
    say("  EXCEPTION:", describe_exception(e))
say("  printouts:")
for ln in out.getvalue().split("\n"):
    say("   |" + norm_text(ln))
show_archive("archive")
say("DONE")
