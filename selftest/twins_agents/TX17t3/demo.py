#!/venv/bin/python
"""Differential demonstration for refactoring t3 (property C17).

t3 moves the string-splitting logic of CsvPath._find_scan_and_match_parts to
the module-level function split_scan_and_match() in
csvpath/util/metadata_parser.py; the method keeps its name and signature,
calls the function and then saves the parts (if asked to) as before.

Run in an empty scratch directory:

    mkdir -p /tmp/demo_TXC17_3 && cd /tmp/demo_TXC17_3
    PYTHONPATH=<tree> /venv/bin/python demo.py > out.txt

The script is self-contained: it writes ./config/config.ini, its CSV files and
removes ./archive ./inputs ./cache ./logs before starting. Everything printed
is deterministic (timestamps, uuids, traces and timings are masked).
"""
import os
import sys

if os.environ.get("PYTHONHASHSEED") != "0":
    # lark's "Expected one of" lists are built from sets of strings. pin the
    # hash seed so that the transcript does not depend on the process.
    os.environ["PYTHONHASHSEED"] = "0"
    os.execv(sys.executable, [sys.executable] + sys.argv)

import contextlib
import io
import json
import random
import re
import shutil

CONFIG = """[csvpath_files]
extensions = txt, csvpath, csvpaths

[csv_files]
extensions = txt, csv, tsv, dat, tab, psv, ssv

[errors]
csvpath = collect, fail, print
csvpaths = collect

[logging]
csvpath = info
csvpaths = info
log_file = logs/csvpath.log
log_files_to_keep = 100
log_file_size = 52428800

[config]
path = config/config.ini

[cache]
path = cache

[listeners]
[marquez]
base_url = http://localhost:5000

[functions]
imports = config/functions.imports

[results]
archive = archive
transfers = transfers

[inputs]
files = inputs/named_files
csvpaths = inputs/named_paths
on_unmatched_file_fingerprints = halt
"""

FOOD = """firstname,lastname,say,Last Year Number,a.b
David,Kermit,ribbit,10,x

Fish,Bat,blurgh,0,
Frog,Bat,ribbit,-3.5
,,,,
Bug,Bat,"sniffle sniffle",007,y,extra
Ant,,,+4,z
"""

SMALL = """a,b,c
1,2,3

4,,6
7,8
0,x,"y z"

"""


def setup():
    for d in ("archive", "inputs", "cache", "logs", "config", "transfers"):
        shutil.rmtree(d, ignore_errors=True)
    os.makedirs("config")
    with open("config/config.ini", "w", encoding="utf-8") as f:
        f.write(CONFIG)
    with open("config/functions.imports", "w", encoding="utf-8") as f:
        f.write("")
    with open("food.csv", "w", encoding="utf-8") as f:
        f.write(FOOD)
    with open("small.csv", "w", encoding="utf-8") as f:
        f.write(SMALL)
    with open("empty.csv", "w", encoding="utf-8") as f:
        f.write("")
    with open("headers_only.csv", "w", encoding="utf-8") as f:
        f.write("a,b,c\n")


setup()

from csvpath import CsvPath, CsvPaths  # noqa: E402
from csvpath.matching.util.expression_utility import ExpressionUtility  # noqa: E402
from csvpath.matching.productions import (  # noqa: E402
    Equality,
    Expression,
    Header,
    Reference,
    Term,
    Variable,
)
from csvpath.matching.productions.qualified import Qualified  # noqa: E402
from csvpath.matching.functions.function import Function  # noqa: E402
from csvpath.matching.functions.function_factory import FunctionFactory  # noqa: E402

RUN_RE = re.compile(r"\d{4}-\d{2}-\d{2}_\d{2}-\d{2}-\d{2}(\.\d+)?")
RUN_NAMES = {}  # "<named-paths>/<run dir>" -> "<named-paths>/<RUNk>", k in run order
ADDR_RE = re.compile(r"0x[0-9a-f]{6,}")
HEX_RE = re.compile(r"[0-9a-f]{64}")
VOLATILE = {
    "time",
    "uuid",
    "run_time",
    "lines_time",
    "last_line_time",
    "run_started_at",
    "time_completed",
    "named_paths_uuid",
    "trace",
    "at",
    "named_file_last_change",
    "last_change",
    "from",
}


def say(*args):
    print(*args)


def norm_text(s):
    for k in sorted(RUN_NAMES, key=len, reverse=True):
        s = s.replace(k, RUN_NAMES[k])
    s = RUN_RE.sub("<RUN>", s)
    s = ADDR_RE.sub("0x<addr>", s)
    return s


def map_run_dirs(root="archive"):
    """run dirs are named for the second the run started in, with .N added
    when two runs of the same named-paths start within one second. number
    them in run order so the transcript does not depend on the clock."""
    RUN_NAMES.clear()
    if not os.path.isdir(root):
        return
    for np_ in sorted(os.listdir(root)):
        d = os.path.join(root, np_)
        if not os.path.isdir(d):
            continue
        runs = [r for r in os.listdir(d) if RUN_RE.fullmatch(r)]

        def order(r):
            base, _, n = r.partition(".")
            return (base, int(n) if n != "" else -1)

        for k, r in enumerate(sorted(runs, key=order)):
            RUN_NAMES[f"{np_}/{r}"] = f"{np_}/<RUN{k + 1}>"


def norm_json(o, parent=None):
    if isinstance(o, dict):
        out = {}
        for k, v in o.items():
            if k in VOLATILE and v is not None:
                out[k] = "<masked>"
            elif k == "file_fingerprints" and isinstance(v, dict):
                # these files embed times (and traces) so their digests vary
                out[k] = {
                    fk: (
                        "<masked>"
                        if fk in ("meta.json", "manifest.json", "errors.json")
                        else fv
                    )
                    for fk, fv in v.items()
                }
            else:
                out[k] = norm_json(v, k)
        return out
    if isinstance(o, list):
        return [norm_json(_) for _ in o]
    if isinstance(o, str):
        return norm_text(o)
    return o


def describe_exception(e):
    chain = []
    seen = 0
    while e is not None and seen < 6:
        chain.append(f"{type(e).__name__}: {norm_text(str(e))}")
        nxt = getattr(e, "orig_exc", None) or e.__cause__
        e = nxt
        seen += 1
    return " <- ".join(chain)


def dump(node, indent=0):
    """dumps a match component tree: kind, name, qualifiers, op, value, children"""
    pad = "  " * indent
    kind = type(node).__name__
    bits = [kind]
    if isinstance(node, Function):
        bits.append(f"fname={node.name!r}")
    elif isinstance(node, (Header, Variable, Reference)):
        bits.append(f"name={node.name!r}")
    if isinstance(node, Qualified) and not isinstance(node, (Expression, Equality)):
        bits.append(f"qname={node.qualified_name!r}")
        bits.append(f"quals={node.qualifiers!r}")
        if node.qualifier is not None:
            bits.append(f"qualifier={node.qualifier!r}")
    if isinstance(node, Equality):
        bits.append(f"op={str(node.op)!r}")
    if isinstance(node, Term):
        bits.append(f"value={node.value!r}:{type(node.value).__name__}")
    say(pad + " ".join(bits))
    for c in node.children:
        if c is None:
            say(pad + "  None")
            continue
        if c.parent is not node:
            say(pad + "  !! parent mismatch below")
        dump(c, indent + 1)


def tree_text(path):
    buf = io.StringIO()
    with contextlib.redirect_stdout(buf):
        p = CsvPath()
        p.parse(path)
        m = p.parse(path, disposably=True)
        for e in m.expressions:
            dump(e[0])
    return buf.getvalue()


def show_errors(errors):
    if errors is None:
        say("  errors: None")
        return
    say(f"  errors: {len(errors)}")
    for e in errors:
        say(
            "   - line=%s match=%s scan=%s class=%s error=%s source=%s message=%s datum=%s"
            % (
                e.line_count,
                e.match_count,
                e.scan_count,
                type(e.error).__name__,
                norm_text(str(e.error)),
                norm_text(str(e.source)),
                e.message,
                e.datum,
            )
        )


def show_metadata(md):
    say("  metadata:", json.dumps(norm_json(md), sort_keys=True, default=str))


def run(path, *, method="collect", show_tree=False):
    say("-" * 70)
    say(f"RUN[{method}] {path!r}")
    out = io.StringIO()
    p = None
    try:
        with contextlib.redirect_stdout(out):
            p = CsvPath()
            p.parse(path)
            lines = None
            if method == "collect":
                lines = p.collect()
            elif method == "fast_forward":
                p.fast_forward()
            elif method == "next":
                lines = []
                for line in p.next():
                    lines.append(list(line))
        if show_tree:
            say("  tree:")
            tt = io.StringIO()
            with contextlib.redirect_stdout(tt):
                for e in p.matcher.expressions:
                    dump(e[0], 2)
            sys.stdout.write(tt.getvalue())
        if lines is not None:
            say(f"  lines: {len(lines)}")
            for line in lines:
                say(f"   {line!r}")
        say("  scan:", p.scan, "| match:", p.match)
        say("  variables:", json.dumps(p.variables, sort_keys=True, default=str))
        say("  is_valid:", p.is_valid, "stopped:", p.stopped)
        say(
            "  counts: lines=%s scans=%s matches=%s"
            % (
                p.line_monitor.physical_line_count,
                p.scan_count,
                p.match_count,
            )
        )
        show_errors(p.errors)
        show_metadata(p.metadata)
    except Exception as e:  # pylint: disable=W0718
        say("  EXCEPTION:", describe_exception(e))
        if p is not None:
            try:
                show_errors(p.errors)
                say("  is_valid:", p.is_valid)
            except Exception as e2:  # pylint: disable=W0718
                say("  (no errors available: %s)" % type(e2).__name__)
    printed = out.getvalue()
    say("  printouts:")
    for ln in printed.split("\n"):
        say("   |" + norm_text(ln))


def layouts(tokens, n, seed):
    """tokens: the csvpath as a list of strings. items of the list that are
    None mark the places between match components where whitespace, newlines
    and ~comments~ may be inserted."""
    rnd = random.Random(seed)
    fillers = [
        "",
        " ",
        "  ",
        "\n",
        "\t",
        " \n  ",
        "\r\n",
        " ~a comment~ ",
        "~x~",
        "\n~ multi\n line: comment ~\n",
        " ~~ ",
        "~ #notaheader @notavar yes() ~",
    ]
    out = []
    for _ in range(n):
        s = ""
        for t in tokens:
            if t is None:
                f = rnd.choice(fillers)
                # a filler must at least separate the components
                s += f if f != "" else " "
            else:
                s += t
        out.append(s)
    return out


# =====================================================================
say("=" * 70)
say("PART A: CsvPath._find_scan_and_match_parts directly")


class StrSub(str):
    pass


SPLITS = [
    "$f.csv[*][yes()]",
    "$f.csv[*] [yes()]",
    "  $f.csv[*]\n\n[yes()]  \n",
    "$f.csv[*]\t[\tyes()\t]\t",
    "$f.csv[ * ] [ yes() ]",
    "$f.csv[1-3+5*][#a #b]",
    "$[*][yes()]",
    "$[][]",
    "[][]",
    "][]",
    "$f.csv[*][]",
    "$f.csv[*][ ]",
    "$f.csv[*][~c~]",
    "$f.csv[*][ ~ a ] bracket in a comment ~ yes() ]",
    '$f.csv[*][ #a == "]" ]',
    '$f.csv[*][ #a == "[" ]',
    "$f.csv[*][ regex(/[a-z]+/, #a) ]",
    "$f.csv[*][yes()][no()]",
    "$f.csv[*][yes()]]",
    "$f.csv[*][[yes()]",
    "$f[name].csv[*][yes()]",
    "$f.csv[*]",
    "$f.csv[*] ",
    "$f.csv[*]\n",
    "$f.csv[*]x",
    "$f.csv[*] x [yes()]",
    "$f.csv[*][yes()] x",
    "$f.csv[*][yes()",
    "$f.csv[*",
    "$f.csv",
    "",
    " ",
    "\n",
    "]",
    " ] ",
    "[",
    "]]",
    "][",
    "] [",
    "] []",
    "] [x]",
    " $f.csv[*] [yes()] ",
    "$f.csv[*]\x0b[yes()]\x0c",
    "$f.csv[*]\r\n[yes()]\r\n",
    "~ comment ~ $f.csv[*][yes()]",
    "~ a ] in comment ~ $f.csv[*][yes()]",
    "$f.csv[*][yes()] ~ trailing ~",
    "é[ü][ß]",
    StrSub("  $f.csv[*] [yes()] "),
    None,
    0,
    1,
    1.5,
    b"$f.csv[*][yes()]",
    ["$f.csv[*][yes()]"],
    ("$f.csv[*]", "[yes()]"),
    True,
]
p0 = CsvPath()
for d in SPLITS:
    try:
        r = p0._find_scan_and_match_parts(d)
        say(f"  {d!r} -> {r!r} {type(r).__name__} {[type(_).__name__ for _ in r]}")
    except Exception as e:  # pylint: disable=W0718
        say(f"  {d!r} -> EXC {type(e).__module__}.{type(e).__name__}: {e} | args={e.args!r}")
say("  scan/match attributes untouched by the helper:", p0.scan, p0.match)

say("-" * 70)
say("PART A2: saving the parts")
for d_ in ("saved_scan", "saved_match"):
    shutil.rmtree(d_, ignore_errors=True)
    os.makedirs(d_)


def show_saved():
    for d_ in ("saved_scan", "saved_match"):
        for fn in sorted(os.listdir(d_)):
            with open(os.path.join(d_, fn), "r", encoding="utf-8") as f:
                say(f"    {d_}/{fn}: {f.read()!r}")
        if not os.listdir(d_):
            say(f"    {d_}: (empty)")


for scan_dir, match_dir, run_name in [
    (None, None, None),
    ("saved_scan", "saved_match", None),
    ("saved_scan", "saved_match", ""),
    (None, None, "r0"),
    ("saved_scan", None, "r1"),
    (None, "saved_match", "r2"),
    ("saved_scan", "saved_match", "r3"),
    ("", "", "r4"),
]:
    p1 = CsvPath()
    p1._save_scan_dir = scan_dir
    p1._save_match_dir = match_dir
    p1._run_name = run_name
    for d in ["  $f.csv[1*] \n [ yes() ~c~ ] ", "$f.csv[*]", None, "$f.csv[2][no()]"]:
        try:
            r = p1._find_scan_and_match_parts(d)
            say(f"  dirs=({scan_dir!r},{match_dir!r}) run={run_name!r} {d!r} -> {r!r}")
        except Exception as e:  # pylint: disable=W0718
            say(f"  dirs=({scan_dir!r},{match_dir!r}) run={run_name!r} {d!r} -> EXC {type(e).__name__}: {e}")
        show_saved()
p2 = CsvPath()
p2._save_scan_dir = "no/such/dir"
p2._save_match_dir = "saved_match"
p2._run_name = "r5"
try:
    say("  ", p2._find_scan_and_match_parts("$f.csv[*][yes()]"))
except Exception as e:  # pylint: disable=W0718
    say(f"  missing dir -> EXC {type(e).__name__}: {e}")
show_saved()

# =====================================================================
say("=" * 70)
say("PART C: one AST, many layouts -> one tree, same scan and match parts")


def parts_text(path):
    p_ = CsvPath()
    p_.parse(path)
    return f"  scan={p_.scan!r}\n"


ASTS = [
    [
        None,
        "$food.csv[*]",
        None,
        "[",
        None,
        '#"Last Year Number"',
        None,
        "@n.onmatch.increase = count.mine.onmatch()",
        None,
        '#firstname.nocontrib == "Frog" -> @frog.latch.notnone = #0',
        None,
        "]",
        None,
    ],
    [
        "$food.csv[1-3+5]",
        None,
        "[",
        None,
        "tally.names.onmatch(#firstname, #lastname)",
        None,
        'or.x(#say=="ribbit", in.y(#2, "a|b|c"), not.z(empty.w(#1)))',
        None,
        "@a.b.c.d = add(-1, +2.50, 0, .5)",
        None,
        "regex.r(/s[a-z]+\\.?le/, #say)",
        None,
        "]",
    ],
]


def ws_layouts(tokens, n, seed):
    """like layouts() but the filler between the scan part and the match part
    and around the whole csvpath is whitespace only: comments are only legal
    inside the match part or as one outer comment"""
    rnd = random.Random(seed)
    inner = [" ", "  ", "\n", "\t", " \n  ", "\r\n", " ~a comment~ ", "~x~", "\n~ multi\n line: comment ~\n", " ~~ ", "~ a ] and a [ ~"]
    outer = ["", " ", "\n", "\t", "\r\n", " \n "]
    out = []
    for _ in range(n):
        s = ""
        in_match = False
        for t_ in tokens:
            if t_ is None:
                s += rnd.choice(inner if in_match else outer)
            else:
                s += t_
                if t_ == "[":
                    in_match = True
                elif t_ == "]":
                    in_match = False
        out.append(s)
    return out


for i, toks in enumerate(ASTS):
    canonical = "".join(" " if t_ is None else t_ for t_ in toks)
    say(f"AST {i}: {canonical!r}")
    try:
        base = tree_text(canonical) + parts_text(canonical)
        sys.stdout.write(base)
        same = 0
        for k, lay in enumerate(ws_layouts(toks, 30, 3000 + i)):
            if k % 3 == 0:
                lay = "~ an outer comment without settings ~" + lay
            elif k % 3 == 1:
                lay = lay + "~ a trailing comment ~"
            tt_ = tree_text(lay) + parts_text(lay)
            if tt_ == base:
                same += 1
            else:
                say("  DIFFERENT for layout", repr(lay))
                sys.stdout.write(tt_)
        say(f"  layouts identical to canonical: {same}/30")
    except Exception as e:  # pylint: disable=W0718
        say("  EXCEPTION:", describe_exception(e))

# =====================================================================
say("=" * 70)
say("PART D: runs")
RUNS = [
    "$food.csv[*][yes()]",
    "$food.csv[*] [yes()]",
    "\n\n  $food.csv[*]\n\n\t[yes()]\n\n",
    "$food.csv[*]\r\n[\r\nyes()\r\n]\r\n",
    "$food.csv[ * ][ yes() ]",
    "$food.csv[*][]",
    "$food.csv[*][ ]",
    "$food.csv[*][~just a comment~]",
    "$food.csv[*][ ~ a ] bracket [ in a comment ~ #say ]",
    '$food.csv[*][ #say == "]" ]',
    '$food.csv[*][ @b = "[" ]',
    '$food.csv[*][ @b = "][" #say == "ribbit" ]',
    "$food.csv[*][ regex(/[a-z]+ [a-z]+/, #say) ]",
    "$food.csv[1][ @l = line_number() ]",
    "$food.csv[1-3][ @l = line_number() ]",
    "$food.csv[2+4+6][ @c = count() ]",
    "$food.csv[3*][ @c = count() ]",
    "$food.csv[0][ @h = count_headers() ]",
    "$food.csv[*][yes()][no()]",
    "$food.csv[*][yes()]]",
    "$food.csv[*][[yes()]",
    "$food.csv[*]",
    "$food.csv[*] ",
    "$food.csv[*]x",
    "$food.csv[*] x [yes()]",
    "$food.csv[*][yes()] x",
    "$food.csv[*][yes()",
    "$food.csv[*",
    "$food.csv",
    "$",
    "",
    " ",
    "food.csv[*][yes()]",
    "~ only a comment ~",
    "~ c ~ $food.csv[*][ #say ]",
    "~ a ] in the comment ~ $food.csv[*][ #say ]",
    "~ name: named  description: has [brackets] inside ~ $food.csv[*][ #say ]",
    "$food.csv[*][ #say ] ~ id: trailing ~",
    "~ one ~ $food.csv[*][ #say ] ~ two ~",
    "~ validation-mode: no-print, no-raise ~ $food.csv[*][ @d = divide(#3, 0) ]",
    "$nosuchfile.csv[*][yes()]",
    "$[*][yes()]",
    "$small.csv[*][ @b = #b  @c = #c ]",
    "$small.csv[1*]   [ #b ]",
    "$small.csv[*][ #a == 0 ]",
    "$empty.csv[*][ @x = count() ]",
    "$headers_only.csv[*][ @x = count() ]",
]
for r__ in RUNS:
    run(r__, show_tree=True)
say("=" * 70)
say("PART D1: non-string csvpaths")
for bad in (None, 0, 5, b"$food.csv[*][yes()]", ["$food.csv[*][yes()]"]):
    try:
        CsvPath().parse(bad)
        say(f"  parse({bad!r}): ok")
    except Exception as e:  # pylint: disable=W0718
        say(f"  parse({bad!r}): EXC {type(e).__name__}: {e}")
say("=" * 70)
say("PART D2: repeated and alternative run methods; disposable matchers")
for meth in ("collect", "next", "fast_forward", "collect"):
    run(
        '~ desc: layout \n test ~\n $food.csv[1*]\n\n[ #lastname == "Bat" -> @bats.onmatch = count() ~ c ] ~ @s = #say ]\n',
        method=meth,
    )
p3 = CsvPath()
for s_ in ["$food.csv[*][yes()]", "$food.csv[2] \n [ @a = 1 ~c~ @b = 2 ]", "$food.csv[*]", "$food.csv[*][nosuch()]"]:
    try:
        m_ = p3.parse(s_, disposably=True)
        say(f"  disposably {s_!r}: {type(m_).__name__} expressions={len(m_.expressions)} scan={p3.scan!r} match={p3.match!r} scanner={p3.scanner}")
    except Exception as e:  # pylint: disable=W0718
        say(f"  disposably {s_!r}: EXC {describe_exception(e)!r} scan={p3.scan!r} match={p3.match!r}")

# =====================================================================
say("=" * 70)
say("PART E: CsvPaths group run and archive")


def show_archive(root="archive"):
    map_run_dirs(root)
    listing = []
    for dirpath, dirnames, filenames in os.walk(root):
        dirnames.sort()
        for fn in sorted(filenames):
            listing.append(os.path.join(dirpath, fn))
    # two runs in the same second get a .N suffix; normalise then sort
    shown = sorted((norm_text(p_), p_) for p_ in listing)
    for np_, p_ in shown:
        say("FILE", np_)
        with open(p_, "r", encoding="utf-8") as f:
            content = f.read()
        if p_.endswith(".json"):
            try:
                j = norm_json(json.loads(content))
                content = json.dumps(j, indent=1, sort_keys=True)
            except Exception as e:  # pylint: disable=W0718
                content = f"<unparsable json {type(e).__name__}> " + content
        for ln in norm_text(content).split("\n"):
            say("   |" + HEX_RE.sub("<sha>", ln) if "fingerprint" in ln or "inputs/named_files" in ln else "   |" + ln)


def group(name, paths, runs):
    say("-" * 70)
    say(f"GROUP {name}: {paths!r}")
    out = io.StringIO()
    cp = None
    try:
        with contextlib.redirect_stdout(out):
            cp = CsvPaths()
            cp.file_manager.add_named_file(name="food", path="food.csv")
            cp.file_manager.add_named_file(name="small", path="small.csv")
            cp.paths_manager.add_named_paths(name=name, paths=paths)
    except Exception as e:  # pylint: disable=W0718
        say("  SETUP EXCEPTION:", describe_exception(e))
    for method, filename in runs:
        rs = None
        try:
            with contextlib.redirect_stdout(out):
                getattr(cp, method)(filename=filename, pathsname=name)
        except Exception as e:  # pylint: disable=W0718
            say(f"  {method}({filename}) EXCEPTION:", describe_exception(e))
        try:
            with contextlib.redirect_stdout(out):
                rs = cp.results_manager.get_named_results(name)
        except Exception as e:  # pylint: disable=W0718
            say(f"  get_named_results after {method}({filename}) EXCEPTION:", describe_exception(e))
        if rs is None:
            say(f"  results after {method}({filename}): None")
            continue
        say(f"  results after {method}({filename}): {len(rs)}")
        for r in rs:
            try:
                say(
                    "   result identity=%s valid=%s lines=%s vars=%s errors=%s printouts=%s scan=%r match=%r"
                    % (
                        r.csvpath.identity,
                        r.is_valid,
                        len(r.lines) if r.lines is not None else None,
                        json.dumps(r.variables, sort_keys=True, default=str),
                        [norm_text(str(e.error)) for e in r.errors] if r.errors else r.errors,
                        r.get_printouts() if hasattr(r, "get_printouts") else None,
                        HEX_RE.sub("<sha>", str(r.csvpath.scan)),
                        r.csvpath.match,
                    )
                )
            except Exception as e:  # pylint: disable=W0718
                say("   result EXCEPTION:", describe_exception(e))
    say("  printouts:")
    for ln in out.getvalue().split("\n"):
        say("   |" + HEX_RE.sub("<sha>", norm_text(ln)))


group(
    "layout",
    [
        '~ id: first ~ $[*][ #lastname == "Bat" print("first: $.csvpath.count_matches")]',
        '\n\n~ id: second\n validation-mode: no-raise, print ~\n\n$[1*]\n\n   [\n  @s = #say\n ~ inner ] [ comment ~ @n = count()\n ]\n\n',
        '$[*] \t [ @c.onmatch = count() #say ] ~ id: third  trailing: comment ~',
        '~ id: fourth ~ $[1][ @l = line_number() ]',
        '~ id: fifth ~ $[*][ @b = "][" #say == "ribbit" ]',
    ],
    [("collect_paths", "food"), ("fast_forward_paths", "small"), ("collect_paths", "food")],
)
group("bad1", ["~ id: nomatch ~ $[*]"], [("collect_paths", "food")])
group("bad2", ["~ id: trailing ~ $[*][yes()] x"], [("collect_paths", "food")])
group("bad3", ["~ id: between ~ $[*] x [yes()]"], [("fast_forward_paths", "food")])
group("bad4", ["~ id: noscan ~ $"], [("collect_paths", "small")])
group("mixed", ["~ id: good ~ $[*][ #a ]", "~ id: unclosed ~ $[*][ #a "], [("collect_paths", "small")])
show_archive("archive")
say("DONE")
