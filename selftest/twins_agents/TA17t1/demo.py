"""differential demonstration for refactoring t1: LarkTransformer callbacks (lark_transformer.py).

run it in an empty scratch directory (it writes config/, f.csv, q.csv,
archive/, logs/ ... into the cwd):

    mkdir /tmp/demo && cd /tmp/demo
    PYTHONPATH=<csvpath checkout> /venv/bin/python demo.py > out.txt

the transcript on stdout is deterministic: run directory timestamps, uuids,
object addresses and the cwd are normalised, and the script re-executes itself
with PYTHONHASHSEED=0 so that set orderings cannot differ between two runs.
"""
import os
import re
import sys
import shutil
import traceback

CONFIG_INI = """[csvpath_files]
extensions = txt, csvpath, csvpaths

[csv_files]
extensions = txt, csv, tsv, dat, tab, psv, ssv

[errors]
csvpath = raise, collect, stop, fail, print
csvpaths = raise, collect

[logging]
csvpath = info
csvpaths = info
log_file = logs/csvpath.log
log_files_to_keep = 100
log_file_size = 52428800

[config]
path = config/config.ini

[cache]
path = cache

[listeners]
[marquez]
base_url = http://localhost:5000

[functions]
imports = config/functions.imports

[results]
archive = archive
transfers = transfers

[inputs]
files = inputs/named_files
csvpaths = inputs/named_paths
on_unmatched_file_fingerprints = halt
"""

F_CSV = (
    "a,b,c\n"
    "1,x,10\n"
    "\n"
    "2,,20\n"
    "3,z\n"
    "0,y,0,extra\n"
    ",,\n"
    "-4,w,-1.5\n"
    "5,x,.5\n"
)

Q_CSV = (
    "first name,last.name,n-1\n"
    "Ada,Lovelace,1\n"
    "Alan,Turing,2\n"
    "\n"
    "Grace,,3\n"
)


def setup_env():
    """fresh, self-contained working directory content. we are run with cwd set
    to a scratch dir."""
    for d in ("archive", "cache", "logs", "inputs", "transfers", "config"):
        if os.path.exists(d):
            shutil.rmtree(d)
    os.makedirs("config")
    with open("config/config.ini", "w", encoding="utf-8") as f:
        f.write(CONFIG_INI)
    with open("config/functions.imports", "w", encoding="utf-8") as f:
        f.write("")
    with open("f.csv", "w", encoding="utf-8") as f:
        f.write(F_CSV)
    with open("q.csv", "w", encoding="utf-8") as f:
        f.write(Q_CSV)
    with open("empty.csv", "w", encoding="utf-8") as f:
        f.write("")


_CWD = os.getcwd()


def norm(s) -> str:
    s = f"{s}"
    s = s.replace(_CWD, "<CWD>")
    s = re.sub(r"0x[0-9a-fA-F]+", "<ADDR>", s)
    s = re.sub(r"\d{4}-\d{2}-\d{2}[ T_]\d{2}[-:]\d{2}[-:]\d{2}([._]\d+)?", "<TS>", s)
    s = re.sub(
        r"[A-Z][a-z]{2} [A-Z][a-z]{2} [ \d]\d \d{2}:\d{2}:\d{2} \d{4}", "<CTIME>", s
    )
    s = re.sub(
        r"[0-9a-f]{8}-[0-9a-f]{4}-[0-9a-f]{4}-[0-9a-f]{4}-[0-9a-f]{12}", "<UUID>", s
    )
    return stable(s)


def stable(msg: str) -> str:
    """lark lists the terminals it expected in set order, which changes from
    process to process. sort them."""
    marker = "Expected one of:"
    if marker not in msg:
        return msg
    head, tail = msg.split(marker, 1)
    items = sorted(re.findall(r"\* (\S+)", tail))
    others = [
        ln for ln in tail.split("\n") if ln.strip() != "" and not ln.strip().startswith("*")
    ]
    return head + marker + " " + ", ".join(items) + (" | " + " | ".join(others) if others else "")


def out(*args):
    print(*[norm(a) for a in args])


def show_exc(label, e):
    inner = getattr(e, "orig_exc", None)
    msg = norm(e).replace("\n", "\\n")
    if inner is not None:
        out(
            f"{label}: EXC {type(e).__name__} <- {type(inner).__name__}: "
            + norm(inner).replace("\n", "\\n")
        )
    else:
        out(f"{label}: EXC {type(e).__name__}: {msg}")


def dump(node, indent=0, parent=None, lines=None):
    """renders one match component and everything under it: kind, name,
    qualifiers, operator, literal value and type, argument order, and
    whether each child's parent pointer is the node that holds it."""
    top = lines is None
    if top:
        lines = []
    pad = "  " * indent
    if node is None:
        lines.append(f"{pad}None")
        return lines
    kind = type(node).__name__
    bits = [kind]
    if getattr(node, "name", None) is not None:
        bits.append(f"name={node.name!r}")
    qn = getattr(node, "qualified_name", None)
    if qn is not None:
        bits.append(f"qname={qn!r}")
    quals = getattr(node, "qualifiers", None)
    if quals:
        bits.append(f"quals={list(quals)!r}")
    if getattr(node, "qualifier", None) is not None:
        bits.append(f"qualifier={node.qualifier!r}")
    if kind == "Equality":
        bits.append(f"op={str(node.op)!r}:{type(node.op).__name__}")
    if kind == "Term":
        bits.append(f"value={node.value!r}:{type(node.value).__name__}")
    if parent is not None:
        bits.append("parent=holder" if node.parent is parent else "parent=OTHER")
    else:
        bits.append("parent=None" if node.parent is None else "parent=SET")
    lines.append(pad + " ".join(bits))
    for c in node.children:
        dump(c, indent + 1, node, lines)
    return lines


def tree_of(path_string):
    """the component tree of the match part of a whole csvpath string, made the
    way a match component asking for a parsed csvpath would make it."""
    from csvpath import CsvPath

    p = CsvPath()
    m = p.parse(path_string, disposably=True)
    lines = []
    for e, _ in m.expressions:
        lines.extend(dump(e))
    return lines, p


def run_path(label, path_string, *, method="collect"):
    from csvpath import CsvPath

    p = CsvPath()
    try:
        p.parse(path_string)
        if method == "collect":
            got = p.collect()
        elif method == "next":
            got = [ln for ln in p.next()]
        else:
            p.fast_forward()
            got = None
        out(f"{label}: lines={got!r}")
    except Exception as e:  # pylint: disable=W0718
        show_exc(f"{label}: run", e)
    out(f"{label}: scan={p.scan!r} match={p.match!r}")
    out(f"{label}: variables={dict(p.variables)!r}")
    errs = p.errors
    out(
        f"{label}: is_valid={p.is_valid} stopped={p.stopped} "
        f"errors={'None' if errs is None else len(errs)}"
    )
    for er in errs or []:
        out(f"{label}:   error: {type(er.error).__name__}: {er.message}")
    md = {k: v for k, v in p.metadata.items()}
    out(f"{label}: metadata={md!r}")
    return p


def show_tree(label, path_string):
    try:
        lines, _ = tree_of(path_string)
        for ln in lines:
            out(f"{label}:   {ln}")
        return lines
    except Exception as e:  # pylint: disable=W0718
        show_exc(f"{label}: parse", e)
        return None


def layouts_of(match_parts):
    """the same match components in several layouts. match_parts is a list of
    component strings. comments only ever go between components."""
    yield "tight", "[" + " ".join(match_parts) + "]"
    yield "spaced", "[   " + "     ".join(match_parts) + "   ]"
    yield "newlines", "[\n" + "\n\n\t".join(match_parts) + "\n]"
    yield "comments", "[ ~ lead ~ " + " ~c~ ".join(match_parts) + " ~ tail\n more ~ ]"
    yield "crlf", "[\r\n" + "\r\n".join(match_parts) + "\r\n]"


def listing(root):
    if not os.path.exists(root):
        out(f"listing {root}: (absent)")
        return
    for dirpath, dirnames, filenames in os.walk(root):
        dirnames.sort()
        for fn in sorted(filenames):
            full = os.path.join(dirpath, fn)
            out(f"listing: {norm(full)} size={os.path.getsize(full)}")


FUNCTION_NAMES = None


def function_names():
    """every function name the factory's big if/elif knows, read from the
    factory source, in source order."""
    global FUNCTION_NAMES
    if FUNCTION_NAMES is None:
        import csvpath.matching.functions.function_factory as ff

        with open(ff.__file__, "r", encoding="utf-8") as f:
            src = f.read()
        start = src.find("def get_function(")
        src = src[start:]
        names = []
        for m in re.finditer(r"name (?:==|in) (\"[a-z_0-9]+\"|\[[^\]]*\])", src):
            for n in re.findall(r"\"([a-z_0-9]+)\"", m.group(1)):
                if n not in names:
                    names.append(n)
        FUNCTION_NAMES = names
    return FUNCTION_NAMES

# name, file, match components (each one a whole match component)
CATALOGUE = [
    ("yes", "f.csv", ["yes()"]),
    ("header-exists", "f.csv", ["#b"]),
    ("header-eq-string", "f.csv", ['#b == "x"']),
    ("header-eq-int", "f.csv", ["#a == 3"]),
    ("header-eq-zero", "f.csv", ["#c == 0"]),
    ("header-eq-neg-decimal", "f.csv", ["#c == -1.5"]),
    ("header-eq-dot5", "f.csv", ["#c == .5"]),
    ("header-eq-plus", "f.csv", ["#a == +5"]),
    ("index-header", "f.csv", ['#1 == "z"']),
    ("two-components", "f.csv", ["#a", '#b == "x"']),
    ("assign-int", "f.csv", ["@n = 0", "yes()"]),
    ("assign-header", "f.csv", ["@last = #a"]),
    ("assign-func", "f.csv", ["@cnt = count()", "@cl = count_lines()"]),
    ("assign-qualified", "f.csv", ["@b.onchange = #b", "@first.latch = #a"]),
    ("var-notnone", "f.csv", ["@v.notnone = #b"]),
    ("when-func", "f.csv", ['#b == "x" -> @hit = count_lines()']),
    ("when-print", "f.csv", ['#a == 3 -> print("three at $.csvpath.line_number")']),
    ("when-left-func", "f.csv", ['not(#b) -> @nob = line_number()']),
    ("when-header", "f.csv", ["#b -> @hasb = #b"]),
    ("when-var", "f.csv", ["@seen = #a", "@seen -> @again = @seen"]),
    ("nested-funcs", "f.csv", ['or(#b == "x", and(#a == 3, not(#c)))']),
    ("nested-4", "f.csv", ['not(not(not(in(#b, "x|y"))))']),
    ("func-qualified", "f.csv", ["count.mine.onmatch()", '#b == "x"']),
    ("func-args-mixed", "f.csv", ['@s = concat(#a, "-", @n, 7, -1.5, lower(#b))', "@n = 1"]),
    ("regex", "f.csv", ["regex(#b, /^[x-z]$/)"]),
    ("regex-escaped", "f.csv", [r"regex(#c, /^\d+$/)"]),
    ("regex-slash", "f.csv", [r"regex(#b, /x\/?/)"]),
    ("equality-as-arg", "f.csv", ['@t = any(#a == 2, #b == "z")']),
    ("equality-both-funcs", "f.csv", ["length(#b) == count(#a)"]),
    ("header-eq-header", "f.csv", ["#a == #c"]),
    ("var-eq-term", "f.csv", ["@x = #a", "@x == 2"]),
    ("string-with-specials", "f.csv", ['@s = "a ~ [b] -> c == d, #e @f $g /h/ (i)"']),
    ("empty-string", "f.csv", ['@e = ""', '#b == ""']),
    ("string-spaces", "f.csv", ['@sp = "  padded  "']),
    ("quoted-header", "q.csv", ['#"first name" == "Ada"']),
    ("quoted-header-assign", "q.csv", ['@fn = #"first name"', '@ln = #"last.name"']),
    ("dashed-header", "q.csv", ["@n = #n-1"]),
    ("dotted-header-as-qualifier", "q.csv", ["@ln = #last.name"]),
    ("header-asbool", "f.csv", ["#a.asbool"]),
    ("header-nocontrib", "f.csv", ["#b.nocontrib", "#a == 3"]),
    ("reference-assign", "f.csv", ["@w = $paths.variables.total"]),
    ("reference-right-eq", "f.csv", ["#a == $paths.variables.total.tracked"]),
    ("reference-when", "f.csv", ["$paths.headers.a -> @x = 1"]),
    ("reference-arg", "f.csv", ["@x = add($paths.variables.total, 1)"]),
    ("reference-local-bad", "f.csv", ["@v = #a", "@w = $.variables.v"]),
    ("stack-funcs", "f.csv", ["push(\"bs\", #b)", "@sz = size(\"bs\")"]),
    ("tracking-var", "f.csv", ["@seen.b = #b", "tally(#b)"]),
    ("skip-stop", "f.csv", ["#a == 3 -> stop()"]),
    ("fail", "f.csv", ["#a == 0 -> fail()"]),
    ("advance", "f.csv", ["#a == 1 -> advance(2)", "@ln = line_number()"]),
    ("last", "f.csv", ["last() -> @total = count_lines()"]),
    ("empty-file", "empty.csv", ["yes()"]),
    ("comment-only", "f.csv", ["~ nothing here ~"]),
]

SCANS = ["[*]", "[1-3]", "[2*]", "[1+3+5]", "[0]"]


def section_catalogue(scans=("[*]",), methods=("collect",)):
    out("=" * 20, "catalogue: trees and runs in every layout")
    for name, fname, parts in CATALOGUE:
        out("-" * 10, name, parts)
        base_tree = None
        base_run = None
        for lname, match in layouts_of(parts):
            path = f"${fname}[*]{match}"
            label = f"{name}/{lname}"
            lines = show_tree(label, path) if base_tree is None else None
            if base_tree is None:
                base_tree = lines
            else:
                try:
                    lines, _ = tree_of(path)
                    same = lines == base_tree
                    out(f"{label}: tree same as first layout: {same}")
                    if not same:
                        for ln in lines:
                            out(f"{label}:   {ln}")
                except Exception as e:  # pylint: disable=W0718
                    show_exc(f"{label}: parse", e)
            for scan in scans:
                for method in methods:
                    run_path(f"{label}/{scan}/{method}", f"${fname}{scan}{match}", method=method)


def section_outer_comments():
    out("=" * 20, "outer comments without mode settings")
    bodies = [
        ('$f.csv[*][#b == "x" -> @hit = count_lines()]'),
        ('$q.csv[1*][@fn = #"first name" #n-1 == 2]'),
    ]
    wraps = [
        ("none", "{}"),
        ("before", "~ just a note ~ {}"),
        ("before-nl", "~ just\n a note ~\n\n{}"),
        ("after", "{} ~ trailing note ~"),
        ("both", "~ id: named description: has a description ~\n{}\n~ the end ~"),
        ("padded", "   \n\t{}  \n "),
    ]
    for b in bodies:
        for wname, w in wraps:
            path = w.format(b)
            label = f"outer/{wname}"
            show_tree(label, path)
            run_path(label, path)


def section_all_functions():
    out("=" * 20, "every factory function name with 0..3 arguments: tree or error")
    arglists = ["", "#a", '#a, "x"', '#a, "x", 3', "@v.onmatch, -1.5, /z+/, #1, count()"]
    for fn in function_names():
        for al in arglists:
            for layout in ("{fn}({al})", "{fn} (  {al_sp}  )"):
                al_sp = al.replace(", ", "\n ,   ")
                comp = layout.format(fn=fn, al=al, al_sp=al_sp)
                show_tree(f"fn/{comp!r}", f"$f.csv[*][{comp}]")


def section_bad_paths():
    out("=" * 20, "paths that must not parse, or that parse oddly")
    bad = [
        None,
        17,
        "",
        "   ",
        "$f.csv",
        "$f.csv[*]",
        "$f.csv[*]   ",
        "$f.csv[*] yes()",
        "$f.csv[*][yes()",
        "$f.csv[*][yes()] trailing",
        "$f.csv[*][]",
        "$f.csv[*][ ]",
        "$f.csv[*][nosuchfunction()]",
        "$f.csv[*][yes(]",
        "$f.csv[*][#a ==]",
        "$f.csv[*][== 3]",
        "$f.csv[*][#a == ~c~ 3]",
        "$f.csv[*][@x = ]",
        "$f.csv[*][#a -> ]",
        "$f.csv[*][#a == 3 -> #b]",
        "$f.csv[*][yes() no()]",
        "$f.csv[*][yes(),no()]",
        "$f.csv[*][#a == 1e3]",
        "$f.csv[*][#a == 1.2.3]",
        "$f.csv[*][#a == --1]",
        '$f.csv[*][#"unterminated == 3]',
        '$f.csv[*][@s = "unterminated]',
        "$f.csv[*][~ unterminated comment]",
        "$f.csv[*][regex(#a, /unterminated)]",
        "$f.csv[*][#]",
        "$f.csv[*][@]",
        "$f.csv[*][@. = 1]",
        "$f.csv[*][@.x = 1]",
        "$f.csv[*][@x. = 1]",
        "$f.csv[*][@x..y = 1]",
        "$f.csv[*][#a.]",
        "f.csv[*][yes()]",
        "$[*][yes()]",
        "$nosuchfile.csv[*][yes()]",
        "$f.csv[*][yes()][no()]",
        "$f.csv[*]][yes()]",
        "$f.csv[[*]][yes()]",
        "~ only a comment ~",
        "$f.csv[*][@a[0] = 1]",
        '$f.csv[*][@s = "]"]',
        '$f.csv[*][print("a ] b")]',
    ]
    for i, b in enumerate(bad):
        label = f"bad/{i}/{b!r}"
        show_tree(label, b)
        run_path(label, b)


def section_repeats():
    out("=" * 20, "repeated parses and runs")
    from csvpath import CsvPath

    path = '$f.csv[*][ @c = count() ~x~ #b == "x" ]'
    for i in range(3):
        run_path(f"repeat/fresh/{i}", path)
    p = CsvPath()
    for i in range(2):
        try:
            p.parse(path)
            out(f"repeat/same/{i}: lines={p.collect()!r} vars={dict(p.variables)!r}")
        except Exception as e:  # pylint: disable=W0718
            show_exc(f"repeat/same/{i}", e)
    p = CsvPath()
    m1 = p.parse(path, disposably=True)
    m2 = p.parse(path, disposably=True)
    out("repeat/disposable: distinct matchers:", m1 is not m2, "scan:", p.scan, "scanner:", p.scanner, "match:", p.match)
    out("repeat/disposable: same trees:", [dump(e) for e, _ in m1.expressions] == [dump(e) for e, _ in m2.expressions])


def section_transformer_direct():
    out("=" * 20, "LarkTransformer callbacks called directly")
    from lark.lexer import Token
    from csvpath.matching.lark_transformer import LarkTransformer
    from csvpath.matching.productions import Term, Header, Variable, Equality

    t = LarkTransformer(None)

    def tok(ttype, value):
        k = Token(ttype, f"{value}")
        k.value = value
        return k

    out("--- SIGNED_NUMBER")
    for v in [
        "0", "-0", "+0", "7", "-7", "+7", "007", "1.5", "-1.5", "+1.5", ".5", "-.5",
        "5.", "0.0", "-0.0", "1e3", "1.0e3", "1E-2", "abc", "", ".", "1.2.3", " 4 ", "4_0",
        0, -3, 2.5, 0.0, True, False, None, [1], "٣",
    ]:
        try:
            term = t.SIGNED_NUMBER(tok("SIGNED_NUMBER", v))
            out(f"SIGNED_NUMBER({v!r}) -> {type(term).__name__} value={term.value!r}:{type(term.value).__name__} to_value={term.to_value()!r}")
        except Exception as e:  # pylint: disable=W0718
            show_exc(f"SIGNED_NUMBER({v!r})", e)

    out("--- STRING / REGEX / TERM / HEADER / VARIABLE / REFERENCE / COMMENT")
    for name, v in [
        ("STRING", '"abc"'), ("STRING", '""'), ("STRING", '" "'), ("STRING", '"a""'),
        ("REGEX", "/a.b/"), ("REGEX", "//"), ("REGEX", r"/\//"),
        ("TERM", '"abc"'), ("TERM", "@abc@"), ("TERM", "#abc#"), ("TERM", "x"), ("TERM", ""),
        ("HEADER", "#a"), ("HEADER", '#"a b"'), ("HEADER", "#a.asbool.x"), ("HEADER", "#0"), ("HEADER", "#"),
        ("VARIABLE", "@a"), ("VARIABLE", "@a.b.onmatch"), ("VARIABLE", "@"), ("VARIABLE", "@."),
        ("COMMENT", "~ c ~"),
    ]:
        try:
            r = getattr(t, name)(Token(name, v))
            out(f"{name}({v!r}) ->", dump(r))
        except Exception as e:  # pylint: disable=W0718
            show_exc(f"{name}({v!r})", e)
    try:
        out("TERM(non-token) ->", t.TERM("abc"))
    except Exception as e:  # pylint: disable=W0718
        show_exc("TERM(non-token)", e)

    out("--- args")
    LP, RP, C = Token("LP", "("), Token("RP", ")"), Token("COMMA", ",")

    def mk(n):
        return [Term(None, value=i) for i in range(n)]

    cases = {
        "()": lambda: [LP, RP],
        "(a)": lambda: [LP] + mk(1) + [RP],
        "(a,b)": lambda: [LP, Term(None, value="a"), C, Header(None, name="b"), RP],
        "(a,b,c)": lambda: [LP, Term(None, value="a"), C, Variable(None, name="b.onmatch"), C, Term(None, value=3), RP],
        "empty": lambda: [],
        "one-matchable-only": lambda: mk(1),
        "two-matchables-only": lambda: mk(2),
        "three-matchables-only": lambda: mk(3),
        "three-tokens": lambda: [LP, C, RP],
        "four: LP a RP RP": lambda: [LP] + mk(1) + [RP, RP],
        "four: LP None a RP": lambda: [LP, None] + mk(1) + [RP],
        "five: one matchable": lambda: [LP, None, C] + mk(1) + [RP],
        "strings-only": lambda: ["(", "a", ",", "b", ")"],
        "nested-equality": lambda: [LP, t.equality(Header(None, name="a"), Token("EQUALS", "=="), Term(None, value=1)), C, Term(None, value=2), RP],
    }
    for cname, make in cases.items():
        try:
            a = make()
            r = t.args(*a)
            out(f"args[{cname}] -> is-original-arg={any(r is x for x in a)}")
            if r is None or hasattr(r, "children"):
                for ln in dump(r):
                    out(f"args[{cname}]:   {ln}")
                if r is not None and r.parent is not None:
                    out(f"args[{cname}]:   result.parent kind={type(r.parent).__name__} op={r.parent.op!r} holds-result={r.parent.children == [r]}")
            else:
                out(f"args[{cname}]:   {r!r}")
        except Exception as e:  # pylint: disable=W0718
            show_exc(f"args[{cname}]", e)

    out("--- expression / assignment / equality / match")
    W = Token("WHEN", "->")

    def trial(label, fn):
        try:
            r = fn()
            if isinstance(r, list):
                out(f"{label} -> list of {len(r)}")
                for x in r:
                    for ln in dump(x):
                        out(f"{label}:   {ln}")
            else:
                for ln in dump(r):
                    out(f"{label}:   {ln}")
        except Exception as e:  # pylint: disable=W0718
            show_exc(label, e)

    trial("expression(None)", lambda: t.expression(None))
    trial("expression(None,None,None)", lambda: t.expression(None, None, None))
    trial("expression(header)", lambda: t.expression(Header(None, name="a")))
    trial("expression(header, WHEN, var)", lambda: t.expression(Header(None, name="a"), W, Variable(None, name="v")))
    trial("expression(header, WHEN, None)", lambda: t.expression(Header(None, name="a"), W, None))
    trial("expression(None, WHEN, var)", lambda: t.expression(None, W, Variable(None, name="v")))
    trial("expression(header, None, var)", lambda: t.expression(Header(None, name="a"), None, Variable(None, name="v")))
    trial("expression(None, None, var)", lambda: t.expression(None, None, Variable(None, name="v")))
    trial("assignment(var, ASSIGN, term)", lambda: t.assignment(Variable(None, name="v"), Token("ASSIGN", "="), Term(None, value=0)))
    trial("assignment(var, 'x', None)", lambda: t.assignment(Variable(None, name="v"), "x", None))
    trial("assignment(None, '=', term)", lambda: t.assignment(None, "=", Term(None, value=0)))
    trial("equality(h, EQUALS, term)", lambda: t.equality(Header(None, name="a"), Token("EQUALS", "=="), Term(None, value="")))
    trial("equality(h, 'ignored', h)", lambda: t.equality(Header(None, name="a"), "ignored", Header(None, name="b")))
    trial("equality(None, '==', h)", lambda: t.equality(None, "==", Header(None, name="b")))
    trial("equality(h, '==', None)", lambda: t.equality(Header(None, name="a"), "==", None))
    trial("match()", lambda: t.match())
    trial("match(None, None)", lambda: t.match(None, None))
    trial("match(e, None, e)", lambda: t.match(t.expression(Header(None, name="a")), None, t.expression(Header(None, name="b"))))
    for passthru in ("action", "left", "term", "a"):
        sentinel = object()
        out(f"{passthru} passes its argument through:", getattr(t, passthru)(sentinel) is sentinel)

    out("--- the set of callbacks lark can see")
    names = sorted(n for n in dir(LarkTransformer) if not n.startswith("__") and n in LarkTransformer.__dict__ and not n.startswith("_"))
    out("public callbacks:", names)


def section_number_literals():
    out("=" * 20, "number literals through the whole parser")
    for lit in ["0", "-0", "+0", "00", "7", "-7", "+7", "1.5", "-1.5", "+.5", ".5", "5.", "0.0", "1.50", "10", "1e1", "1.0e1", "-1E-1"]:
        for comp in (f"#c == {lit}", f"@n = {lit}", f"@n = add({lit}, {lit})", f"@n = add( {lit} ,{lit})"):
            label = f"num/{comp!r}"
            show_tree(label, f"$f.csv[*][{comp}]")
        run_path(f"num/run/{lit}", f"$f.csv[*][#c == {lit} @n = {lit}]")


def main():
    setup_env()
    section_transformer_direct()
    section_number_literals()
    section_catalogue(scans=("[*]", "[1-3]"), methods=("collect",))
    section_outer_comments()
    section_all_functions()
    section_bad_paths()
    section_repeats()
    out("done")


if __name__ == "__main__":
    if os.environ.get("PYTHONHASHSEED") != "0":
        # set and dict-of-set orderings must not vary between the two runs
        env = dict(os.environ)
        env["PYTHONHASHSEED"] = "0"
        os.execve(sys.executable, [sys.executable] + sys.argv, env)
    main()
