#!/usr/bin/env python
"""Differential demonstration for property C15 (comment mode settings take
effect; matched and unmatched partition the file).

Usage:   PYTHONPATH=<tree under test> /venv/bin/python demo.py > transcript.txt

The script is self-contained: it creates a fresh temporary working directory
(with an offline config/config.ini), changes into it, writes its own data
files, runs everything and prints a deterministic transcript of everything
observable on standard out. Volatile values (timestamps, uuids, timings,
run-directory names, fingerprints of files holding timestamps, tracebacks)
are normalised. Run it against unmodified HEAD and against the refactored
tree: the two transcripts must be byte-identical.
"""
import contextlib
import io
import itertools
import json
import os
import random
import re
import shutil
import sys
import tempfile
import traceback

REAL_OUT = sys.stdout

CONFIG = """[csvpath_files]
extensions = txt, csvpath, csvpaths

[csv_files]
extensions = txt, csv, tsv, dat, tab, psv, ssv

[errors]
csvpath = collect, fail, print
csvpaths = collect

[logging]
csvpath = info
csvpaths = info
log_file = logs/csvpath.log
log_files_to_keep = 100
log_file_size = 52428800

[config]
path = config/config.ini

[cache]
path = cache

[listeners]
[marquez]
base_url = http://localhost:5000

[functions]
imports = config/functions.imports

[results]
archive = archive
transfers = transfers

[inputs]
files = inputs/named_files
csvpaths = inputs/named_paths
on_unmatched_file_fingerprints = halt
"""

FILES = {
    "plain.csv": "a,b,c\n1,2,3\n4,5,6\n7,8,9\n1,0,0\n3,3,3\n",
    # blank lines in the middle and a blank last line
    "blanks.csv": "a,b,c\n1,2,3\n\n4,5,6\n\n\n7,8,9\n\n",
    # ragged rows, empty values, zeros, whitespace
    "ragged.csv": "a,b,c\n1\n1,2\n1,2,3,4,5\n,,\n0,0,0\n 1 , ,x\n3,,\n",
    "empty.csv": "",
    "header_only.csv": "a,b,c\n",
    # the characters the comment grammar cares about, as data
    "chars.csv": 'a,b,c\n"x]y","~t~","$f[1]"\n"#h","a:b","]"\n1,"[",3\n',
    "pipes.csv": "a|b|c\n1|2|3\n'4|4'|5|6\n\n7||9\n",
}


def out(*args):
    print(*args, file=REAL_OUT)


_VOLATILE_KEYS = {
    "time",
    "uuid",
    "time_completed",
    "run_time",
    "run_started_at",
    "lines_time",
    "last_line_time",
    "named_paths_uuid",
    "at",
    "trace",
    "named_file_last_change",
}
_RUN_DIR = re.compile(r"\d{4}-\d{2}-\d{2}_\d{2}-\d{2}-\d{2}(_\d+)?")
_TRACE_LINE = re.compile(r'File "[^"]*", line \d+')
_DATETIME = re.compile(r"\d{4}-\d{2}-\d{2}[ T]\d{2}:\d{2}:\d{2}(\.\d+)?(\+00:00)?")
_OBJ_ADDR = re.compile(r" at 0x[0-9a-f]+")


def norm_text(s: str) -> str:
    s = _RUN_DIR.sub("<RUN>", s)
    s = _TRACE_LINE.sub('File "<F>", line <N>', s)
    s = _DATETIME.sub("<DATETIME>", s)
    s = _OBJ_ADDR.sub(" at <ADDR>", s)
    return s


def norm_json(o, key=None):
    if isinstance(o, dict):
        r = {}
        for k, v in o.items():
            if k in _VOLATILE_KEYS:
                r[k] = "<V>" if v is not None else None
            elif k == "file_fingerprints" and isinstance(v, dict):
                # files that hold timestamps have volatile fingerprints
                r[k] = {
                    kk: ("<V>" if kk in ("meta.json", "manifest.json", "errors.json") else vv)
                    for kk, vv in v.items()
                }
            else:
                r[k] = norm_json(v, k)
        return r
    if isinstance(o, list):
        return [norm_json(_, key) for _ in o]
    if isinstance(o, str):
        return norm_text(o)
    return o


def exc_str(e: BaseException) -> str:
    return norm_text(f"{type(e).__name__}: {e}")


def dump_tree(root: str) -> None:
    """prints the listing and the normalised contents of every file below root"""
    if not os.path.exists(root):
        out(f"  [tree {root}] does not exist")
        return
    paths = []
    for base, dirs, files in os.walk(root):
        dirs.sort()
        for f in sorted(files):
            paths.append(os.path.join(base, f))
    # run dirs sort by time == by name, so their order is stable
    paths.sort()
    runs = {}
    for p in paths:
        m = _RUN_DIR.search(p)
        if m and m.group(0) not in runs:
            runs[m.group(0)] = f"<RUN{len(runs)}>"

    def rn(s):
        for k, v in runs.items():
            s = s.replace(k, v)
        return s

    for p in paths:
        out(f"  [file] {rn(p)}")
        with open(p, "r", encoding="utf-8") as f:
            text = f.read()
        if p.endswith(".json"):
            try:
                j = json.loads(text)
                text = json.dumps(norm_json(json.loads(rn(json.dumps(j)))), indent=1)
            except Exception as e:  # pylint: disable=W0718
                text = f"(unparsable json: {exc_str(e)}) {norm_text(rn(text))}"
        else:
            text = norm_text(rn(text))
        for line in text.split("\n"):
            out(f"      | {line}")


def printer_names(path) -> list:
    return [type(p).__name__ for p in path.printers] if path.printers is not None else None


def describe_path(path, indent="    ") -> None:
    """everything observable on a CsvPath instance"""
    i = indent

    def attempt(name, fn):
        try:
            out(f"{i}{name}: {fn()!r}")
        except Exception as e:  # pylint: disable=W0718
            out(f"{i}{name}: raised {exc_str(e)}")

    attempt("metadata", lambda: json.dumps(path.metadata))
    attempt("identity", lambda: path.identity)
    attempt("scan", lambda: path.scan)
    attempt("match", lambda: path.match)
    attempt("filename", lambda: path.scanner.filename if path.scanner else None)
    attempt(
        "mode strings",
        lambda: [
            path.return_mode,
            path.unmatched_mode,
            path.run_mode,
            path.print_mode,
            path.logic_mode,
            path.explain_mode,
            path.validation_mode,
            path.source_mode,
            path.files_mode,
            path.transfer_mode,
        ],
    )
    attempt(
        "mode values",
        lambda: [
            path.collect_when_not_matched,
            path.unmatched_available,
            path.will_run,
            path.AND,
            path.OR,
            path.explain,
            path.data_from_preceding,
        ],
    )
    attempt("printers", lambda: printer_names(path))
    attempt("has_default_printer", lambda: path.has_default_printer)
    attempt("all_expected_files", lambda: path.all_expected_files)
    attempt("transfers", lambda: path.transfers)
    attempt(
        "validation",
        lambda: [
            path.print_validation_errors,
            path.raise_validation_errors,
            path.match_validation_errors,
            path.stop_on_validation_errors,
            path.fail_on_validation_errors,
            path.log_validation_errors,
        ],
    )


def describe_run(path, indent="    ") -> None:
    i = indent
    out(f"{i}variables: {json.dumps(path.variables, default=str)}")
    out(
        f"{i}is_valid={path.is_valid} stopped={path.stopped} completed={safe(lambda: path.completed)}"
        f" scan_count={path.scan_count} match_count={path.match_count}"
        f" collecting={path.collecting} frozen={path.is_frozen}"
    )
    out(f"{i}unmatched: {path.unmatched!r}")
    out(f"{i}headers: {safe(lambda: path.headers)!r}")
    lm = path._line_monitor  # pylint: disable=W0212
    out(f"{i}line_monitor: {lm.dump() if lm is not None else None}")
    errs = path.errors
    out(f"{i}errors: {len(errs) if errs is not None else None}")
    for e in errs or []:
        out(
            f"{i}  error: line={e.line_count} scan={e.scan_count} match={e.match_count}"
            f" class={type(e.error).__name__} msg={norm_text(str(e.message))!r}"
        )
    out(f"{i}printers after: {printer_names(path)}")


def safe(fn):
    try:
        return fn()
    except Exception as e:  # pylint: disable=W0718
        return f"raised {exc_str(e)}"


def show_captured(buf: io.StringIO, indent="    ") -> None:
    text = buf.getvalue()
    if text == "":
        out(f"{indent}stdout: (nothing)")
    else:
        out(f"{indent}stdout:")
        for line in norm_text(text).split("\n"):
            out(f"{indent}  > {line}")


def run_standalone(label, csvpath_str, *, method="collect", again=False, **kwargs):
    """parse and run one csvpath on a fresh CsvPath; print all there is to see"""
    from csvpath import CsvPath

    out(f"--- {label}: {method} {csvpath_str!r} {kwargs if kwargs else ''}")
    buf = io.StringIO()
    path = None
    with contextlib.redirect_stdout(buf):
        try:
            path = CsvPath(**kwargs)
            path.parse(csvpath_str)
        except Exception as e:  # pylint: disable=W0718
            out(f"    parse raised {exc_str(e)}")
            if path is not None:
                describe_path(path)
            show_captured(buf)
            return path
    describe_path(path)
    rounds = 2 if again else 1
    for r in range(rounds):
        if again:
            out(f"    round {r}")
        with contextlib.redirect_stdout(buf):
            try:
                if method == "collect":
                    lines = path.collect()
                    out(f"    returned: {lines!r}")
                elif method == "collect2":
                    lines = path.collect(nexts=2)
                    out(f"    returned: {lines!r}")
                elif method == "next":
                    lines = []
                    for line in path.next():
                        lines.append(line[:])
                    out(f"    returned: {lines!r}")
                elif method == "fast_forward":
                    path.fast_forward()
                    out("    returned: n/a")
            except Exception as e:  # pylint: disable=W0718
                out(f"    run raised {exc_str(e)}")
        describe_run(path)
    show_captured(buf)
    return path


def setup_workdir() -> str:
    d = tempfile.mkdtemp(prefix="demo_TZC15_")
    os.chdir(d)
    os.makedirs("config")
    with open("config/config.ini", "w", encoding="utf-8") as f:
        f.write(CONFIG)
    with open("config/functions.imports", "w", encoding="utf-8") as f:
        f.write("")
    for name, text in FILES.items():
        with open(name, "w", encoding="utf-8") as f:
            f.write(text)
    return d


MODE_VALUES = {
    "return-mode": [None, "matches", "no-matches"],
    "unmatched-mode": [None, "keep", "no-keep"],
    "run-mode": [None, "run", "no-run"],
    "print-mode": [None, "default", "no-default"],
    "logic-mode": [None, "AND", "OR"],
}


def mode_comment(combo, extra="") -> str:
    parts = []
    for k, v in zip(MODE_VALUES.keys(), combo):
        if v is not None:
            parts.append(f"{k}: {v}")
    body = " ".join(parts)
    if extra:
        body = f"{extra} {body}"
    return f"~ {body} ~" if body else ""


def section_mode_matrix() -> None:
    """all 243 combinations of the five modes of the property, on two files,
    checking the partition of the file into collected and unmatched lines"""
    from csvpath import CsvPath

    out("=== mode matrix")
    match = '[ #a == "1" #b == "2" print("line $.csvpath.line_number") ]'
    for fname in ["blanks.csv", "ragged.csv"]:
        for combo in itertools.product(*MODE_VALUES.values()):
            comment = mode_comment(combo, extra="id: m")
            s = f"{comment} ${fname}[*]{match}"
            buf = io.StringIO()
            with contextlib.redirect_stdout(buf):
                path = CsvPath()
                path.parse(s)
                lines = path.collect()
            printed = buf.getvalue().count("\n")
            out(
                f"{fname} {combo}: collected={lines!r} unmatched={path.unmatched!r}"
                f" printed={printed} printers={printer_names(path)} vars={json.dumps(path.variables)}"
                f" valid={path.is_valid} scan={path.scan_count} match={path.match_count}"
                f" meta={json.dumps(path.metadata)}"
            )


def run_group(label, *, paths, filename_path, method, delimiter=None, **kw) -> None:
    """runs a named-paths group with CsvPaths; prints results and the archive"""
    from csvpath import CsvPaths

    out(f"--- group {label}: {method} {kw if kw else ''}")
    for p in paths:
        out(f"    path: {p!r}")
    for d in ["archive", "inputs", "cache", "transfers"]:
        shutil.rmtree(d, ignore_errors=True)
    buf = io.StringIO()
    with contextlib.redirect_stdout(buf):
        try:
            cp = CsvPaths() if delimiter is None else CsvPaths(delimiter=delimiter)
            cp.file_manager.add_named_file(name="f", path=filename_path)
            cp.paths_manager.add_named_paths(name="g", paths=paths)
            ret = None
            if method == "collect_paths":
                cp.collect_paths(filename="f", pathsname="g")
            elif method == "fast_forward_paths":
                cp.fast_forward_paths(filename="f", pathsname="g")
            elif method == "next_paths":
                ret = [
                    line[:]
                    for line in cp.next_paths(filename="f", pathsname="g", **kw)
                ]
            elif method == "collect_by_line":
                ret = cp.collect_by_line(filename="f", pathsname="g", **kw)
            elif method == "fast_forward_by_line":
                ret = cp.fast_forward_by_line(filename="f", pathsname="g", **kw)
            elif method == "next_by_line":
                ret = [
                    line[:]
                    for line in cp.next_by_line(filename="f", pathsname="g", **kw)
                ]
            out(f"    returned: {ret!r}")
            results = cp.results_manager.get_named_results("g")
            for r in results:
                lines = r.lines
                if lines is not None and not isinstance(lines, list):
                    lines = [_ for _ in lines.next()]
                out(
                    f"    result {r.csvpath.identity!r}: lines={lines!r} unmatched={r.unmatched!r}"
                    f" valid={r.is_valid} errors={len(r.errors) if r.errors is not None else None}"
                    f" printouts={json.dumps(r.printouts) if isinstance(r.printouts, list) else dict(r.printouts)!r}"
                )
                for e in r.errors or []:
                    out(
                        f"      error: line={e.line_count} class={type(e.error).__name__} msg={norm_text(str(e.message))!r}"
                    )
                out(f"      variables: {json.dumps(r.csvpath.variables, default=str)}")
                out(f"      metadata: {json.dumps(r.csvpath.metadata, default=str)}")
                out(f"      printers: {printer_names(r.csvpath)}")
        except Exception as e:  # pylint: disable=W0718
            out(f"    raised {exc_str(e)}")
    show_captured(buf)
    dump_tree("archive")
    dump_tree("transfers")


GROUP_PATHS = [
    '~ id: one unmatched-mode: keep ~ $[*][#a=="1" print("one: $.csvpath.line_number")]',
    '~ id:two run-mode: no-run ~ $[*][#a=="3"]',
    '~ id: three return-mode: no-matches unmatched-mode: keep print-mode: no-default description: the others ~ $[1*][#a=="1" print("three: $.csvpath.line_number")]',
    '~ name: four logic-mode: OR files-mode: all note: a or b ~ $[*][#a=="7" #b=="2" @n = count()]',
    '$[*][~ no outer comment ~ yes() collect(0, 2)]',
    '~ id: six unmatched-mode: keep validation-mode: no-raise, no-print ~ $[0-3][ #a == "4" collect("c", "a") ]',
]


def section_groups() -> None:
    out("=== named-paths groups")
    for fname in ["blanks.csv", "ragged.csv"]:
        run_group(f"{fname}", paths=GROUP_PATHS, filename_path=fname, method="collect_paths")
    run_group("ff", paths=GROUP_PATHS, filename_path="blanks.csv", method="fast_forward_paths")
    run_group("next", paths=GROUP_PATHS, filename_path="blanks.csv", method="next_paths", collect=True)
    run_group("next nocollect", paths=GROUP_PATHS[0:3], filename_path="plain.csv", method="next_paths")
    run_group("by_line", paths=GROUP_PATHS, filename_path="blanks.csv", method="collect_by_line")
    run_group(
        "by_line agree",
        paths=GROUP_PATHS[0:4],
        filename_path="ragged.csv",
        method="collect_by_line",
        if_all_agree=True,
    )
    run_group(
        "by_line not matched",
        paths=GROUP_PATHS[0:4],
        filename_path="plain.csv",
        method="collect_by_line",
        collect_when_not_matched=True,
    )
    run_group("ff by_line", paths=GROUP_PATHS, filename_path="ragged.csv", method="fast_forward_by_line")
    run_group("empty file", paths=GROUP_PATHS[0:3], filename_path="empty.csv", method="collect_paths")
    run_group(
        "bad mode",
        paths=['~ id: bad return-mode: sometimes ~ $[*][yes()]', GROUP_PATHS[0]],
        filename_path="plain.csv",
        method="collect_paths",
    )
    run_group(
        "bad print mode by line",
        paths=[GROUP_PATHS[0], '~ id: badp print-mode: loud ~ $[*][yes()]'],
        filename_path="plain.csv",
        method="collect_by_line",
    )


def main(sections) -> None:
    start = os.getcwd()
    d = setup_workdir()
    try:
        for s in sections:
            s()
        out("=== done")
    except Exception:  # pylint: disable=W0718
        out("DEMO FAILED")
        out(norm_text(traceback.format_exc()))
        raise
    finally:
        os.chdir(start)
        shutil.rmtree(d, ignore_errors=True)


# ======================================================================
# t2: result flags replaced by early returns in PrintMode.update_printers,
# ModeController.get/set and LineMonitor.is_last_line_and_blank.
# ======================================================================


def _labelled_printers(path, labels) -> list:
    """which printer objects are in the list, by the label we gave them"""
    if path.printers is None:
        return None
    return [labels.get(id(p), f"new {type(p).__name__}") for p in path.printers]


def section_print_mode() -> None:
    import logging
    from csvpath import CsvPath
    from csvpath.util.printer import StdOutPrinter, TestPrinter, LogPrinter

    out("=== t2 PrintMode.update_printers")

    def make_lists():
        a, b, c, d, e = (
            StdOutPrinter(),
            StdOutPrinter(),
            TestPrinter(),
            LogPrinter(logging.getLogger("demo")),
            TestPrinter(),
        )
        labels = {id(a): "std-a", id(b): "std-b", id(c): "test-c", id(d): "log-d", id(e): "test-e"}
        lists = {
            "empty": [],
            "one std": [a],
            "two std": [a, b],
            "test first": [c, a, e, b],
            "log first": [d, c, a],
            "log only": [d],
            "test only": [c, e],
            "same twice": [a, c, a],
            "tuple": (c, a),
            "none": None,
        }
        return labels, lists

    settings = [None, "default", "no-default", " no-default ", "NO-DEFAULT", "loud", "", 0, False]
    names = list(make_lists()[1].keys())
    for name in names:
        for setting in settings:
            labels, lists = make_lists()
            path = CsvPath()
            # (we keep hold of every printer we label so that no id is reused)
            own = path.printers[0]
            labels[id(own)] = "std-own"
            path.printers = lists[name]
            if setting is not None:
                path.metadata["print-mode"] = setting
            r = safe(path.modes.print_mode.update_printers)
            out(
                f"update_printers {name!r} metadata={setting!r}: {r!r} -> {_labelled_printers(path, labels)}"
                f" metadata after={path.metadata.get('print-mode')!r}"
            )
            r = safe(path.modes.print_mode.update)
            out(
                f"    update(): {r!r} -> {_labelled_printers(path, labels)} value={safe(lambda: path.modes.print_mode.value)!r}"
                f" metadata after={path.metadata.get('print-mode')!r}"
            )
    out("=== t2 the print-mode value setter")
    for name in names:
        for v in [True, False, None, "default", 0, 1]:
            labels, lists = make_lists()
            path = CsvPath(print_default=False)
            path.printers = lists[name]

            def setit():
                path.modes.print_mode.value = v

            r = safe(setit)
            out(
                f"value={v!r} on {name!r}: {r!r} -> {_labelled_printers(path, labels)}"
                f" metadata={path.metadata.get('print-mode')!r} value={safe(lambda: path.modes.print_mode.value)!r}"
                f" has_default={safe(lambda: path.has_default_printer)!r}"
            )
    out("=== t2 print-mode over reparses of one instance")
    path = CsvPath()
    tp = TestPrinter()
    path.add_printer(tp)
    own = path.printers[0]
    labels = {id(own): "std-own", id(tp): "test"}
    for comment in [
        "~ print-mode: no-default ~",
        "~ print-mode: no-default ~",
        "~ print-mode: default ~",
        "~ print-mode: default ~",
        "",
        "~ print-mode: no-default ~",
        "~ other: thing ~",
        "~ print-mode: quiet ~",
        "~ print-mode: default ~",
    ]:
        buf = io.StringIO()
        with contextlib.redirect_stdout(buf):
            r = safe(lambda: type(path.parse(f'{comment} $plain.csv[1][print("p $.csvpath.line_number")]')).__name__)
            f = safe(path.fast_forward)
        out(
            f"{comment!r}: parse={r!r} ff={f!r} printers={_labelled_printers(path, labels)}"
            f" metadata={json.dumps(path.metadata)} test printer lines={tp.lines!r}"
        )
        show_captured(buf)
    out("=== t2 print_default=False and print-mode")
    for comment in ["", "~ print-mode: default ~", "~ print-mode: no-default ~"]:
        run_standalone(
            "no default printer",
            f'{comment} $plain.csv[1-2][print("p $.csvpath.line_number")]',
            print_default=False,
        )


def section_mode_controller() -> None:
    from csvpath import CsvPath
    from csvpath.modes.mode_controller import ModeController

    out("=== t2 ModeController.get and set")
    out(f"MODES: {ModeController.MODES!r}")

    class Odd(str):
        """a str that is equal to nothing and is in no list"""

        def __eq__(self, other):
            return False

        __hash__ = str.__hash__

    keys = list(ModeController.MODES) + [
        None,
        "",
        "bogus-mode",
        "Return-Mode",
        " return-mode",
        "id",
        0,
        1.5,
        ("return-mode",),
        Odd("return-mode"),
    ]
    for prepared in [False, True]:
        path = CsvPath()
        if prepared:
            path.parse(
                "~ id: mc return-mode: no-matches unmatched-mode: keep run-mode: run print-mode: no-default"
                " logic-mode: OR explain-mode: explain validation-mode: no-raise, print source-mode: default"
                " files-mode: data, unmatched transfer-mode: data > x ~ $plain.csv[*][yes()]"
            )
        out(f"prepared={prepared} metadata={json.dumps(path.metadata)}")
        for k in keys:
            out(f"  get({k!r}): {safe(lambda: path.modes.get(k))!r}")
        for k in keys:
            r = safe(lambda: path.modes.set(k, f"set-{k}"))
            out(f"  set({k!r}): {r!r} -> {json.dumps(path.metadata, default=str)}")
        for k in keys:
            out(f"  get({k!r}) after set: {safe(lambda: path.modes.get(k))!r}")
        path.metadata = None
        out(f"  metadata None get: {safe(lambda: path.modes.get('run-mode'))!r}")
        out(f"  metadata None set: {safe(lambda: path.modes.set('run-mode', 'run'))!r}")
        out(f"  metadata None get bogus: {safe(lambda: path.modes.get('bogus'))!r}")
    out("=== t2 setters of the mode values write metadata through set()")
    path = CsvPath()
    for name, v in [
        ("collect_when_not_matched", True),
        ("collect_when_not_matched", False),
        ("collect_when_not_matched", None),
        ("unmatched_available", True),
        ("unmatched_available", None),
        ("AND", False),
        ("OR", False),
        ("explain", True),
        ("explain", None),
        ("data_from_preceding", True),
    ]:

        def setit():
            setattr(path, name, v)

        r = safe(setit)
        out(f"  {name}={v!r}: {r!r} get={safe(lambda: getattr(path, name))!r} metadata={json.dumps(path.metadata)}")


def section_line_monitor() -> None:
    from csvpath.util.line_monitor import LineMonitor

    out("=== t2 LineMonitor.is_last_line_and_blank")

    class Sized:
        def __init__(self, n):
            self.n = n

        def __len__(self):
            return self.n

        def __repr__(self):
            return f"Sized({self.n})"

    lines = [None, [], [""], ["a"], ["", ""], (), "", "x", {}, Sized(0), Sized(2), 5, 0]
    for end in [None, 0, 1, 3, -1]:
        for num in [None, 0, 1, 3, -1]:
            lm = LineMonitor()
            lm._physical_end_line_number = end  # pylint: disable=W0212
            lm._physical_line_number = num  # pylint: disable=W0212
            row = [safe(lambda: lm.is_last_line_and_blank(line)) for line in lines]
            out(f"end={end!r} num={num!r} is_last_line={lm.is_last_line()!r}: {row!r}")
    out("=== t2 a monitor walking files")
    for data in [[], [[]], [["a"], []], [[], ["a"]], [["a"], [], []], [["a"], ["b"]]]:
        lm = LineMonitor()
        for line in data:
            lm.next_line(last_line=[], data=line)
        lm.set_end_lines_and_reset()
        seen = [("before", lm.is_last_line_and_blank([]), lm.is_last_line_and_blank(["x"]))]
        for line in data:
            lm.next_line(last_line=[], data=line)
            seen.append((line, lm.is_last_line_and_blank(line), lm.is_last_line_and_blank([])))
        out(f"{data!r}: {seen!r} {lm.dump()}")


def section_standalone_t2() -> None:
    out("=== t2 standalone runs, blank last lines and last()")
    match = (
        '[ #a == "1" print("$.csvpath.line_number: $.headers.a") '
        'last() -> print("last at $.csvpath.line_number") last.nocontrib() -> @l = line_number() @c = count() ]'
    )
    for fname in FILES:
        if fname == "pipes.csv":
            continue
        for comment in [
            "",
            "~ unmatched-mode: keep ~",
            "~ return-mode: no-matches unmatched-mode: keep print-mode: no-default ~",
            "~ run-mode: no-run print-mode: no-default ~",
            "~ logic-mode: OR print-mode: default unmatched-mode: keep ~",
        ]:
            run_standalone("last", f"{comment} ${fname}[*]{match}")
    run_standalone("keep blanks", '~ unmatched-mode: keep ~ $blanks.csv[*][ #a == "1" ]', skip_blank_lines=False)
    run_standalone(
        "keep blanks inverted",
        '~ unmatched-mode: keep return-mode: no-matches ~ $blanks.csv[*][ #a == "1" ]',
        skip_blank_lines=False,
        method="next",
    )
    run_standalone("partial scan", '~ unmatched-mode: keep ~ $blanks.csv[2-5][ #a == "4" last() -> @l = "yes" ]')
    run_standalone("twice", '~ print-mode: no-default unmatched-mode: keep ~ $blanks.csv[*][ #a == "1" print("x") ]', again=True)
    run_standalone("ff", '~ print-mode: default ~ $blanks.csv[*][ last() -> print("done") ]', method="fast_forward")
    run_standalone("bad print mode", "~ print-mode: loud ~ $plain.csv[*][yes()]")
    run_standalone("bad return mode", "~ return-mode: never ~ $plain.csv[*][yes()]")
    run_standalone("bad logic mode", "~ logic-mode: xor print-mode: no-default ~ $plain.csv[*][yes()]")
    run_standalone("bad run mode", "~ print-mode: no-default run-mode: walk ~ $plain.csv[*][yes()]")


if __name__ == "__main__":
    main(
        [
            section_print_mode,
            section_mode_controller,
            section_line_monitor,
            section_standalone_t2,
            section_mode_matrix,
            section_groups,
        ]
    )
