#!/usr/bin/env python
"""Differential demonstration for property C11 (named-files area is a versioned,
content-addressed, immutable store).

Self contained: creates a scratch working directory (with an offline
config/config.ini), exercises FileManager / FileRegistrar in many ways and
prints a deterministic transcript of everything observable.

usage:  PYTHONPATH=<csvpath tree> /venv/bin/python demo.py > out.txt
"""
import contextlib
import hashlib
import io
import itertools
import json
import os
import random
import re
import shutil
import sys
import tempfile

CONFIG = """[csvpath_files]
extensions = txt, csvpath, csvpaths

[csv_files]
extensions = txt, csv, tsv, dat, tab, psv, ssv

[errors]
csvpath = raise, collect, stop, fail, print
csvpaths = raise, collect

[logging]
csvpath = info
csvpaths = info
log_file = logs/csvpath.log
log_files_to_keep = 100
log_file_size = 52428800

[config]
path = config/config.ini

[cache]
path = cache

[listeners]
[marquez]
base_url = http://localhost:5000

[functions]
imports = config/functions.imports

[results]
archive = archive
transfers = transfers

[inputs]
files = inputs/named_files
csvpaths = inputs/named_paths
on_unmatched_file_fingerprints = halt
"""

WD = tempfile.mkdtemp(prefix="demo_TZC11_")
os.chdir(WD)
os.makedirs("config")
with open("config/config.ini", "w", encoding="utf-8") as _f:
    _f.write(CONFIG)
with open("config/functions.imports", "w", encoding="utf-8") as _f:
    _f.write("")

from csvpath import CsvPaths  # noqa: E402
from csvpath.managers.files.file_metadata import FileMetadata  # noqa: E402
from csvpath.managers.listener import Listener  # noqa: E402

OUT = sys.stdout

RUN = re.compile(r"\d{4}-\d\d-\d\d_\d\d-\d\d-\d\d([_.]\d+)?")
ISO = re.compile(r"\d{4}-\d\d-\d\d[T ]\d\d:\d\d:\d\d(\.\d+)?(\+\d\d:\d\d|Z)?")
UUID = re.compile(
    r"[0-9a-f]{8}-[0-9a-f]{4}-[0-9a-f]{4}-[0-9a-f]{4}-[0-9a-f]{12}", re.I
)


def norm(s) -> str:
    s = str(s)
    s = s.replace(WD, "<WD>")
    s = ISO.sub("<T>", s)
    s = RUN.sub("<RUN>", s)
    s = UUID.sub("<UUID>", s)
    return s


def say(*a):
    OUT.write(norm(" ".join(str(_) for _ in a)) + "\n")


def sha(b: bytes) -> str:
    return hashlib.sha256(b).hexdigest()


def attempt(label, fn, show=True):
    """runs fn capturing stdout/stderr printouts and exceptions"""
    buf = io.StringIO()
    ebuf = io.StringIO()
    res = None
    try:
        with contextlib.redirect_stdout(buf), contextlib.redirect_stderr(ebuf):
            res = fn()
        if show:
            say(f"{label} -> {res!r}")
    except BaseException as ex:  # pylint: disable=W0718
        if isinstance(ex, (KeyboardInterrupt, SystemExit)):
            raise
        say(f"{label} !! {type(ex).__name__}: {ex}")
        res = ex
    if buf.getvalue():
        for line in buf.getvalue().splitlines():
            say(f"   [stdout] {line}")
    if ebuf.getvalue():
        for line in ebuf.getvalue().splitlines():
            say(f"   [stderr] {line}")
    return res


def write_bytes(path, data: bytes):
    d = os.path.dirname(path)
    if d and not os.path.exists(d):
        os.makedirs(d)
    with open(path, "wb") as f:
        f.write(data)


def reset_store():
    for d in ["inputs", "src", "archive", "cache", "transfers"]:
        if os.path.exists(d):
            shutil.rmtree(d)
    os.makedirs("src")
    os.makedirs("inputs/named_files")
    os.makedirs("inputs/named_paths")


def manifest_lines(path):
    try:
        with open(path, "r", encoding="utf-8") as f:
            raw = f.read()
        j = json.loads(raw)
    except Exception as ex:  # pylint: disable=W0718
        return [f"      <unreadable manifest {type(ex).__name__}> raw={raw!r}"]
    out = []
    if not isinstance(j, list):
        return [f"      <non-list manifest> {j!r}"]
    for i, e in enumerate(j):
        if isinstance(e, dict):
            e = dict(e)
            if "time" in e:
                e["time"] = "<T>"
            out.append(f"      [{i}] " + json.dumps(e, sort_keys=False))
        else:
            out.append(f"      [{i}] {e!r}")
    # exact on-disk formatting matters too: record whether the raw text is
    # what json.dump(indent=2) of the parsed data gives
    out.append(f"      raw==dump(indent=2): {raw == json.dumps(j, indent=2)}")
    return out


def dump_tree(root="inputs/named_files", full=True):
    """everything on disk under the named-files area"""
    lines = []
    if not os.path.exists(root):
        return [f"   <{root} does not exist>"]
    for dirpath, dirnames, filenames in os.walk(root):
        dirnames.sort()
        if not dirnames and not filenames:
            lines.append(f"   {dirpath}/ (empty dir)")
        for fn in sorted(filenames):
            p = os.path.join(dirpath, fn)
            with open(p, "rb") as f:
                b = f.read()
            if fn == "manifest.json":
                lines.append(f"   {p}")
                if full:
                    lines += manifest_lines(p)
                else:
                    lines.append(f"      sha-of-normalised={sha(norm(ISO.sub('<T>', b.decode())).encode())[:12]}")
            else:
                h = sha(b)
                stem = fn.split(".", 1)[0]
                lines.append(
                    f"   {p} bytes={len(b)} sha256={h[:16]} name_is_hash={stem == h}"
                )
    return lines


def dump_names(cp, names):
    lines = []
    fm = cp.file_manager
    for n in names:
        try:
            p = fm.get_named_file(n)
        except Exception as ex:  # pylint: disable=W0718
            p = f"!! {type(ex).__name__}: {ex}"
        content = None
        if isinstance(p, str) and not p.startswith("!!"):
            pp = p[0 : p.find("#")] if p.find("#") > -1 else p
            if os.path.isfile(pp):
                with open(pp, "rb") as f:
                    content = sha(f.read())[:16]
        try:
            fp = fm.get_fingerprint_for_name(n)
            fp = fp[:16]
        except Exception as ex:  # pylint: disable=W0718
            fp = f"!! {type(ex).__name__}"
        lines.append(
            f"   name {n!r}: exists={fm.name_exists(n)} file={p} content_sha={content} fingerprint={fp}"
        )
    return lines


def show_state(cp, names, full=True):
    for _ in dump_names(cp, names):
        say(_)
    for _ in dump_tree(full=full):
        say(_)
    attempt("   named_file_names(sorted)", lambda: sorted(cp.file_manager.named_file_names))
    attempt("   named_files_count", lambda: cp.file_manager.named_files_count)


# =====================================================================
# 1. model sequences
# =====================================================================
NAMES = ["orders", "stock"]
SOURCES = ["src/a.csv", "src/b.csv"]
CONTENTS = [
    b"id,qty\n1,0\n2,5\n",
    b"id,qty\n1,0\n\n2,\n3,7,extra\n",
    b"",
]
OPS = (
    [("add", n, s, c) for n in range(2) for s in range(2) for c in range(3)]
    + [("mutate", s) for s in range(2)]
    + [("remove", n) for n in range(2)]
    + [("new",)]
)


class Driver:
    def __init__(self):
        reset_store()
        self.cp = CsvPaths()
        self.mut = 0

    def apply(self, op):
        if op[0] == "add":
            _, n, s, c = op
            write_bytes(SOURCES[s], CONTENTS[c])
            return attempt(
                f"  add({NAMES[n]}, {SOURCES[s]}, c{c})",
                lambda: self.cp.file_manager.add_named_file(
                    name=NAMES[n], path=SOURCES[s]
                ),
            )
        if op[0] == "mutate":
            self.mut += 1
            write_bytes(SOURCES[op[1]], b"mutated %d\n" % self.mut)
            say(f"  mutate({SOURCES[op[1]]})")
            return None
        if op[0] == "remove":
            return attempt(
                f"  remove({NAMES[op[1]]})",
                lambda: self.cp.file_manager.remove_named_file(NAMES[op[1]]),
            )
        if op[0] == "new":
            self.cp = CsvPaths()
            say("  new instance")
            return None
        raise ValueError(op)

    def compact_state(self):
        for _ in dump_names(self.cp, NAMES):
            say(" " + _)
        for _ in dump_tree(full=True):
            say(" " + _)


def model_sequences():
    global OUT
    say("=" * 70)
    say("1. MODEL SEQUENCES")
    say("=" * 70)
    say("--- exhaustive, length 1 and 2, full transcript")
    k = 0
    for ln in (1, 2):
        for seq in itertools.product(OPS, repeat=ln):
            k += 1
            say(f"seq {k}: {seq}")
            d = Driver()
            for op in seq:
                d.apply(op)
                d.compact_state()
    say("--- exhaustive, length 3, one digest line per sequence")
    real = OUT
    for seq in itertools.product(OPS, repeat=3):
        k += 1
        OUT = io.StringIO()
        d = Driver()
        for op in seq:
            d.apply(op)
            d.compact_state()
        t = OUT.getvalue()
        OUT = real
        say(f"seq {k}: {seq} lines={t.count(chr(10))} digest={sha(t.encode())[:20]}")
    say("--- random, length 4..10, full transcript (seeded)")
    rnd = random.Random(11)
    for i in range(60):
        ln = rnd.randint(4, 10)
        seq = [rnd.choice(OPS) for _ in range(ln)]
        k += 1
        say(f"seq {k}: {seq}")
        d = Driver()
        for op in seq:
            d.apply(op)
            d.compact_state()
    say("--- random, length 6, digest only (seeded)")
    rnd = random.Random(12)
    for i in range(600):
        seq = [rnd.choice(OPS) for _ in range(6)]
        k += 1
        OUT = io.StringIO()
        d = Driver()
        for op in seq:
            d.apply(op)
            d.compact_state()
        t = OUT.getvalue()
        OUT = real
        say(f"seq {k}: lines={t.count(chr(10))} digest={sha(t.encode())[:20]}")


# =====================================================================
# 2. add_named_file edge cases
# =====================================================================
def add_edges():
    say("=" * 70)
    say("2. add_named_file EDGE CASES")
    say("=" * 70)
    reset_store()
    cp = CsvPaths()
    fm = cp.file_manager
    names = []

    def add(name, path, data=None):
        if data is not None:
            p = path[0 : path.find("#")] if path.find("#") > -1 else path
            write_bytes(p, data)
        if name not in names:
            names.append(name)
        attempt(f"add_named_file(name={name!r}, path={path!r})", lambda: fm.add_named_file(name=name, path=path))

    say("--- versions: A, B, A again, A repeat, same bytes under another file name, same file name from another dir")
    add("v", "src/v.csv", b"a,b\n1,2\n")
    add("v", "src/v.csv", b"a,b\n1,2\n3,4\n")
    add("v", "src/v.csv", b"a,b\n1,2\n")
    add("v", "src/v.csv")
    add("v", "src/w.csv", b"a,b\n1,2\n")
    add("v", "src/deeper/dir/w.csv", b"a,b\n1,2\n")
    add("v", "src/deeper/dir/w.csv", b"a,b\n1,2\n\n\n")
    show_state(cp, names)
    say("--- content variety: blank lines, ragged rows, empty values, zero, CRLF, binary, empty file")
    add("blank", "src/blank.csv", b"\n\nh1,h2\n\n1,2\n\n")
    add("ragged", "src/ragged.csv", b"h1,h2,h3\n1\n1,2\n1,2,3,4\n,,\n0,0,0\n")
    add("crlf", "src/crlf.csv", b"h1,h2\r\n1,2\r\n")
    add("binary", "src/binary.dat", bytes(range(256)) * 3)
    add("empty", "src/empty.csv", b"")
    add("zero", "src/0.csv", b"0\n")
    show_state(cp, names)
    say("--- file names: several dots, no extension, upper case, spaces, leading dot")
    add("dots", "src/a.b.c.csv", b"x\n")
    add("noext", "src/noext", b"x\n")
    add("upper", "src/UP.CSV", b"x\n")
    add("space", "src/with space.csv", b"x\n")
    add("hidden", "src/.hidden", b"x\n")
    add("dotend", "src/trailing.", b"x\n")
    show_state(cp, names)
    say("--- marks")
    add("marked", "src/book.csv#sheet2", b"m\n1\n")
    add("marked", "src/book.csv#sheet2")
    add("marked", "src/book.csv#sheet3")
    add("marked", "src/book.csv")
    add("marked", "src/book.csv#")
    add("marked", "src/book.csv#a#b")
    show_state(cp, names)
    attempt("get_named_file_reader('marked') type", lambda: type(fm.get_named_file_reader("marked")).__name__)
    say("--- bad sources")
    add("missing", "src/does_not_exist.csv")
    add("adir", "src/deeper")
    add("emptypath", "")
    add("slashend", "src/deeper/")
    add("v", "src/does_not_exist.csv")
    show_state(cp, names)
    say("--- odd names")
    add("grp/inner", "src/v.csv")
    add("n#x", "src/v.csv")
    add("", "src/v.csv")
    add(".", "src/v.csv")
    show_state(cp, names)
    say("--- absolute source path")
    add("abs", os.path.join(WD, "src", "v.csv"))
    add("abs", os.path.join(WD, "src", "v.csv"))
    add("abs", "src/v.csv")
    show_state(cp, ["abs"])
    say("--- non-string arguments")
    attempt("add_named_file(name=None, path='src/v.csv')", lambda: fm.add_named_file(name=None, path="src/v.csv"))
    attempt("add_named_file(name='x', path=None)", lambda: fm.add_named_file(name="x", path=None))
    attempt("get_named_file(None)", lambda: fm.get_named_file(None))
    say("--- immutability: mutate every source, then look again; then a fresh instance")
    for dirpath, _dn, fns in os.walk("src"):
        for fn in fns:
            write_bytes(os.path.join(dirpath, fn), b"changed after registration\n")
    show_state(cp, names, full=False)
    cp2 = CsvPaths()
    show_state(cp2, names, full=False)
    say("--- lookups")
    for n in ["v", "nope", "", "/", os.path.join(WD, "src", "v.csv"), "grp", "grp/inner", "$v", "$v.variables.x", "$v.results.2024-01-01_00-00-00.p", "$.results.x.y"]:
        attempt(f"name_exists({n!r})", lambda: fm.name_exists(n))
        attempt(f"get_named_file({n!r})", lambda: fm.get_named_file(n))
        attempt(f"get_fingerprint_for_name({n!r})", lambda: fm.get_fingerprint_for_name(n))
        attempt(f"get_named_file_reader({n!r})", lambda: type(fm.get_named_file_reader(n)).__name__)
    say("--- reading through the reader")
    for n in ["v", "blank", "ragged", "crlf", "empty", "zero"]:
        attempt(f"reader({n!r}).next()", lambda: list(fm.get_named_file_reader(n).next()))
    say("--- private helpers as the tests use them")
    attempt("assure_file_home('h1','src/v.csv')", lambda: fm.assure_file_home("h1", "src/v.csv"))
    attempt("assure_file_home('h1','src/v.csv#m')", lambda: fm.assure_file_home("h1", "src/v.csv#m"))
    attempt("assure_file_home('h1','v.csv')", lambda: fm.assure_file_home("h1", "v.csv"))
    write_bytes("src/v.csv", b"a,b\n9,9\n")
    attempt("_copy_in('src/v.csv', home)", lambda: fm._copy_in("src/v.csv", "inputs/named_files/h1/v.csv"))
    attempt("_fingerprint(home)", lambda: fm._fingerprint("inputs/named_files/h1/v.csv"))
    attempt("_copy_in again", lambda: fm._copy_in("src/v.csv", "inputs/named_files/h1/v.csv"))
    attempt("_fingerprint again", lambda: fm._fingerprint("inputs/named_files/h1/v.csv"))
    attempt("_fingerprint with nothing copied in", lambda: fm._fingerprint("inputs/named_files/h1/v.csv"))
    attempt("_fingerprint(no such home)", lambda: fm._fingerprint("inputs/named_files/nohome/v.csv"))
    attempt("named_file_home('')", lambda: fm.named_file_home(""))
    attempt("named_file_home('a/b')", lambda: fm.named_file_home("a/b"))
    attempt("assure_named_file_home('made')", lambda: fm.assure_named_file_home("made"))
    attempt("assure_named_file_home('made') again", lambda: fm.assure_named_file_home("made"))
    show_state(cp, ["h1", "made"])
    say("--- removal")
    attempt("remove_named_file('v')", lambda: fm.remove_named_file("v"))
    attempt("remove_named_file('v') again", lambda: fm.remove_named_file("v"))
    attempt("get_named_file('v')", lambda: fm.get_named_file("v"))
    add("v", "src/v.csv", b"a,b\nnew,life\n")
    show_state(cp, ["v"])
    attempt("remove_all_named_files()", fm.remove_all_named_files)
    show_state(cp, names, full=False)


# =====================================================================
# 3. registrar, directly
# =====================================================================
class Recorder(Listener):
    """a listener that records what it is told and what the manifest on disk
    says at the moment it is told"""

    def __init__(self, tag, config=None):
        super().__init__(config)
        self.tag = tag

    def metadata_update(self, mdata) -> None:
        with open(mdata.manifest_path, "r", encoding="utf-8") as f:
            n = len(json.load(f))
        say(
            f"   [{self.tag}] told: name={mdata.named_file_name} origin={mdata.origin_path} "
            f"fp={str(mdata.fingerprint)[:12]} file={mdata.file_path} file_home={mdata.file_home} "
            f"file_name={mdata.file_name} name_home={mdata.name_home} mark={mdata.mark!r} type={mdata.type} "
            f"manifest_path={mdata.manifest_path} archive_name={mdata.archive_name} entries_on_disk_now={n}"
        )


class Reentrant(Listener):
    """a listener that hands the metadata back to the registrar's own
    metadata_update one more time"""

    def __init__(self, registrar):
        super().__init__(None)
        self.registrar = registrar
        self.on = True

    def metadata_update(self, mdata) -> None:
        if self.on:
            say("   [reentrant] calling registrar.metadata_update again")
            self.registrar.metadata_update(mdata)


class Exploding(Listener):
    def metadata_update(self, mdata) -> None:
        raise RuntimeError("listener blew up")


def registrar_direct():
    say("=" * 70)
    say("3. REGISTRAR DIRECTLY")
    say("=" * 70)
    reset_store()
    cp = CsvPaths()
    fm = cp.file_manager
    reg = fm.registrar
    say("--- _type_from_sourcepath")
    for s in ["a.csv", "a", "", ".", "a.", "a.b.csv", "a.csv#s", "a.csv#s.x", "dir.d/a", "a#b", "#", "x.XLSX#Sheet 1"]:
        attempt(f"_type_from_sourcepath({s!r})", lambda: reg._type_from_sourcepath(s))
    say("--- manifest_path / get_manifest / registered_file / get_fingerprint / type_of_file")
    attempt("manifest_path('inputs/named_files/nohome')", lambda: reg.manifest_path("inputs/named_files/nohome"))
    attempt("registered_file('inputs/named_files/nohome')", lambda: reg.registered_file("inputs/named_files/nohome"))
    os.makedirs("inputs/named_files/bare")
    attempt("manifest_path(bare)", lambda: reg.manifest_path("inputs/named_files/bare"))
    attempt("manifest_path(home=bare)", lambda: reg.manifest_path(home="inputs/named_files/bare"))
    attempt("get_manifest(bare)", lambda: reg.get_manifest("inputs/named_files/bare/manifest.json"))
    attempt("get_manifest(missing)", lambda: reg.get_manifest("inputs/named_files/bare/nope.json"))
    corrupt = [
        "[]",
        "null",
        "{}",
        '{"a": 1}',
        '"str"',
        "0",
        "",
        "not json",
        '[{"file": "f.csv"}]',
        '[{"file": "f.csv", "mark": null}]',
        '[{"file": "f.csv", "mark": ""}]',
        '[{"file": "f.csv", "mark": "m", "type": "csv", "fingerprint": "abc"}]',
        '[{"file": "f.csv", "mark": 0}]',
        '[{"mark": "m"}]',
        '[{"file": null}]',
        '[["file", "mark"]]',
        '["file"]',
        "[null]",
        "[1, 2]",
        '[{"file": "old.csv", "type": "csv", "fingerprint": "1"}, {"file": "new.csv", "type": "tsv", "fingerprint": "2"}]',
        '[{"file": "x.csv", "file": "dup.csv", "type": "csv", "fingerprint": "1"}]',
    ]
    for c in corrupt:
        with open("inputs/named_files/bare/manifest.json", "w", encoding="utf-8") as f:
            f.write(c)
        say(f"manifest text: {c!r}")
        attempt("  registered_file", lambda: reg.registered_file("inputs/named_files/bare"))
        attempt("  get_fingerprint", lambda: reg.get_fingerprint("inputs/named_files/bare"))
        attempt("  type_of_file", lambda: reg.type_of_file("inputs/named_files/bare"))
        attempt("  fm.get_named_file('bare')", lambda: fm.get_named_file("bare"))
        attempt("  fm.get_fingerprint_for_name('bare')", lambda: fm.get_fingerprint_for_name("bare"))
        attempt("  fm.get_named_file_reader('bare')", lambda: type(fm.get_named_file_reader("bare")).__name__)
        # and registering on top of it
        write_bytes("src/bare.csv", b"q\n1\n")
        attempt("  add_named_file on top", lambda: fm.add_named_file(name="bare", path="src/bare.csv"))
        for _ in manifest_lines("inputs/named_files/bare/manifest.json"):
            say(_)
    shutil.rmtree("inputs/named_files/bare")

    def md(name, origin, fp, file_home, mark=None, file_path=None):
        m = FileMetadata(cp.config)
        m.named_file_name = name
        m.origin_path = origin
        m.archive_name = cp.config.archive_name
        m.fingerprint = fp
        m.file_path = file_path if file_path else f"{file_home}/{fp}.csv"
        m.file_home = file_home
        m.file_name = file_home[file_home.rfind(os.sep) + 1 :]
        m.name_home = f"inputs/named_files/{name}"
        m.mark = mark
        return m

    say("--- listeners")
    rec = Recorder("rec1", cp.config)
    reg.add_listener(rec)
    write_bytes("src/l.csv", b"a\n1\n")
    attempt("add l v1", lambda: fm.add_named_file(name="l", path="src/l.csv"))
    attempt("add l v1 repeat (no notification expected)", lambda: fm.add_named_file(name="l", path="src/l.csv"))
    write_bytes("src/l.csv", b"a\n2\n")
    attempt("add l v2", lambda: fm.add_named_file(name="l", path="src/l.csv"))
    attempt("add l v2 with mark", lambda: fm.add_named_file(name="l", path="src/l.csv#mk"))
    show_state(cp, ["l"])
    say("--- re-entrant listener: the registrar is told twice per registration")
    ree = Reentrant(reg)
    reg.add_listener(ree)
    write_bytes("src/l.csv", b"a\n3\n")
    attempt("add l v3", lambda: fm.add_named_file(name="l", path="src/l.csv"))
    show_state(cp, ["l"])
    attempt("add l v3 repeat", lambda: fm.add_named_file(name="l", path="src/l.csv"))
    ree.on = False
    write_bytes("src/l.csv", b"a\n4\n")
    attempt("add l v4 (re-entrant off)", lambda: fm.add_named_file(name="l", path="src/l.csv"))
    show_state(cp, ["l"])
    say("--- exploding listener: manifest is written before the listener fails")
    boom = Exploding()
    reg.add_listener(boom)
    write_bytes("src/l.csv", b"a\n5\n")
    attempt("add l v5", lambda: fm.add_named_file(name="l", path="src/l.csv"))
    show_state(cp, ["l"])
    attempt("add l v5 repeat", lambda: fm.add_named_file(name="l", path="src/l.csv"))
    attempt("remove_listener(boom)", lambda: reg.remove_listener(boom))
    write_bytes("src/l.csv", b"a\n6\n")
    attempt("add l v6", lambda: fm.add_named_file(name="l", path="src/l.csv"))
    say("--- registrar not first: nothing may be written, and the next registration is clean")
    reg.listeners.insert(0, rec)
    write_bytes("src/l.csv", b"a\n7\n")
    attempt("add l v7 with registrar not first", lambda: fm.add_named_file(name="l", path="src/l.csv"))
    show_state(cp, ["l"])
    say("--- ... meanwhile another instance registers a version and then this one is told of an update by hand")
    cpo = CsvPaths()
    write_bytes("src/l.csv", b"a\n8\n")
    attempt("another instance adds l v8", lambda: cpo.file_manager.add_named_file(name="l", path="src/l.csv"))
    mh = md("l", "src/l.csv", "byhand", "inputs/named_files/l/l.csv")
    mh.manifest_path = "inputs/named_files/l/manifest.json"
    mh.type = "csv"
    attempt("metadata_update by hand on the first instance", lambda: reg.metadata_update(mh))
    show_state(cp, ["l"])
    write_bytes("src/l.csv", b"a\n7\n")
    reg.listeners.pop(0)
    attempt("add l v7 again, listeners in order", lambda: fm.add_named_file(name="l", path="src/l.csv"))
    write_bytes("src/other.csv", b"o\n1\n")
    attempt("add other v1", lambda: fm.add_named_file(name="other", path="src/other.csv"))
    show_state(cp, ["l", "other"])
    attempt("remove_listeners()", reg.remove_listeners)
    attempt("listeners == [reg]", lambda: reg.listeners == [reg])
    attempt("remove_listener(reg) is a no-op", lambda: (reg.remove_listener(reg), reg.listeners == [reg])[1])

    say("--- register_complete / metadata_update / distribute_update called by hand")
    reg.add_listener(rec)

    os.makedirs("inputs/named_files/hand")
    m1 = md("hand", "src/l.csv", "f1", "inputs/named_files/hand/l.csv")
    attempt("register_complete(m1)", lambda: reg.register_complete(m1))
    attempt("register_complete(m1) again", lambda: reg.register_complete(m1))
    attempt("metadata_update(m1) by hand", lambda: reg.metadata_update(m1))
    attempt("register_complete(m1) after by-hand update", lambda: reg.register_complete(m1))
    attempt("distribute_update(m1) by hand", lambda: reg.distribute_update(m1))
    attempt("register_start(m1)", lambda: reg.register_start(m1))
    m2 = md("hand", "src/l.csv", "f2", "inputs/named_files/hand/l.csv")
    attempt("register_complete(m2)", lambda: reg.register_complete(m2))
    attempt("register_complete(m1) (older fingerprint comes back)", lambda: reg.register_complete(m1))
    m3 = md("hand", "src/l.csv", "f1", "inputs/named_files/hand/z.csv")
    attempt("register_complete(m3) same fp other file_home", lambda: reg.register_complete(m3))
    m4 = md("hand", "src/l.csv#k", "f1", "inputs/named_files/hand/z.csv", mark="k")
    attempt("register_complete(m4) same as m3 plus a mark: a repeat", lambda: reg.register_complete(m4))
    m5 = md("hand", "src/l.csv#k", "f9", "inputs/named_files/hand/z.csv", mark="k")
    attempt("register_complete(m5) new fp with mark", lambda: reg.register_complete(m5))
    attempt("registered_file(hand)", lambda: reg.registered_file("inputs/named_files/hand"))
    m6 = md("hand", "src/l.csv#k", "f10", "inputs/named_files/hand/z.csv", mark="other")
    attempt("register_complete(m6) marks disagree", lambda: reg.register_complete(m6))
    m7 = md("hand", "src/l.csv", "f10", "inputs/named_files/hand/z.csv", mark="k")
    attempt("register_complete(m7) marks disagree the other way", lambda: reg.register_complete(m7))
    m8 = md("hand", "src/gone.csv", "f11", "inputs/named_files/hand/z.csv")
    attempt("register_complete(m8) origin missing", lambda: reg.register_complete(m8))
    m9 = md("hand", "s3://bucket/key/thing.tsv", "f12", "inputs/named_files/hand/thing.tsv")
    attempt("register_complete(m9) s3 origin is not checked", lambda: reg.register_complete(m9))
    m10 = md("nohome", "src/l.csv", "f13", "inputs/named_files/nohome/l.csv")
    attempt("register_complete(m10) name home missing", lambda: reg.register_complete(m10))
    m11 = md("hand", "src/l.csv", None, "inputs/named_files/hand/l.csv", file_path="x")
    attempt("register_complete(m11) fingerprint None", lambda: reg.register_complete(m11))
    attempt("register_complete(m11) fingerprint None again", lambda: reg.register_complete(m11))
    attempt("register_complete(None)", lambda: reg.register_complete(None))
    attempt("distribute_update(None)", lambda: reg.distribute_update(None))
    attempt("metadata_update(None)", lambda: reg.metadata_update(None))
    mbad = md("hand", "src/l.csv", "f14", "inputs/named_files/hand/l.csv")
    mbad.manifest_path = "inputs/named_files/hand/not_there.json"
    attempt("metadata_update(manifest path missing)", lambda: reg.metadata_update(mbad))
    attempt("register_complete(mbad) resets the manifest path", lambda: reg.register_complete(mbad))
    say(f"   mbad.manifest_path={mbad.manifest_path} type={mbad.type}")
    say("--- two names interleaved, by hand")
    os.makedirs("inputs/named_files/hand2")
    n1 = md("hand2", "src/l.csv", "g1", "inputs/named_files/hand2/l.csv")
    attempt("register_complete(n1)", lambda: reg.register_complete(n1))
    attempt("metadata_update(m2) for the other name right after", lambda: reg.metadata_update(m2))
    attempt("register_complete(n1) repeat", lambda: reg.register_complete(n1))
    attempt("metadata_update(n1) by hand", lambda: reg.metadata_update(n1))
    for _ in dump_tree():
        say(_)
    say("--- a second CsvPaths on the same store, registrations alternate between the two")
    cpa = CsvPaths()
    cpb = CsvPaths()
    for i, who in enumerate([cpa, cpb, cpb, cpa, cpa, cpb]):
        write_bytes("src/alt.csv", b"alt\n%d\n" % (i // 2))
        attempt(f"instance {'a' if who is cpa else 'b'} adds alt content {i // 2}", lambda: who.file_manager.add_named_file(name="alt", path="src/alt.csv"))
        for w, t in ((cpa, "a"), (cpb, "b")):
            attempt(f"   {t}.get_named_file('alt')", lambda: w.file_manager.get_named_file("alt"))
    for _ in manifest_lines("inputs/named_files/alt/manifest.json"):
        say(_)
    say("--- manifest deleted / emptied by hand between registrations")
    os.remove("inputs/named_files/alt/manifest.json")
    attempt("add alt after manifest deleted", lambda: cpa.file_manager.add_named_file(name="alt", path="src/alt.csv"))
    with open("inputs/named_files/alt/manifest.json", "w", encoding="utf-8") as f:
        f.write("[]")
    attempt("get_named_file('alt') on emptied manifest", lambda: cpa.file_manager.get_named_file("alt"))
    attempt("add alt after manifest emptied", lambda: cpa.file_manager.add_named_file(name="alt", path="src/alt.csv"))
    attempt("add alt repeat", lambda: cpb.file_manager.add_named_file(name="alt", path="src/alt.csv"))
    for _ in dump_tree("inputs/named_files/alt"):
        say(_)


# =====================================================================
# 4. bulk loading
# =====================================================================
def bulk():
    say("=" * 70)
    say("4. BULK LOADING")
    say("=" * 70)
    reset_store()
    cp = CsvPaths()
    fm = cp.file_manager
    write_bytes("src/d/one.csv", b"a\n1\n")
    write_bytes("src/d/two.tsv", b"a\tb\n1\t2\n")
    write_bytes("src/d/three.TXT", b"a\n3\n")
    write_bytes("src/d/skip.json", b"{}")
    write_bytes("src/d/skip.xlsx", b"PK")
    write_bytes("src/d/noext", b"a\n")
    write_bytes("src/d/two.parts.csv", b"a\n22\n")
    write_bytes("src/d/sub/inner.csv", b"a\n")
    # os.listdir order is not promised: make it promised
    real_listdir = os.listdir
    os.listdir = lambda p=".": sorted(real_listdir(p))
    try:
        attempt("add_named_files_from_dir('src/d')", lambda: fm.add_named_files_from_dir("src/d"))
        attempt("add_named_files_from_dir('src/d') again", lambda: fm.add_named_files_from_dir(dirname="src/d"))
        attempt("add_named_files_from_dir('src/none')", lambda: fm.add_named_files_from_dir("src/none"))
        show_state(cp, ["one", "two", "three", "skip", "noext", "two.parts", "sub", "inner"])
        say("--- set_named_files")
        attempt("set_named_files({})", lambda: fm.set_named_files({}))
        attempt(
            "set_named_files(three entries, one bad in the middle)",
            lambda: fm.set_named_files({"s1": "src/d/one.csv", "s2": "src/d/gone.csv", "s3": "src/d/two.tsv"}),
        )
        attempt("set_named_files(None)", lambda: fm.set_named_files(None))
        show_state(cp, ["s1", "s2", "s3"])
        say("--- set_named_files_from_json")
        write_bytes("src/good.json", json.dumps({"j1": "src/d/one.csv", "j2": "src/d/two.tsv#t"}).encode())
        write_bytes("src/bad.json", b"{not json")
        write_bytes("src/list.json", b'["src/d/one.csv"]')
        write_bytes("src/null.json", b"null")
        write_bytes("src/badpath.json", json.dumps({"j3": "src/d/gone.csv"}).encode())
        write_bytes("src/intpath.json", json.dumps({"j4": 5}).encode())
        write_bytes("src/empty.json", b"")
        write_bytes("src/latin.json", b'{"j5": "src/d/\xe9.csv"}')
        for j in ["good", "bad", "list", "null", "badpath", "intpath", "empty", "latin", "missing"]:
            cp.errors.clear() if hasattr(cp.errors, "clear") else None
            attempt(f"set_named_files_from_json('src/{j}.json')", lambda: fm.set_named_files_from_json(f"src/{j}.json"))
            say(f"   csvpaths.errors now: {len(cp.errors)}")
        show_state(cp, ["j1", "j2", "j3", "j4", "j5"])
    finally:
        os.listdir = real_listdir


# =====================================================================
# 5. runs against named files
# =====================================================================
def scrub(j, key=None):
    """takes the clock out of archive json"""
    if isinstance(j, dict):
        return {k: scrub(v, k) for k, v in j.items()}
    if isinstance(j, list):
        return [scrub(v, key) for v in j]
    if key is not None and "time" in str(key) and j is not None:
        return "<T>"
    if key in ("meta.json", "manifest.json") and isinstance(j, str):
        # fingerprints of files that hold times
        return "<fingerprint of a file holding times>"
    return j


def archive_listing():
    lines = []
    if not os.path.exists("archive"):
        return ["   <no archive>"]
    def runkey(d):
        # run dirs are <timestamp>[.n]; keep them in the order they were made
        m = re.fullmatch(r"(.*?)(?:[_.](\d+))?", d)
        if RUN.fullmatch(d) and m:
            return (m.group(1), -1 if m.group(2) is None else int(m.group(2)))
        return (d, -1)

    for dirpath, dirnames, filenames in os.walk("archive"):
        dirnames.sort(key=runkey)
        for fn in sorted(filenames):
            p = os.path.join(dirpath, fn)
            with open(p, "rb") as f:
                b = f.read()
            if fn.endswith(".json"):
                try:
                    j = json.loads(b.decode())
                    lines.append(f"   {p} :: {json.dumps(scrub(j), sort_keys=True)}")
                except Exception:  # pylint: disable=W0718
                    lines.append(f"   {p} :: unparsable {b!r}")
            else:
                lines.append(f"   {p} :: {b.decode(errors='replace')!r}")
    # run dirs sort by time so normalised names keep their order
    return lines


def runs():
    say("=" * 70)
    say("5. RUNS AGAINST NAMED FILES")
    say("=" * 70)
    reset_store()
    cp = CsvPaths()
    fm = cp.file_manager
    data1 = b"id,qty,note\n1,0,zero\n\n2,,empty\n3,7\n4,1,a,b\n,,\n5,0,\n"
    data2 = b"id,qty,note\n9,9,nine\n"
    write_bytes("src/f.csv", data1)
    attempt("add f", lambda: fm.add_named_file(name="f", path="src/f.csv"))
    attempt(
        "add paths",
        lambda: cp.paths_manager.add_named_paths(
            name="p",
            paths=[
                "~id:all~ $[*][yes() @n = count()]",
                '~id:zeros~ $[*][#qty == "0" print("zero at $.csvpath.line_number")]',
                "~id:empties~ $[*][not(#qty) @e = count()]",
            ],
        ),
    )

    def report(cpx, label):
        say(f"--- {label}")
        rs = attempt("get_named_results('p')", lambda: cpx.results_manager.get_named_results("p"), show=False)
        if isinstance(rs, BaseException) or rs is None:
            say(f"   results: {rs!r}")
            return
        for r in rs:
            say(f"   result {r.csvpath.identity}: valid={r.is_valid}")
            say(f"      variables={json.dumps(r.csvpath.variables, sort_keys=True, default=str)}")
            say(f"      errors={[str(e) for e in (r.errors or [])]} printouts={r.get_printouts() if hasattr(r, 'get_printouts') else None}")
            say(f"      file={r.csvpath.scanner.filename if r.csvpath.scanner else None}")

    def lines_of(cpx):
        rs = cpx.results_manager.get_named_results("p")
        out = []
        for r in rs:
            ls = r.lines
            try:
                ls = list(ls.next())
            except AttributeError:
                ls = list(ls) if ls is not None else None
            out.append((r.csvpath.identity, ls))
        return out

    attempt("collect_paths(f, p)", lambda: cp.collect_paths(filename="f", pathsname="p"))
    attempt("collected lines", lambda: lines_of(cp))
    report(cp, "after first run")
    attempt("collect_paths(f, p) again same instance", lambda: cp.collect_paths(filename="f", pathsname="p"))
    attempt("collected lines", lambda: lines_of(cp))
    say("--- source mutated but not re-registered: the run still sees v1")
    write_bytes("src/f.csv", data2)
    attempt("fast_forward_paths(f, p)", lambda: cp.fast_forward_paths(filename="f", pathsname="p"))
    report(cp, "after fast forward on v1")
    say("--- re-register: the run sees v2; a fresh instance too")
    attempt("add f v2", lambda: fm.add_named_file(name="f", path="src/f.csv"))
    attempt("collect_paths(f, p) v2", lambda: cp.collect_paths(filename="f", pathsname="p"))
    attempt("collected lines", lambda: lines_of(cp))
    cp2 = CsvPaths()
    attempt("fresh instance collect_paths(f, p)", lambda: cp2.collect_paths(filename="f", pathsname="p"))
    attempt("collected lines", lambda: lines_of(cp2))
    say("--- next_paths")
    attempt("next_paths", lambda: [l for l in cp2.next_paths(filename="f", pathsname="p")])
    say("--- by-line")
    attempt("collect_by_line", lambda: cp2.collect_by_line(filename="f", pathsname="p"))
    say("--- back to v1 bytes: the old hash file is reused")
    write_bytes("src/f.csv", data1)
    attempt("add f v1 again", lambda: fm.add_named_file(name="f", path="src/f.csv"))
    attempt("collect_paths(f, p)", lambda: cp.collect_paths(filename="f", pathsname="p"))
    attempt("collected lines", lambda: lines_of(cp))
    say("--- a reference to a previous run's data as a named file")
    attempt("get_named_file('$p.results.:last.all')", lambda: fm.get_named_file("$p.results.:last.all"))
    attempt("get_named_file('$p.results.:first.zeros')", lambda: fm.get_named_file("$p.results.:first.zeros"))
    attempt("get_named_file('$p.results.:last.nope')", lambda: fm.get_named_file("$p.results.:last.nope"))
    attempt("get_named_file('$q.results.:last.all')", lambda: fm.get_named_file("$q.results.:last.all"))
    attempt("get_named_file('$p.variables.n')", lambda: fm.get_named_file("$p.variables.n"))
    attempt("get_named_file('$')", lambda: fm.get_named_file("$"))
    attempt("get_fingerprint_for_name('$p.results.:last.all')", lambda: fm.get_fingerprint_for_name("$p.results.:last.all"))
    attempt("get_named_file_reader('$p.results.:last.all')", lambda: type(fm.get_named_file_reader("$p.results.:last.all")).__name__)
    attempt("collect_paths('$p.results.:last.all', p)", lambda: cp.collect_paths(filename="$p.results.:last.all", pathsname="p"))
    say("--- run against a name that is not there, and a removed one")
    attempt("collect_paths(nope, p)", lambda: cp.collect_paths(filename="nope", pathsname="p"))
    attempt("remove f", lambda: fm.remove_named_file("f"))
    attempt("collect_paths(f, p) after removal", lambda: cp.collect_paths(filename="f", pathsname="p"))
    say("--- store and archive at the end")
    show_state(cp, ["f"])
    for _ in archive_listing():
        say(_)
    say("--- the log mentions repeats this many times:")
    n = 0
    if os.path.exists("logs/csvpath.log"):
        with open("logs/csvpath.log", "r", encoding="utf-8", errors="replace") as f:
            for line in f:
                if "File has already been registered" in line:
                    n += 1
    say(f"   {n}")


def main():
    model_sequences()
    add_edges()
    registrar_direct()
    bulk()
    runs()
    say("DONE")


try:
    main()
finally:
    os.chdir("/")
    shutil.rmtree(WD, ignore_errors=True)
