"""Differential demonstration for property C05:
"Errors in match components are handled exactly as the error policy says".

Run with cwd = an empty scratch directory and PYTHONPATH = the csvpath tree
under test. The script is self-contained: it writes its own config/config.ini
(offline, no listeners), its own CSV files, and prints a deterministic
transcript of everything observable (timestamps, uuids, traceback line numbers
and absolute source paths are normalised).

Sections
  A  standalone CsvPath: all 64 subsets of the error policy x error kinds
  B  validation-mode comment overrides x base policies
  C  positions of offending lines, next()/fast_forward()/advance(), reruns
  D  detail dumps: full Error objects (incl. normalised traces, __str__, to_json)
  E  CsvPaths group runs (serial and by-line) with archive dumps
  F  unit level: ErrorCommsManager / ErrorHandler / Error
  G  unit level: Expression / Matcher error plumbing
  H  unit level: Args / ArgSet / Matchable helpers
"""
import contextlib
import hashlib
import io
import itertools
import json
import os
import re
import shutil
import sys

CONFIG_INI = """[csvpath_files]
extensions = txt, csvpath, csvpaths

[csv_files]
extensions = txt, csv, tsv, dat, tab, psv, ssv

[errors]
csvpath = {csvpath_policy}
csvpaths = {csvpaths_policy}

[logging]
csvpath = info
csvpaths = info
log_file = logs/csvpath.log
log_files_to_keep = 100
log_file_size = 52428800

[config]
path = config/config.ini

[cache]
path = cache

[listeners]
[marquez]
base_url = http://localhost:5000

[functions]
imports = config/functions.imports

[results]
archive = archive
transfers = transfers

[inputs]
files = inputs/named_files
csvpaths = inputs/named_paths
on_unmatched_file_fingerprints = halt
"""


def write_config(csvpath_policy="collect, fail, print", csvpaths_policy="raise, collect"):
    os.makedirs("config", exist_ok=True)
    with open("config/config.ini", "w", encoding="utf-8") as f:
        f.write(
            CONFIG_INI.format(
                csvpath_policy=csvpath_policy, csvpaths_policy=csvpaths_policy
            )
        )
    if not os.path.exists("config/functions.imports"):
        with open("config/functions.imports", "w", encoding="utf-8") as f:
            f.write("")


FILES = {
    "data.csv": "a,b,c,d\n1,2,3,abc\nx,0,5,de\n,,,\n\n4,,6,fgh\n7,8\n9,0,1,ij,extra\n2,1.5,8,k\n",
    "first.csv": "a,b\nx,1\n2,2\n3,3\n",
    "last.csv": "a,b\n1,1\n2,2\nx,3\n",
    "lastblank.csv": "a,b\n1,1\nx,2\n3,3\n\n",
    "all.csv": "a,b\nx,1\ny,2\nz,3\n",
    "none.csv": "a,b\n1,1\n2,0\n3,3\n",
    "headeronly.csv": "a,b\n",
    "zero.csv": "a,b\n0,0\n0,1\n1,0\n,0\n0,\n",
    "ragged.csv": "a,b,c\n1\n1,2\n1,2,3\n1,2,3,4\nx\n\n\n5,6,7\n",
}

FLAGS = ["raise", "collect", "stop", "fail", "print", "quiet"]


def write_files():
    for name, content in FILES.items():
        with open(name, "w", encoding="utf-8") as f:
            f.write(content)


# --------------------------------------------------------------------------
# normalisation helpers
# --------------------------------------------------------------------------
_TS = re.compile(r"\d{4}-\d\d-\d\d[_ T]\d\d[-:]\d\d[-:]\d\d(\.\d+)?(\+00:00)?")
_UUID = re.compile(r"[0-9a-f]{8}-[0-9a-f]{4}-[0-9a-f]{4}-[0-9a-f]{4}-[0-9a-f]{12}")
_ADDR = re.compile(r" at 0x[0-9a-fA-F]+>")


def norm_text(s):
    if s is None:
        return None
    s = _UUID.sub("<uuid>", s)
    s = _ADDR.sub(" at 0xADDR>", s)
    s = _TS.sub("<ts>", s)
    return s


def norm_trace(t):
    """keeps the sequence of frames (file, function, source text) and the
    final exception line; drops line numbers, absolute path prefixes and
    the caret marker lines."""
    if t is None:
        return None
    out = []
    for line in f"{t}".split("\n"):
        if line.strip() and set(line.strip()) <= set("^~"):
            continue
        line = re.sub(r'File ".*?/csvpath/', 'File "csvpath/', line)
        line = re.sub(r", line \d+, ", ", line N, ", line)
        out.append(line.rstrip())
    return norm_text("\n".join(out).strip())


def h(s):
    if s is None:
        return None
    return hashlib.sha1(f"{s}".encode("utf-8")).hexdigest()[:10]


def brief_error(e):
    return (e.line_count, type(e.error).__name__, norm_text(f"{e.error}"))


def full_error(e):
    d = {
        "line_count": e.line_count,
        "match_count": e.match_count,
        "scan_count": e.scan_count,
        "error_class": type(e.error).__name__,
        "exception_class": getattr(e, "exception_class", "<unset>"),
        "error": norm_text(f"{e.error}"),
        "cause": type(e.error.__cause__).__name__ if e.error is not None else None,
        "message": norm_text(e.message),
        "source": norm_text(f"{e.source}"),
        "filename": e.filename,
        "datum": e.datum,
        "json_sha": h(e.json),
        "json_len": len(e.json) if e.json is not None else None,
        "match": getattr(e, "match", "<unset>"),
        "trace": norm_trace(e.trace),
    }
    return d


def out(*args):
    print(*args)


def banner(s):
    out("")
    out("=" * 78)
    out(s)
    out("=" * 78)


# --------------------------------------------------------------------------
# a capturing printer
# --------------------------------------------------------------------------
from csvpath import CsvPath, CsvPaths  # noqa: E402
from csvpath.util.config import Config, OnError  # noqa: E402
from csvpath.util.printer import Printer  # noqa: E402
from csvpath.util.error import (  # noqa: E402
    Error,
    ErrorHandler,
    ErrorCommsManager,
    ErrorHandlingException,
)
from csvpath.util.exceptions import InputException  # noqa: E402
from csvpath.matching.util.exceptions import (  # noqa: E402
    MatchException,
    ChildrenException,
    DataException,
)


class Cap(Printer):
    def __init__(self):
        self.lines = []
        self._last = None

    @property
    def last_line(self):
        return self._last

    @property
    def lines_printed(self):
        return len(self.lines)

    def print(self, string):
        self.lines.append(string)
        self._last = string

    def print_to(self, name, string):
        self.lines.append(f"[{name}] {string}")
        self._last = string


def make_path(policy, *, print_default=False):
    cfg = Config()
    cfg.csvpath_errors_policy = list(policy)
    p = CsvPath(config=cfg, print_default=print_default)
    cap = Cap()
    p.add_printer(cap)
    return p, cap


def describe_exc(ex):
    s = f"{type(ex).__name__}: {norm_text(str(ex))}"
    c = ex.__cause__
    if c is not None:
        s += f" <- cause {type(c).__name__}: {norm_text(str(c))}"
    return s


def state(p, cap, stdout_text):
    errs = p.errors or []
    out("   valid=%s stopped=%s has_errors=%s" % (p.is_valid, p.stopped, p.has_errors()))
    out("   counts: scan=%s match=%s line=%s" % (
        p.scan_count,
        p.match_count,
        p.line_monitor.physical_line_number if p.scanner else None,
    ))
    out("   vars=%s" % json.dumps(p.variables, sort_keys=True, default=str))
    out("   errors(%d)=%s" % (len(errs), [brief_error(e) for e in errs]))
    out("   printer(%d)=%s" % (len(cap.lines), [norm_text(_) for _ in cap.lines]))
    out("   stdout=%r" % norm_text(stdout_text))


def run_collect(path, policy, *, method="collect"):
    p, cap = make_path(policy)
    buf = io.StringIO()
    lines = None
    exc = None
    with contextlib.redirect_stdout(buf):
        try:
            p.parse(path)
            if method == "collect":
                lines = p.collect()
            elif method == "fast_forward":
                p.fast_forward()
            elif method == "next":
                lines = []
                for line in p.next():
                    lines.append(list(line))
            else:
                raise ValueError(method)
        except Exception as ex:  # pylint: disable=W0718
            exc = ex
    out("   method=%s returned=%s" % (method, lines if lines is None else [list(_) for _ in lines]))
    out("   exception=%s" % (describe_exc(exc) if exc else None))
    state(p, cap, buf.getvalue())
    return p


# --------------------------------------------------------------------------
# A. all 64 policy subsets x error kinds
# --------------------------------------------------------------------------
KINDS = [
    ("arg-type mismatch", "$data.csv[1*][ @s = add(#a, 1) ]"),
    ("lenient comparison (gt tolerates a str): no error", "$data.csv[1*][ gt(length(#d), #a) ]"),
    ("multi-argset mismatch", "$data.csv[1*][ between(#a, 0, 10) ]"),
    ("function rule via raise (DataException)", "$data.csv[1*][ @t = substring(#d, -1) ]"),
    ("function rule via raise_if", '$data.csv[1*][ decimal.strict("b") ]'),
    ("function rule notnone", '$data.csv[1*][ integer.notnone("b") ]'),
    ("python exception", "$data.csv[1*][ @m = mod(#c, #b) ]"),
    ("nested right-hand of when/do", "$data.csv[1*][ yes() -> @z = mod(#c, #b) ]"),
    ("nested in or()", '$data.csv[1*][ or(add(#a,1)==2, #b=="0") ]'),
    ("nested in not()", "$data.csv[1*][ not(add(#a,1)==2) ]"),
    ("second of three components", "$data.csv[1*][ @n=count_lines() @s=add(#a,1) @after=line_number() ]"),
    ("no error at all", "$data.csv[1*][ @n=count_lines() #b ]"),
]


def all_subsets():
    for r in range(len(FLAGS) + 1):
        for c in itertools.combinations(FLAGS, r):
            yield list(c)


def section_a():
    banner("A. standalone CsvPath: 64 policy subsets x error kinds")
    for kind, path in KINDS:
        for policy in all_subsets():
            out("-- [%s] %s policy=%s" % (kind, path, policy))
            run_collect(path, policy)


# --------------------------------------------------------------------------
# B. validation-mode overrides
# --------------------------------------------------------------------------
MODES = [
    "raise",
    "no-raise",
    "print",
    "no-print",
    "stop",
    "no-stop",
    "fail",
    "no-fail",
    "match",
    "no-match",
    "no-raise, no-print, no-stop, no-fail",
    "raise, print, stop, fail",
    "no-raise, match",
    "raise, match",
    "no-raise, no-match, fail",
    "no-raise, print, stop",
    "collect",
    "log",
]

BASES = [
    [],
    ["raise"],
    ["collect"],
    ["raise", "collect", "stop", "fail", "print"],
    ["collect", "stop", "fail", "print", "quiet"],
    ["quiet", "print"],
]

MODE_PATHS = [
    "$data.csv[1*][ @s = add(#a, 1) ]",
    '$data.csv[1*][ decimal.strict("b") ]',
    "$data.csv[1*][ @m = mod(#c, #b) ]",
    "$data.csv[1*][ @n=count_lines() not(add(#a,1)==2) @after=line_number() ]",
]


def section_b():
    banner("B. validation-mode overrides x base policies")
    for path in MODE_PATHS:
        for mode in MODES:
            for base in BASES:
                full = f"~ id: vm validation-mode: {mode} ~ {path}"
                out("-- %s policy=%s" % (full, base))
                run_collect(full, base)


# --------------------------------------------------------------------------
# C. positions, methods, reruns
# --------------------------------------------------------------------------
POS_FILES = [
    "first.csv",
    "last.csv",
    "lastblank.csv",
    "all.csv",
    "none.csv",
    "headeronly.csv",
    "zero.csv",
    "ragged.csv",
]
POS_POLICIES = [
    ["collect", "print"],
    ["stop", "collect"],
    ["fail"],
    ["raise", "collect", "print"],
    ["collect", "stop", "fail", "print"],
    [],
]


def section_c():
    banner("C. positions of offending lines; collect / next / fast_forward")
    for fname in POS_FILES:
        for tmpl in (
            "${f}[*][ @s = add(#a, 1) ]",
            "${f}[1*][ @q = divide(#a, #b) @l = line_number() ]",
            "${f}[1*][ last() -> @v = add(#a, 1) ]",
            "${f}[1*][ @i = int(#a) last.nocontrib() -> @done = subtract(#b, 1) ]",
        ):
            path = tmpl.replace("{f}", fname)
            for policy in POS_POLICIES:
                for method in ("collect", "next", "fast_forward"):
                    out("-- %s policy=%s" % (path, policy))
                    run_collect(path, policy, method=method)
    #
    # stepping with next(): state after every yielded line
    #
    out("")
    out("-- stepping next() and observing state between lines")
    for policy in (["collect", "print"], ["collect", "stop"], ["collect", "fail"], ["raise"]):
        p, cap = make_path(policy)
        buf = io.StringIO()
        with contextlib.redirect_stdout(buf):
            try:
                p.parse("$data.csv[*][ @s = add(#a, 1) ]")
                for line in p.next():
                    out(
                        "   yielded %s | valid=%s stopped=%s errors=%d printed=%d vars=%s"
                        % (
                            list(line),
                            p.is_valid,
                            p.stopped,
                            len(p.errors or []),
                            len(cap.lines),
                            json.dumps(p.variables, sort_keys=True, default=str),
                        )
                    )
            except Exception as ex:  # pylint: disable=W0718
                out("   exception=%s" % describe_exc(ex))
        out("   policy=%s final:" % policy)
        state(p, cap, buf.getvalue())
    #
    # advance past the offending line; collect with a limit
    #
    out("")
    out("-- advance() and collect(nexts=N)")
    for policy in (["collect", "print"], ["collect", "stop", "fail"]):
        p, cap = make_path(policy)
        buf = io.StringIO()
        with contextlib.redirect_stdout(buf):
            p.parse("$data.csv[*][ @s = add(#a, 1) ]")
            got = []
            try:
                for line in p.next():
                    got.append(list(line))
                    if len(got) == 1:
                        p.advance(2)
            except Exception as ex:  # pylint: disable=W0718
                out("   exception=%s" % describe_exc(ex))
        out("   policy=%s advance got=%s" % (policy, got))
        state(p, cap, buf.getvalue())
        p, cap = make_path(policy)
        buf = io.StringIO()
        with contextlib.redirect_stdout(buf):
            p.parse("$data.csv[1*][ @s = add(#a, 1) ]")
            try:
                got = p.collect(nexts=2)
            except Exception as ex:  # pylint: disable=W0718
                got = None
                out("   exception=%s" % describe_exc(ex))
        out("   policy=%s collect(nexts=2) got=%s" % (policy, got))
        state(p, cap, buf.getvalue())
    #
    # repeated runs with fresh instances sharing one Config give equal results
    #
    out("")
    out("-- repeated runs sharing one Config")
    cfg = Config()
    cfg.csvpath_errors_policy = ["collect", "fail", "print"]
    for i in range(3):
        p = CsvPath(config=cfg, print_default=False)
        cap = Cap()
        p.add_printer(cap)
        buf = io.StringIO()
        with contextlib.redirect_stdout(buf):
            p.parse("$zero.csv[1*][ @d = mod(#a, #b) ]")
            lines = p.collect()
        out("   run %d lines=%s" % (i, lines))
        state(p, cap, buf.getvalue())
    #
    # OR logic and return-mode no-matches
    #
    out("")
    out("-- logic-mode OR and return-mode no-matches")
    for comment in ("logic-mode: OR", "return-mode: no-matches", "logic-mode: OR return-mode: no-matches"):
        for policy in (["collect"], ["collect", "stop"], ["raise"]):
            path = f'~ {comment} ~ $data.csv[1*][ add(#a,1)==2 #b=="0" ]'
            out("-- %s policy=%s" % (path, policy))
            run_collect(path, policy)
    #
    # structural (pre-run) validation errors go through the same handler
    #
    out("")
    out("-- structural validation errors at parse time")
    for path in (
        "$data.csv[*][ add(1) ]",
        "$data.csv[*][ substring() ]",
        '$data.csv[*][ @a = add(1, 2) line(string.notnone(#b)) ]',
        '~ validation-mode: no-raise, no-print ~ $data.csv[*][ add(1) ]',
        '~ validation-mode: raise ~ $data.csv[*][ add(1) ]',
    ):
        for policy in ([], ["raise"], ["collect", "print"], ["collect", "stop", "fail", "print", "quiet"]):
            out("-- %s policy=%s" % (path, policy))
            run_collect(path, policy)


# --------------------------------------------------------------------------
# D. detail dumps
# --------------------------------------------------------------------------
def section_d():
    banner("D. full Error objects")
    for path in (
        "$data.csv[1*][ @s = add(#a, 1) ]",
        '$data.csv[1*][ decimal.strict("b") ]',
        "$data.csv[1*][ @t = substring(#d, -1) ]",
        "$data.csv[1*][ yes() -> @z = mod(#c, #b) ]",
        '$data.csv[1*][ or(add(#a,1)==2, #b=="0") ]',
        "$lastblank.csv[1*][ last() -> @v = add(#a, 1) ]",
        "$data.csv[*][ add(1) ]",
    ):
        for policy in (["collect"], ["collect", "quiet", "stop"]):
            out("-- %s policy=%s" % (path, policy))
            p = run_collect(path, policy)
            for e in p.errors or []:
                d = full_error(e)
                out("   ERROR " + json.dumps(d, sort_keys=True, default=str, indent=1).replace("\n", "\n   "))
                sj = e.to_json()
                out("   to_json keys=%s" % sorted(sj.keys()))
                out("   to_json line_count=%s error=%s source=%s message=%s datum=%s filename=%s" % (
                    sj["line_count"], norm_text(sj["error"]), norm_text(sj["source"]), sj["message"], sj["datum"], sj["filename"]))
                s = f"{e}"
                # __str__ embeds the datetime and the raw trace; normalise both
                s = norm_trace(s)
                out("   __str__ sha-free text:")
                for ln in s.split("\n"):
                    out("      | " + ln)
    #
    # the raised MatchException and its cause
    #
    out("")
    out("-- raised exception chain")
    for path in (
        "$data.csv[1*][ @s = add(#a, 1) ]",
        "$data.csv[1*][ @m = mod(#c, #b) ]",
        '$data.csv[1*][ integer.notnone("b") ]',
    ):
        p, cap = make_path(["raise", "collect", "print"])
        buf = io.StringIO()
        with contextlib.redirect_stdout(buf):
            try:
                p.parse(path)
                p.fast_forward()
                out("   no exception")
            except MatchException as ex:
                out("   %s" % describe_exc(ex))
                out("   cause attrs: source=%s has_trace=%s has_json=%s" % (
                    norm_text(f"{getattr(ex.__cause__, 'source', None)}"),
                    hasattr(ex.__cause__, "trace"),
                    hasattr(ex.__cause__, "json"),
                ))
                out("   cause trace:")
                for ln in (norm_trace(getattr(ex.__cause__, "trace", "")) or "").split("\n"):
                    out("      | " + ln)
        state(p, cap, buf.getvalue())


# --------------------------------------------------------------------------
# E. CsvPaths group runs
# --------------------------------------------------------------------------
DROP_KEYS = {
    "time",
    "uuid",
    "named_paths_uuid",
    "run",
    "run_time",
    "run_started_at",
    "named_file_last_change",
    "lines_time",
    "last_line_time",
    "at",
    "total_iteration_time",
    "rows_time",
    "last_row_time",
}


def norm_json(o, key=None):
    if isinstance(o, dict):
        r = {}
        for k, v in o.items():
            if k in DROP_KEYS:
                r[k] = "<dropped>"
            elif k == "trace":
                r[k] = norm_trace(v)
            elif k == "file_fingerprints" and isinstance(v, dict):
                r[k] = sorted(v.keys())
            elif k == "json":
                r[k] = h(v)
            else:
                r[k] = norm_json(v, k)
        return r
    if isinstance(o, list):
        return [norm_json(_, key) for _ in o]
    if isinstance(o, str):
        return norm_text(o)
    return o


def norm_run_dir(name, seen):
    # run dirs are <timestamp> or, for a second run within the same second,
    # <timestamp>.N -- whether two runs share a second is a matter of timing,
    # so the suffix is dropped too.
    if re.match(r"^\d{4}-\d\d-\d\d_\d\d-\d\d-\d\d(\.\d+)?$", name):
        return "<run>"
    return name


def dump_archive(root="archive"):
    if not os.path.exists(root):
        out("   (no archive)")
        return
    for dirpath, dirnames, filenames in os.walk(root):
        dirnames.sort()
        filenames.sort()
        rel = "/".join(norm_run_dir(part, None) for part in dirpath.split(os.sep))
        out("   DIR %s" % rel)
        for fn in filenames:
            full = os.path.join(dirpath, fn)
            with open(full, "r", encoding="utf-8") as f:
                content = f.read()
            out("   FILE %s/%s (%s)" % (rel, fn, "empty" if content == "" else "non-empty"))
            if fn.endswith(".json"):
                try:
                    j = norm_json(json.loads(content))
                    text = json.dumps(j, sort_keys=True, indent=1, default=str)
                except Exception as ex:  # pylint: disable=W0718
                    text = "UNPARSEABLE: " + norm_text(content)
            else:
                text = norm_text(content)
            for ln in text.split("\n"):
                out("      | " + ln)


def fresh_group_dirs():
    for d in ("archive", "inputs", "cache", "transfers"):
        if os.path.exists(d):
            shutil.rmtree(d)


GROUP_PATHS = [
    "~ id: ok ~ $[*][ @n = count_lines() yes() ]",
    "~ id: argerr ~ $[1*][ @s = add(#a, 1) ]",
    '~ id: rule validation-mode: no-raise, no-stop ~ $[1*][ decimal.strict("b") ]',
    "~ id: pyerr validation-mode: no-raise, print, fail ~ $[1*][ yes() -> @m = mod(#c, #b) ]",
    '~ id: quietone validation-mode: no-raise, no-print, no-fail, no-stop ~ $[1*][ not(add(#a,1)==2) ]',
    "~ id: matcher validation-mode: no-raise, match ~ $[1*][ @s = add(#a, 1) ]",
    "~ id: tail ~ $[*][ @n = count_lines() #b ]",
]

GROUP_POLICIES = [
    ("collect, fail, print", "raise, collect"),
    ("raise, collect, stop, fail, print", "raise, collect"),
    ("collect, stop", "collect"),
    ("quiet, collect", "collect, print"),
    ("print", "quiet"),
]


def group_run(method, csvpath_policy, csvpaths_policy):
    fresh_group_dirs()
    write_config(csvpath_policy, csvpaths_policy)
    out("-- CsvPaths.%s csvpath policy=[%s] csvpaths policy=[%s]" % (method, csvpath_policy, csvpaths_policy))
    buf = io.StringIO()
    exc = None
    got = None
    with contextlib.redirect_stdout(buf):
        cp = CsvPaths()
        cp.file_manager.add_named_file(name="data", path="data.csv")
        cp.paths_manager.add_named_paths(name="grp", paths=GROUP_PATHS)
        try:
            if method == "collect_paths":
                cp.collect_paths(filename="data", pathsname="grp")
            elif method == "fast_forward_paths":
                cp.fast_forward_paths(filename="data", pathsname="grp")
            elif method == "next_paths":
                got = [list(_) for _ in cp.next_paths(filename="data", pathsname="grp")]
            elif method == "collect_by_line":
                cp.collect_by_line(filename="data", pathsname="grp")
            elif method == "fast_forward_by_line":
                cp.fast_forward_by_line(filename="data", pathsname="grp")
            elif method == "next_by_line":
                got = [list(_) for _ in cp.next_by_line(filename="data", pathsname="grp")]
            else:
                raise ValueError(method)
        except Exception as ex:  # pylint: disable=W0718
            exc = ex
    out("   exception=%s" % (describe_exc(exc) if exc else None))
    out("   yielded=%s" % got)
    out("   stdout=%r" % norm_text(buf.getvalue()))
    try:
        results = cp.results_manager.get_named_results("grp")
    except Exception as ex:  # pylint: disable=W0718
        results = []
        out("   get_named_results raised %s" % describe_exc(ex))
    for r in results:
        c = r.csvpath
        try:
            nlines = len(r.lines) if r.lines is not None else None
        except Exception as ex:  # pylint: disable=W0718
            nlines = "len raised " + type(ex).__name__
        out(
            "   RESULT id=%s valid=%s stopped=%s nlines=%s vars=%s"
            % (
                c.identity,
                r.is_valid,
                c.stopped,
                nlines,
                json.dumps(r.variables, sort_keys=True, default=str),
            )
        )
        out("      errors=%s" % [brief_error(e) for e in (r.errors or [])])
        out("      has_errors=%s errors_count=%s" % (r.has_errors(), r.errors_count))
        pr = r.get_printouts() or {}
        out("      printouts=%s" % {k: [norm_text(_) for _ in pr[k]] for k in sorted(pr.keys())})
    dump_archive()


def section_e():
    banner("E. CsvPaths group runs with archive dumps")
    for cpol, cspol in GROUP_POLICIES:
        for method in (
            "collect_paths",
            "fast_forward_paths",
            "next_paths",
            "collect_by_line",
            "fast_forward_by_line",
            "next_by_line",
        ):
            group_run(method, cpol, cspol)
    #
    # a second run into the same archive
    #
    out("")
    out("-- two runs, same archive")
    fresh_group_dirs()
    write_config("collect, fail, print", "raise, collect")
    buf = io.StringIO()
    with contextlib.redirect_stdout(buf):
        cp = CsvPaths()
        cp.file_manager.add_named_file(name="zero", path="zero.csv")
        cp.paths_manager.add_named_paths(
            name="two",
            paths=["~ id: m ~ $[1*][ @d = mod(#a, #b) ]", "~ id: n ~ $[1*][ @i = int(#a) ]"],
        )
        cp.collect_paths(filename="zero", pathsname="two")
        cp.collect_paths(filename="zero", pathsname="two")
    out("   stdout=%r" % norm_text(buf.getvalue()))
    dump_archive()
    fresh_group_dirs()
    write_config()


# --------------------------------------------------------------------------
# F. unit level: error.py
# --------------------------------------------------------------------------
class FakeLogger:
    def __init__(self, log):
        self.log = log

    def debug(self, msg, *a):
        self.log.append(("debug", norm_trace(norm_text(msg % a if a else msg))))

    def info(self, msg, *a):
        self.log.append(("info", norm_trace(norm_text(msg % a if a else msg))))

    def warning(self, msg, *a):
        self.log.append(("warning", norm_trace(norm_text(msg % a if a else msg))))

    def error(self, msg, *a):
        self.log.append(("error", norm_trace(norm_text(msg % a if a else msg))))


class FakeConfig:
    def __init__(self, cpol, cspol):
        self.csvpath_errors_policy = cpol
        self.csvpaths_errors_policy = cspol


class FakeLineMonitor:
    physical_line_number = 7


class FakeScanner:
    filename = "fake.csv"


class FakeCsvPath:
    """just enough of CsvPath for ErrorHandler / ErrorCommsManager."""

    def __init__(self, cpol, *, r=None, p=None, s=None, f=None, log=None, lm=True, scanner=True):
        self.config = FakeConfig(cpol, ["csvpaths-policy-unused"])
        self.raise_validation_errors = r
        self.print_validation_errors = p
        self.stop_on_validation_errors = s
        self.fail_on_validation_errors = f
        self.log = log if log is not None else []
        self.logger = FakeLogger(self.log)
        self.stopped = False
        self.is_valid = True
        self.collected = []
        self.printed = []
        self.line_monitor = FakeLineMonitor() if lm else None
        self.scanner = FakeScanner() if scanner else None
        self.match_count = 3
        self.scan_count = 4
        self.match = "[fake()]"

    def collect_error(self, e):
        self.log.append(("collect", brief_error(e)))
        self.collected.append(e)

    def print(self, s):
        self.log.append(("print", s))
        self.printed.append(s)


class FakeCsvPaths:
    def __init__(self, cspol, log=None):
        self.config = FakeConfig(["csvpath-policy-unused"], cspol)
        self.log = log if log is not None else []
        self.logger = FakeLogger(self.log)
        self.collected = []

    def collect_error(self, e):
        self.log.append(("collect@csvpaths", brief_error(e)))
        self.collected.append(e)


class FakeCollector:
    def __init__(self, log):
        self.log = log

    def collect_error(self, e):
        self.log.append(("collect@collector", brief_error(e)))


TRI = [None, True, False]


def section_f():
    banner("F. unit level: ErrorCommsManager / ErrorHandler / Error")
    out("-- ErrorCommsManager requires an owner")
    for kw in ({}, {"csvpath": None, "csvpaths": None}, {"csvpath": 0}, {"csvpaths": ""}):
        try:
            ErrorCommsManager(**kw)
            out("   %s -> constructed" % kw)
        except ErrorHandlingException as ex:
            out("   %s -> %s" % (kw, describe_exc(ex)))
    out("-- ErrorCommsManager decisions: csvpath owner, overrides x policies")
    for policy in all_subsets():
        for ov in TRI:
            c = FakeCsvPath(policy, r=ov, p=ov, s=ov, f=ov)
            m = ErrorCommsManager(csvpath=c)
            out(
                "   policy=%s override=%s -> raise=%r print=%r stop=%r fail=%r"
                % (policy, ov, m.do_i_raise(), m.do_i_print(), m.do_i_stop(), m.do_i_fail())
            )
    out("-- each override is independent of the others")
    for r, p, s, f in itertools.product(TRI, repeat=4):
        c = FakeCsvPath(["raise", "stop"], r=r, p=p, s=s, f=f)
        m = ErrorCommsManager(csvpath=c)
        out(
            "   r=%s p=%s s=%s f=%s -> raise=%r print=%r stop=%r fail=%r"
            % (r, p, s, f, m.do_i_raise(), m.do_i_print(), m.do_i_stop(), m.do_i_fail())
        )
    out("-- non-bool override values are passed through unchanged")
    for v in (0, 1, "", "yes", [], [0]):
        c = FakeCsvPath(["raise", "print", "stop", "fail"], r=v, p=v, s=v, f=v)
        m = ErrorCommsManager(csvpath=c)
        out("   override=%r -> raise=%r print=%r stop=%r fail=%r" % (v, m.do_i_raise(), m.do_i_print(), m.do_i_stop(), m.do_i_fail()))
    out("-- the policy is captured at construction; overrides are read at call time")
    c = FakeCsvPath(["raise"])
    m = ErrorCommsManager(csvpath=c)
    out("   before: raise=%r stop=%r" % (m.do_i_raise(), m.do_i_stop()))
    c.config.csvpath_errors_policy = ["stop"]
    out("   after replacing policy list: raise=%r stop=%r" % (m.do_i_raise(), m.do_i_stop()))
    c.stop_on_validation_errors = True
    c.raise_validation_errors = False
    out("   after setting overrides: raise=%r stop=%r" % (m.do_i_raise(), m.do_i_stop()))
    out("-- ErrorCommsManager decisions: csvpaths owner")
    for policy in all_subsets():
        m = ErrorCommsManager(csvpaths=FakeCsvPaths(policy))
        out(
            "   policy=%s -> raise=%r print=%r stop=%r fail=%r"
            % (policy, m.do_i_raise(), m.do_i_print(), m.do_i_stop(), m.do_i_fail())
        )
    out("-- a csvpath wins over a csvpaths when both are given")
    m = ErrorCommsManager(csvpath=FakeCsvPath(["fail"]), csvpaths=FakeCsvPaths(["raise"]))
    out("   raise=%r fail=%r" % (m.do_i_raise(), m.do_i_fail()))

    def an_exception(kind):
        try:
            if kind == "zero":
                1 / 0
            elif kind == "children":
                raise ChildrenException("[id] Line 7: bad child")
            elif kind == "data":
                raise DataException("datum problem")
            elif kind == "decorated":
                ex = ValueError("decorated")
                ex.json = '{"a": 1}'
                ex.datum = "the datum"
                ex.message = "a message"
                ex.trace = "a trace"
                ex.source = "a source"
                raise ex
            elif kind == "emptydatum":
                ex = ValueError("emptydatum")
                ex.datum = ""
                ex.message = ""
                ex.trace = None
                raise ex
        except Exception as e:  # pylint: disable=W0718
            return e
        return None

    out("-- ErrorHandler with a csvpath owner: order of effects for every policy subset")
    for policy in all_subsets():
        for ov in (None, True, False):
            log = []
            c = FakeCsvPath(policy, r=ov, p=ov, s=ov, f=ov, log=log)
            hdl = ErrorHandler(csvpath=c, error_collector=c)
            res = "returned"
            try:
                ret = hdl.handle_error(an_exception("children"))
                res = "returned %r" % ret
            except Exception as ex:  # pylint: disable=W0718
                res = "raised " + describe_exc(ex)
            effects = [(k, v) for (k, v) in log if k in ("collect", "print")]
            logs = [(k, h(v)) for (k, v) in log if k not in ("collect", "print")]
            out(
                "   policy=%s ov=%s -> %s | stopped=%s valid=%s effects=%s loglevels=%s"
                % (policy, ov, res, c.stopped, c.is_valid, effects, [k for k, _ in logs])
            )
    out("-- ErrorHandler log lines (quiet vs not) in full")
    for policy in (["quiet"], ["collect"], ["quiet", "collect", "print", "stop", "fail"]):
        for kind in ("zero", "children", "data", "decorated", "emptydatum"):
            log = []
            c = FakeCsvPath(policy, log=log)
            ErrorHandler(csvpath=c, error_collector=FakeCollector(log)).handle_error(an_exception(kind))
            out("   policy=%s kind=%s stopped=%s valid=%s" % (policy, kind, c.stopped, c.is_valid))
            for k, v in log:
                for ln in f"{v}".split("\n"):
                    out("      %s | %s" % (k, ln))
    out("-- ErrorHandler with only a csvpaths owner")
    for policy in all_subsets():
        log = []
        cs = FakeCsvPaths(policy, log=log)
        hdl = ErrorHandler(csvpaths=cs)
        try:
            hdl.handle_error(an_exception("zero"))
            res = "returned"
        except Exception as ex:  # pylint: disable=W0718
            res = "raised " + describe_exc(ex)
        out("   policy=%s -> %s" % (policy, res))
        for k, v in log:
            for ln in f"{v}".split("\n"):
                out("      %s | %s" % (k, ln))
    out("-- ErrorHandler with csvpaths + csvpath + separate collector")
    for cpol, cspol in ((["collect", "print", "stop", "fail"], ["raise"]), (["raise"], ["collect"]), ([], [])):
        log = []
        c = FakeCsvPath(cpol, log=log)
        cs = FakeCsvPaths(cspol, log=log)
        hdl = ErrorHandler(csvpaths=cs, csvpath=c, error_collector=FakeCollector(log))
        try:
            hdl.handle_error(an_exception("data"))
            res = "returned"
        except Exception as ex:  # pylint: disable=W0718
            res = "raised " + describe_exc(ex)
        out("   cpol=%s cspol=%s -> %s stopped=%s valid=%s kinds=%s" % (cpol, cspol, res, c.stopped, c.is_valid, [k for k, _ in log]))
    out("-- ErrorHandler default collectors and failure modes")
    try:
        ErrorHandler()
        out("   constructed")
    except ErrorHandlingException as ex:
        out("   no owner -> %s" % describe_exc(ex))
    try:
        ErrorHandler(error_collector=FakeCollector([]))
        out("   constructed")
    except ErrorHandlingException as ex:
        out("   collector only -> %s" % describe_exc(ex))
    log = []
    c = FakeCsvPath(["collect"], log=log)
    ErrorHandler(csvpath=c).handle_error(an_exception("zero"))
    out("   csvpath is its own default collector: %s" % [k for k, _ in log if k.startswith("collect")])
    log = []
    cs = FakeCsvPaths(["collect"], log=log)
    c = FakeCsvPath(["collect"], log=log)
    ErrorHandler(csvpaths=cs, csvpath=c).handle_error(an_exception("zero"))
    out("   csvpaths is the default collector when both are given: %s" % [k for k, _ in log if k.startswith("collect")])
    hdl = ErrorHandler(csvpath=FakeCsvPath(["collect"]))
    for pol in (["collect"], ["quiet"], []):
        try:
            hdl._handle_if(policy=pol, error=None)
            out("   _handle_if(None) returned")
        except InputException as ex:
            out("   _handle_if(policy=%s, error=None) -> %s" % (pol, describe_exc(ex)))
    out("-- ErrorHandler.build")
    for kind in ("zero", "children", "data", "decorated", "emptydatum"):
        for lm, sc in ((True, True), (False, True), (True, False)):
            c = FakeCsvPath(["collect"], lm=lm, scanner=sc)
            e = ErrorHandler(csvpath=c).build(an_exception(kind))
            out("   kind=%s lm=%s scanner=%s -> %s" % (kind, lm, sc, json.dumps(full_error(e), sort_keys=True, default=str)))
        e = ErrorHandler(csvpaths=FakeCsvPaths(["collect"])).build(an_exception(kind))
        out("   kind=%s csvpaths-only -> %s" % (kind, json.dumps(full_error(e), sort_keys=True, default=str)))
    out("-- Error.__str__ / to_json on a bare Error")
    e = Error()
    e.at = "<at>"
    out(json.dumps(e.to_json(), sort_keys=True, default=str))
    for ln in f"{e}".split("\n"):
        out("      | " + ln)
    e.line_count = 0
    e.scan_count = 0
    e.match_count = 0
    e.datum = 0
    e.message = ""
    e.trace = ""
    for ln in f"{e}".split("\n"):
        out("      | " + ln)


# --------------------------------------------------------------------------
# G. unit level: Expression / Matcher plumbing
# --------------------------------------------------------------------------
def section_g():
    banner("G. unit level: Expression / Matcher error plumbing")
    from csvpath.matching.productions.expression import Expression

    for policy in (["collect", "print"], ["raise", "collect"], ["collect", "stop", "fail"]):
        for vm in (None, "match", "no-match"):
            comment = f"~ validation-mode: {vm} ~ " if vm else ""
            p, cap = make_path(policy)
            buf = io.StringIO()
            with contextlib.redirect_stdout(buf):
                p.parse(comment + "$data.csv[1*][ @n = count_lines() @s = add(#a, 1) ]")
                m = p.matcher
                it = p.next()
                got = []
                try:
                    got.append(list(next(it)))
                except StopIteration:
                    pass
                except Exception as ex:  # pylint: disable=W0718
                    out("   exception=%s" % describe_exc(ex))
            m = p.matcher
            out("-- policy=%s validation-mode=%s first yielded=%s" % (policy, vm, got))
            if m is None:
                out("   no matcher")
                continue
            exprs = [et[0] for et in m.expressions]
            out("   expressions=%s" % [f"{x}" for x in exprs])
            out("   all Expression=%s pending errors=%s" % (all(isinstance(x, Expression) for x in exprs), [len(x.errors) for x in exprs]))
            #
            # drive a single expression by hand: feed it errors and flush them
            #
            x = exprs[-1]
            x.reset()
            out("   after reset: match=%s errors=%s" % (x.match, x.errors))
            x.handle_error(ChildrenException("hand made 1"))
            x.handle_error(DataException("hand made 2"))
            before = len(p.errors or [])
            kept = x.errors
            try:
                x.handle_errors_if()
                res = "returned"
            except Exception as ex:  # pylint: disable=W0718
                res = "raised " + describe_exc(ex)
            out("   handle_errors_if %s; expression errors now=%s (new list=%s); collected +%d; printer=%s; valid=%s stopped=%s" % (
                res, x.errors, x.errors is not kept, len(p.errors or []) - before, [norm_text(_) for _ in cap.lines][-2:], p.is_valid, p.stopped))
            #
            # with pending errors matches() yields False unless validation-mode says match
            #
            x.reset()
            x.match = True
            out("   matches() with match preset True and no errors -> %s" % x.matches(skip=[]))
            x.handle_error(ChildrenException("hand made 3"))
            out("   matches() with match preset True and one error -> %s" % x.matches(skip=[]))
            out("   matches(skip=[x]) -> %s (errors still pending=%d)" % (x.matches(skip=[x]), len(x.errors)))
            x.reset()
            out("   str(stdout)=%r" % norm_text(buf.getvalue()))
    #
    # Matcher.clear_errors flushes every expression, in order
    #
    p, cap = make_path(["collect", "print"])
    buf = io.StringIO()
    with contextlib.redirect_stdout(buf):
        p.parse("$data.csv[1*][ @a = count_lines() @b = line_number() @c = count() ]")
        it = p.next()
        next(it)
        m = p.matcher
        for i, et in enumerate(m.expressions):
            et[0].handle_error(ChildrenException(f"expr {i} a"))
            et[0].handle_error(ChildrenException(f"expr {i} b"))
        m.clear_errors()
    out("-- clear_errors order: %s" % [brief_error(e) for e in p.errors])
    out("   printer=%s" % cap.lines)
    out("   pending=%s" % [len(et[0].errors) for et in m.expressions])
    #
    # raising policy: the first pending error raises, the others of that
    # expression are dropped, later expressions keep theirs
    #
    p, cap = make_path(["raise", "collect"])
    buf = io.StringIO()
    with contextlib.redirect_stdout(buf):
        p.parse("$data.csv[1*][ @a = count_lines() @b = line_number() ]")
        it = p.next()
        next(it)
        m = p.matcher
        for i, et in enumerate(m.expressions):
            et[0].handle_error(ChildrenException(f"expr {i} a"))
            et[0].handle_error(ChildrenException(f"expr {i} b"))
        try:
            m.clear_errors()
            out("   no raise")
        except MatchException as ex:
            out("-- clear_errors under raise: %s" % describe_exc(ex))
    out("   collected=%s" % [brief_error(e) for e in p.errors])
    out("   pending=%s" % [len(et[0].errors) for et in m.expressions])


# --------------------------------------------------------------------------
# H. unit level: Args / ArgSet / Matchable helpers
# --------------------------------------------------------------------------
import logging  # noqa: E402


class _ListHandler(logging.Handler):
    """collects the text of ERROR (and above) records"""

    def __init__(self, records):
        super().__init__(level=logging.ERROR)
        self.records = records

    def emit(self, record):
        self.records.append(record.getMessage())


def section_h():
    banner("H. unit level: Args / ArgSet / Matchable helpers")
    from typing import Any
    from csvpath.matching.functions.args import Args, ArgSet, Arg
    from csvpath.matching.functions.function import Function
    from csvpath.matching.productions import Term, Header, Variable

    def find(node, name):
        stack = [node]
        while stack:
            n = stack.pop(0)
            if isinstance(n, Function) and n.name == name:
                return n
            stack += n.children
        return None

    for policy in (["collect", "print"], ["raise"], ["collect", "stop", "fail"], []):
        for vm in (None, "match", "no-match", "raise, match", "no-raise, match"):
            comment = f"~ id: H validation-mode: {vm} ~ " if vm else "~ name: H ~ "
            p, cap = make_path(policy)
            buf = io.StringIO()
            with contextlib.redirect_stdout(buf):
                p.parse(comment + '$data.csv[1*][ @s = add(#a, 1) @t.notnone = concat.notnone(#b, "x") between(#a, #b, #c) ]')
                it = p.next()
                try:
                    next(it)
                except Exception as ex:  # pylint: disable=W0718
                    out("   first line raised %s" % describe_exc(ex))
            m = p.matcher
            out("-- policy=%s validation-mode=%s" % (policy, vm))
            if m is None:
                continue
            add = find(m.expressions[0][0], "add")
            concat = find(m.expressions[1][0], "concat")
            between = find(m.expressions[2][0], "between")
            for fn, actuals_list in (
                (add, ([1, 2], ["1", 2.5], ["x", 1], [None, 1], [1], [], [1, 2, 3], ["", 0], [0, 0], [True, 1])),
                (concat, (["a", "b"], [None, "b"], ["", "b"], [0, ""], [], ["a"], [[], "b"])),
                (between, ([1, 2, 3], ["a", "b", "c"], [1, "a", 2.0], [[], 1, 1], [None, None, None], ["a", "b"], [1, 2, 3, 4], [0, "", 0])),
            ):
                for actuals in actuals_list:
                    fn.my_expression.reset()
                    args = fn.args
                    args.reset()
                    before_pending = len(fn.my_expression.errors)
                    records = []
                    handler = _ListHandler(records)
                    p.logger.addHandler(handler)
                    try:
                        r = args.matches(list(actuals))
                        res = "returned %r" % (r,)
                    except Exception as ex:  # pylint: disable=W0718
                        res = "raised " + describe_exc(ex)
                    finally:
                        p.logger.removeHandler(handler)
                    out(
                        "   %s.args.matches(%r) -> %s | matched=%s args_match=%s pending=+%d %s"
                        % (
                            fn.name,
                            actuals,
                            res,
                            args.matched,
                            args.args_match,
                            len(fn.my_expression.errors) - before_pending,
                            [norm_text(f"{e}") for e in fn.my_expression.errors],
                        )
                    )
                    out("      _has_none=%s" % args._has_none(list(actuals)))
                    out("      logged at error level=%s" % [norm_text(_) for _ in records])
                    fn.my_expression.reset()
            #
            # handle_errors_if directly
            #
            for cnt, mm in ((0, []), (1, ["one"]), (len(add.args.argsets), ["a", "b"]), (len(add.args.argsets) + 1, ["c"])):
                add.my_expression.reset()
                add.args.reset()
                try:
                    add.args.handle_errors_if(cnt, mm)
                    res = "returned"
                except Exception as ex:  # pylint: disable=W0718
                    res = "raised " + describe_exc(ex)
                out("   add.args.handle_errors_if(%s, %s) -> %s | args_match=%s pending=%s" % (
                    cnt, mm, res, add.args.args_match, [norm_text(f"{e}") for e in add.my_expression.errors]))
                add.my_expression.reset()
            #
            # Matchable helpers
            #
            out("   decorate_error_message=%r" % add.decorate_error_message("msg"))
            out("   _csvpath_id=%r" % add.args._csvpath_id())
            try:
                add.raiseChildrenException("boom")
            except ChildrenException as ex:
                out("   raiseChildrenException -> %s" % describe_exc(ex))
            for cause in (None, ValueError("the cause")):
                add.my_expression.reset()
                try:
                    add.raise_if(ChildrenException("via raise_if"), cause=cause)
                    res = "returned"
                except Exception as ex:  # pylint: disable=W0718
                    res = "raised " + describe_exc(ex)
                out("   raise_if(cause=%s) -> %s | pending=%s" % (cause, res, [norm_text(f"{e}") for e in add.my_expression.errors]))
                add.my_expression.reset()
            add.my_expression.reset()
            try:
                add.my_expression.raise_if(DataException("at the expression"))
                res = "returned"
            except Exception as ex:  # pylint: disable=W0718
                res = "raised " + describe_exc(ex)
            out("   expression.raise_if -> %s | pending=%d" % (res, len(add.my_expression.errors)))
            add.my_expression.reset()
    #
    # Args without a matchable (as in unit tests) and structure validation
    #
    out("-- Args without a matchable")
    a = Args()
    out("   empty Args matches([]) -> %r ; matched=%s" % (a.matches([]), a.matched))
    out("   _csvpath_id=%r" % a._csvpath_id())
    s = a.argset(2)
    s.arg(types=[Term], actuals=[int])
    s.arg(types=[None, Term], actuals=[None, str])
    try:
        a.validate([])
        out("   validate([]) ok validated=%s" % a.validated)
    except ChildrenException as ex:
        out("   validate([]) -> %s" % describe_exc(ex))
    out("   _has_none: %s" % [(v, a._has_none(v)) for v in ([], [None], [0], [""], ["a", None], [[], ()], ["None"], ["nan"], [float("nan")])])


def main():
    write_config()
    write_files()
    sections = sys.argv[1:] or ["A", "B", "C", "D", "E", "F", "G", "H"]
    table = {
        "A": section_a,
        "B": section_b,
        "C": section_c,
        "D": section_d,
        "E": section_e,
        "F": section_f,
        "G": section_g,
        "H": section_h,
    }
    for s in sections:
        table[s]()
    out("")
    out("DONE")


if __name__ == "__main__":
    main()
