# ---------------------------------------------------------------------------
# shared demo scaffolding (inlined into every demo.py so each is standalone)
# ---------------------------------------------------------------------------
import contextlib
import io
import json
import os
import random
import re
import shutil
import sys
import traceback

CONFIG_INI = """[csvpath_files]
extensions = txt, csvpath, csvpaths

[csv_files]
extensions = txt, csv, tsv, dat, tab, psv, ssv

[errors]
csvpath = raise, collect, stop, fail, print
csvpaths = raise, collect

[logging]
csvpath = info
csvpaths = info
log_file = logs/csvpath.log
log_files_to_keep = 100
log_file_size = 52428800

[config]
path = config/config.ini

[cache]
path = cache

[listeners]
[marquez]
base_url = http://localhost:5000

[functions]
imports = config/functions.imports

[results]
archive = archive
transfers = transfers

[inputs]
files = inputs/named_files
csvpaths = inputs/named_paths
on_unmatched_file_fingerprints = halt
"""

DATA = {
    # blank line in the middle, ragged rows, empty values, zero, blank last line
    "f.csv": 'a,b,c\n1,2,3\n\n4,,6\n7,8\n0,0,0\n"x y", z ,\n9,10,11,12\n\n',
    # header names with spaces and dots need quoting in a csvpath
    "g.csv": "First Name,Last.Name,n\nAda,Lovelace,1\nAlan,Turing,0\n,,\nGrace,Hopper,-2.5\n",
    # only a header line
    "h.csv": "a,b,c\n",
    # no lines at all
    "e.csv": "",
}

CWD = os.getcwd()


def prepare_workdir():
    """the demo runs in the current directory, which must be a scratch dir"""
    #
    # lark reports the terminals it expected in set order. pin the string hash
    # seed so that such messages (which also end up in printouts and their
    # fingerprints) are the same in every process.
    #
    if os.environ.get("PYTHONHASHSEED") != "0":
        env = dict(os.environ)
        env["PYTHONHASHSEED"] = "0"
        sys.stdout.flush()
        os.execve(sys.executable, [sys.executable] + sys.argv, env)
    if os.path.exists(os.path.join(CWD, "csvpath", "__init__.py")):
        raise SystemExit("run this demo in a scratch directory, not in a source tree")
    for d in ["archive", "inputs", "cache", "logs", "transfers", "config", "saved"]:
        shutil.rmtree(os.path.join(CWD, d), ignore_errors=True)
    os.makedirs("config")
    with open("config/config.ini", "w", encoding="utf-8") as f:
        f.write(CONFIG_INI)
    with open("config/functions.imports", "w", encoding="utf-8") as f:
        f.write("")
    for name, text in DATA.items():
        with open(name, "w", encoding="utf-8", newline="") as f:
            f.write(text)


_TRANSCRIPT = sys.stdout


def out(*args):
    # always to the transcript, also while the library's own printing is captured
    _TRANSCRIPT.write(" ".join(f"{a}" for a in args) + "\n")


_TS = [
    (re.compile(r"\d{4}-\d{2}-\d{2}[ T_]\d{2}[:-]\d{2}[:-]\d{2}(\.\d+)?(\+00:00)?(_\d+)?"), "<TIME>"),
    (re.compile(r"[0-9a-f]{8}-[0-9a-f]{4}-[0-9a-f]{4}-[0-9a-f]{4}-[0-9a-f]{12}"), "<UUID>"),
]


def _sort_expected(s: str) -> str:
    """lark lists the terminals it expected in set order, which changes from
    process to process. sort each run of such lines."""
    lines = s.split("\n")
    ret = []
    run = []
    for line in lines:
        if line.startswith("\t* "):
            run.append(line)
            continue
        ret += sorted(run)
        run = []
        ret.append(line)
    ret += sorted(run)
    return "\n".join(ret)


def norm(s) -> str:
    s = f"{s}"
    s = s.replace(CWD, "<CWD>")
    for rx, rep in _TS:
        s = rx.sub(rep, s)
    s = re.sub(r" at 0x[0-9a-fA-F]+", " at 0x<ADDR>", s)
    if "\t* " in s:
        s = _sort_expected(s)
    return s


def show_exception(e) -> str:
    msg = norm(e)
    # lark messages are long and multi-line. keep them whole, they are deterministic.
    return f"{type(e).__name__}: {msg}"


def dump_node(n, depth=0, lines=None):
    """prints everything the property talks about: kind, name, qualifiers,
    operator, argument order and literal values (with their python type)"""
    if lines is None:
        lines = []
    pad = "  " * depth
    if n is None:
        lines.append(f"{pad}None")
        return lines
    kind = type(n).__name__
    bits = [kind]
    if getattr(n, "name", None) is not None:
        bits.append(f"name={n.name!r}")
    if getattr(n, "qualified_name", None) is not None:
        bits.append(f"qname={n.qualified_name!r}")
    if getattr(n, "qualifiers", None):
        bits.append(f"quals={n.qualifiers!r}")
    if getattr(n, "qualifier", None) is not None:
        bits.append(f"qual={n.qualifier!r}")
    if hasattr(n, "op"):
        bits.append(f"op={n.op!r}")
    if kind == "Term":
        bits.append(f"value={type(n.value).__name__}:{n.value!r}")
    if kind == "Reference":
        bits.append(f"parts={n.name_parts!r}")
    par = n.parent
    bits.append(f"parent={type(par).__name__ if par is not None else None}")
    lines.append(pad + " ".join(bits))
    for c in n.children:
        dump_node(c, depth + 1, lines)
    return lines


def dump_matcher(m) -> str:
    lines = []
    if m is None:
        return "  <no matcher>"
    for i, et in enumerate(m.expressions):
        lines.append(f"  expression[{i}] vote={et[1]!r}")
        dump_node(et[0], 2, lines)
    return "\n".join(lines)


def show_errors(errors) -> str:
    if not errors:
        return f"{errors!r}"
    ret = []
    for e in errors:
        ret.append(
            norm(
                f"(line={e.line_count} scan={e.scan_count} match={e.match_count} "
                f"error={type(e.error).__name__}:{e.error} message={e.message!r} source={e.source})"
            )
        )
    return "[" + ", ".join(ret) + "]"


def sorted_vars(v):
    try:
        return json.dumps(v, sort_keys=True, default=str)
    except TypeError:
        return repr(v)


def run_standalone(label, csvpath, how="collect", tree=True, **kwargs):
    """parse + run one csvpath with a standalone CsvPath and print all that
    can be observed afterwards"""
    from csvpath import CsvPath

    out(f"--- {label} [{how}]")
    out("csvpath:", repr(csvpath))
    buf = io.StringIO()
    p = None
    lines = None
    exc = None
    with contextlib.redirect_stdout(buf):
        try:
            p = CsvPath(**kwargs)
            p.parse(csvpath)
            if how == "collect":
                lines = p.collect()
            elif how == "fast_forward":
                p.fast_forward()
            elif how == "next":
                lines = []
                for line in p.next():
                    lines.append(list(line))
            elif how == "collect2":
                lines = p.collect(nexts=2)
            elif how == "parse":
                pass
        except Exception as e:  # pylint: disable=W0718
            exc = e
    if exc is not None:
        out("raised:", show_exception(exc))
    if p is not None:
        out("scan:", repr(p.scan), "match:", repr(p.match))
        out("metadata:", sorted_vars(p.metadata))
        out("lines:", repr(lines))
        out("variables:", norm(sorted_vars(p.variables)))
        out(
            "is_valid:", p.is_valid, "stopped:", p.stopped,
            "scan_count:", p.scan_count, "match_count:", p.match_count,
        )
        out("errors:", show_errors(p.errors))
        if p.unmatched is not None:
            out("unmatched:", repr(p.unmatched))
        if tree and p.matcher is not None:
            out("tree after run:")
            out(dump_matcher(p.matcher))
    printed = buf.getvalue()
    out("printed:", repr(norm(printed)))
    return p


def parse_tree(label, csvpath):
    """the component tree only, no run"""
    from csvpath import CsvPath

    out(f"--- {label} [tree]")
    out("csvpath:", repr(csvpath))
    buf = io.StringIO()
    with contextlib.redirect_stdout(buf):
        try:
            p = CsvPath()
            m = p.parse(csvpath, disposably=True)
            res = dump_matcher(m)
            meta = sorted_vars(p.metadata)
            parts = f"scan: {p.scan!r} match: {p.match!r}"
        except Exception as e:  # pylint: disable=W0718
            res = "raised: " + show_exception(e)
            meta = None
            parts = None
    out(res)
    if parts is not None:
        out(parts)
        out("metadata:", meta)
    if buf.getvalue():
        out("printed:", repr(norm(buf.getvalue())))
    return res


_REDACT_KEYS = {
    "time", "uuid", "named_paths_uuid", "time_completed", "run_time", "run_started_at",
    "lines_time", "last_line_time", "trace", "at", "run", "named_file_last_change",
}
_TIME_DEPENDENT_FILES = {"meta.json", "errors.json", "manifest.json"}


def _redact(o, parent_key=None):
    if isinstance(o, dict):
        ret = {}
        for k, v in o.items():
            if k in _REDACT_KEYS:
                ret[k] = "<REDACTED>" if v is not None else None
            elif parent_key == "file_fingerprints" and k in _TIME_DEPENDENT_FILES:
                ret[k] = "<REDACTED>"
            else:
                ret[k] = _redact(v, k)
        return ret
    if isinstance(o, list):
        return [_redact(_, parent_key) for _ in o]
    if isinstance(o, str):
        return norm(o)
    return o


def dump_dir(root):
    """lists and prints every file under root with run-directory timestamps,
    uuids and timings normalised"""
    if not os.path.exists(root):
        out(f"<{root} does not exist>")
        return
    entries = []
    for base, dirs, files in os.walk(root):
        dirs.sort()
        for f in sorted(files):
            entries.append(os.path.join(base, f))
    named = sorted((norm(e), e) for e in entries)
    for shown, real in named:
        out(f"== {shown}")
        with open(real, "r", encoding="utf-8") as fh:
            text = fh.read()
        if real.endswith(".json"):
            try:
                j = json.loads(text)
                out(json.dumps(_redact(j), indent=1, sort_keys=True))
                continue
            except ValueError:
                pass
        out(norm(text))


def run_group(label, paths, filename="f", datafile="f.csv", how="collect", pathsname=None):
    from csvpath import CsvPaths

    pathsname = pathsname or re.sub(r"\W", "_", label)
    out(f"--- {label} [group {how}] paths={paths!r}")
    buf = io.StringIO()
    exc = None
    cp = None
    with contextlib.redirect_stdout(buf):
        try:
            cp = CsvPaths()
            cp.file_manager.add_named_file(name=filename, path=datafile)
            cp.paths_manager.add_named_paths(name=pathsname, paths=paths)
            if how == "collect":
                cp.collect_paths(filename=filename, pathsname=pathsname)
            elif how == "fast_forward":
                cp.fast_forward_paths(filename=filename, pathsname=pathsname)
            elif how == "by_line":
                cp.collect_by_line(filename=filename, pathsname=pathsname)
        except Exception as e:  # pylint: disable=W0718
            exc = e
    if exc is not None:
        out("raised:", show_exception(exc))
    if cp is not None:
        try:
            rs = cp.results_manager.get_named_results(pathsname)
        except Exception as e:  # pylint: disable=W0718
            rs = None
            out("no results:", show_exception(e))
        for r in rs or []:
            c = r.csvpath
            out(" result identity:", repr(c.identity))
            out("  scan:", norm(repr(c.scan)), "match:", repr(c.match))
            out("  metadata:", sorted_vars(c.metadata))
            try:
                ls = r.lines
                ls = list(ls.next()) if hasattr(ls, "next") else ls
            except Exception as e:  # pylint: disable=W0718
                ls = show_exception(e)
            out("  lines:", repr(ls))
            out("  variables:", sorted_vars(r.variables))
            out("  is_valid:", c.is_valid, "stopped:", c.stopped, "errors:", show_errors(r.errors))
            out("  printouts:", repr(r.printouts if hasattr(r, "printouts") else None))
    out("printed:", repr(norm(buf.getvalue())))
    return cp


# ---------------------------------------------------------------------------
# t3 demo: name/qualifier parsing (ExpressionUtility, Qualified), the
# productions the transformer builds (Term, Reference, Header, Variable,
# functions) and LarkTransformer.match / TERM
# ---------------------------------------------------------------------------
NAMES = [
    "a",
    "a.onmatch",
    "a.onmatch.asbool",
    "a.b.c.d.e",
    "a.",
    "a..",
    ".a",
    ".",
    "..",
    "",
    " ",
    "  a  ",
    " a . b ",
    "a .onmatch",
    "a. onmatch",
    "0",
    "0.asbool",
    "-1",
    "1.5",
    '"a"',
    '"a b"',
    '"a b".onmatch',
    '"a b".onmatch.asbool',
    '"a.b"',
    '"a.b".c',
    '"a.b".c."d.e"',
    '"a.b"."c.d"',
    '"a""b"',
    '"a" "b"',
    '"a" .b',
    '"a". b',
    'x"a"',
    'x."a"',
    'x."a".y',
    '"a"x',
    '"a',
    'a"',
    '"',
    '""',
    '"".a',
    '" "',
    '" ".a',
    '"."',
    '".".',
    '"a".',
    '"a"..',
    '"a"..b',
    '." a"',
    '"  a  "',
    '"a" ',
    ' "a"',
    '"Last Year Number".notnone',
    "First.Name",
    '"First Name".nocontrib.onchange.latch.increase.decrease.distinct.once',
    None,
    5,
    0,
    1.5,
    True,
    b"a.b",
    ["a", "b"],
    ("a.b",),
]


def call(fn, *a, **k):
    try:
        return repr(fn(*a, **k))
    except Exception as e:  # pylint: disable=W0718
        return "raised " + show_exception(e)


def section_names():
    from csvpath.matching.util.expression_utility import ExpressionUtility as EU
    from csvpath.matching.functions.function_factory import FunctionFactory

    out("##### 1. ExpressionUtility.get_name_and_qualifiers / _parse_quoted on hand-written names")
    for n in NAMES:
        out(repr(n), "=> get_name_and_qualifiers:", call(EU.get_name_and_qualifiers, n))
        out(repr(n), "=> _parse_quoted:", call(EU._parse_quoted, n))  # pylint: disable=W0212
        if isinstance(n, str):
            out(repr(n), "=> FunctionFactory.get_name_and_qualifier:", call(FunctionFactory.get_name_and_qualifier, n))
    # the result lists are fresh lists
    a = EU.get_name_and_qualifiers('"a b".x.y')
    b = EU.get_name_and_qualifiers('"a b".x.y')
    out("fresh lists:", a == b, a[1] is not b[1])
    a[1].append("z")
    out("after mutation:", a, EU.get_name_and_qualifiers('"a b".x.y'))

    out("##### 2. the same on 5000 generated names (fixed seed)")
    rnd = random.Random(3717)
    alphabet = ['"', ".", "a", "b", " ", '"', ".", "_", "1", "-"]
    for i in range(5000):
        n = "".join(rnd.choice(alphabet) for _ in range(rnd.randint(0, 12)))
        out(
            i, repr(n), "=>", call(EU.get_name_and_qualifiers, n),
            "|", call(EU._parse_quoted, n),  # pylint: disable=W0212
        )


class FakeLogger:
    def __init__(self):
        self.lines = []

    def _log(self, level, msg, *args):
        try:
            msg = msg % args if args else msg
        except Exception:  # pylint: disable=W0718
            msg = f"{msg} {args}"
        self.lines.append(f"{level}: {msg}")

    def debug(self, msg, *args):
        self._log("debug", msg, *args)

    def info(self, msg, *args):
        self._log("info", msg, *args)

    def warning(self, msg, *args):
        self._log("warning", msg, *args)

    def error(self, msg, *args):
        self._log("error", msg, *args)


def describe(o) -> str:
    bits = [type(o).__name__]
    for k in ["name", "qualified_name", "qualifier", "qualifiers", "value", "match", "parent", "children"]:
        if hasattr(o, k):
            bits.append(f"{k}={getattr(o, k)!r}")
    for k in ["onmatch", "asbool", "nocontrib", "latch", "onchange", "notnone", "once", "distinct", "increase", "decrease"]:
        if hasattr(o, "qualifiers") and getattr(o, k):
            bits.append(k)
    if hasattr(o, "first_non_term_qualifier"):
        bits.append(f"first={o.first_non_term_qualifier()!r} second={o.second_non_term_qualifier()!r}")
    try:
        bits.append(f"str={o}")
    except Exception as e:  # pylint: disable=W0718
        bits.append("str raised " + show_exception(e))
    return norm(" ".join(bits))


def section_productions():
    from csvpath import CsvPath
    from csvpath.matching.productions import Header, Variable, Term, Reference, Matchable, Equality, Expression
    from csvpath.matching.productions.qualified import Qualified
    from csvpath.matching.functions.function_factory import FunctionFactory

    out("##### 3. constructing productions directly with all kinds of names")
    path = CsvPath()
    matcher = path.parse("$f.csv[*][yes()]", disposably=True)
    for n in NAMES:
        for cls in [Qualified, Matchable, Header, Variable, Term, Reference, Expression]:
            try:
                if cls is Qualified:
                    o = cls(name=n)
                else:
                    o = cls(matcher, name=n)
                out(f"{cls.__name__}(name={n!r}) =>", describe(o))
            except Exception as e:  # pylint: disable=W0718
                out(f"{cls.__name__}(name={n!r}) raised", show_exception(e))
        if isinstance(n, str):
            try:
                o = FunctionFactory.get_function(matcher, name=f"count{n}" if n.startswith(".") else n, child=None)
                out(f"get_function({n!r}) =>", describe(o))
            except Exception as e:  # pylint: disable=W0718
                out(f"get_function({n!r}) raised", show_exception(e))
    for fn in ["count", "count.onmatch", "print.once.onmatch", "push.distinct.notnone", "tally.mytally", "yes.", "yes..", "nosuch", "nosuch.onmatch"]:
        try:
            o = FunctionFactory.get_function(matcher, name=fn, child=None)
            out(f"get_function({fn!r}) =>", describe(o))
        except Exception as e:  # pylint: disable=W0718
            out(f"get_function({fn!r}) raised", show_exception(e))

    out("##### 4. Term: values, reset(), check_valid(); Reference: check_valid(), reset()")
    for v in ["abc", '"abc"', '""abc""', '"', "", " x ", 0, -1, 2.50, None, True, "/re[x]/", 'a"b']:
        t = Term(matcher, value=v)
        before = describe(t)
        t.match = "m"
        r1 = t.reset()
        r2 = t.check_valid()
        out(f"Term(value={v!r}) =>", before, "| reset():", r1, "check_valid():", r2, "| after:", describe(t), "to_value:", repr(t.to_value()), "matches:", t.matches(skip=[]))
    # a term with children: reset and check_valid visit the children
    t = Term(matcher, value="parent")
    kid = Header(matcher, name="a")
    kid.value = "stale"
    kid.match = True
    t.add_child(kid)
    t.reset()
    t.check_valid()
    out("Term with a child after reset:", describe(t), "| child:", describe(kid))
    out("Term.reset is callable:", callable(Term.reset), "| bound on an instance:", callable(t.reset))
    for n in ["p.variables.x", "p.headers.a", "p.csvpaths.one", "p.variables.x.y", "p.metadata.k", "p", "p.variables", ".variables.x", "p.variables.x.y.z"]:
        try:
            r = Reference(matcher, name=n)
            r.value = "stale"
            r.match = True
            c = r.check_valid()
            s = r.reset()
            out(f"Reference({n!r}) =>", describe(r), "parts:", r.name_parts, "check_valid():", c, "reset():", s)
            out("   data_type/name/tracking:", call(r.data_type), call(r.data_name), call(r.tracking_name))
        except Exception as e:  # pylint: disable=W0718
            out(f"Reference({n!r}) raised", show_exception(e))
    out("check_valid is callable:", callable(Reference.check_valid))

    out("##### 5. LarkTransformer.match and TERM called directly")
    from lark.lexer import Token
    from csvpath.matching.lark_transformer import LarkTransformer

    tr = LarkTransformer(matcher)
    e1 = Expression(matcher)
    e2 = Expression(matcher)
    for args in [(), (None,), (e1,), (None, e1, None, e2, None), (e2, e1, e1), (0, "", False, [], e1)]:
        r = tr.match(*args)
        out("match", [type(a).__name__ if isinstance(a, Expression) else a for a in args], "=>", type(r).__name__,
            [("e1" if x is e1 else "e2" if x is e2 else repr(x)) for x in r])
    toks = [
        Token("TERM", "abc"), Token("TERM", "@abc@"), Token("TERM", "#abc#"), Token("TERM", "@"), Token("TERM", "#"),
        Token("TERM", "@a"), Token("TERM", '"q"'), Token("TERM", "a@b"), Token("TERM", ""), Token("TERM", " @x "),
        "plain string", None, 5, Token("STRING", '"#x#"'),
    ]
    for tk in toks:
        try:
            t = tr.TERM(tk)
            out("TERM", repr(tk), "=>", describe(t))
        except Exception as e:  # pylint: disable=W0718
            out("TERM", repr(tk), "raised", show_exception(e))
    # the other token callbacks, for completeness
    for kind, text in [("STRING", '"a b"'), ("STRING", '""'), ("SIGNED_NUMBER", "0"), ("SIGNED_NUMBER", "-0"),
                       ("SIGNED_NUMBER", "+5"), ("SIGNED_NUMBER", "3.50"), ("SIGNED_NUMBER", "-.5"), ("SIGNED_NUMBER", "1e3"),
                       ("REGEX", "/a[b]\\/c/"), ("HEADER", "#a.asbool"), ("HEADER", '#"a b"'), ("HEADER", "# a"),
                       ("VARIABLE", "@v.onmatch.me"), ("REFERENCE", "$p.variables.x"), ("COMMENT", "~ c ~")]:
        try:
            t = getattr(tr, kind)(Token(kind, text))
            out(kind, repr(text), "=>", describe(t) if t is not None else None)
        except Exception as e:  # pylint: disable=W0718
            out(kind, repr(text), "raised", show_exception(e))


TREE_PATHS = [
    '$f.csv[*][ #a #"a" #0 #a.asbool #"a".b #a.b.c.d ]',
    '$g.csv[*][ #"First Name" #"Last.Name" @x = #"Last.Name" #"First Name" == "Ada" ]',
    '$f.csv[*][ @v @v.onmatch @v.a.b @v.asbool.nocontrib = 1 @"q" ]',
    '$f.csv[*][ @t.onmatch.latch = count.me.onmatch() push.distinct("s", #a) tally.tt(#b) ]',
    '$f.csv[*][ @a = "" @b = " " @c = "x y" @d = 0 @e = -0 @f = +1 @g = -1.50 @h = .5 @i = /r[e]\\/x/ ]',
    '$f.csv[*][ @r = $p.variables.x  $p.headers.a  @s = $p.variables.x.y  $p.csvpaths.one == "q" ]',
    '$f.csv[*][ ~ only ~ ~ comments ~ ]',
    '$f.csv[*][ yes() ~ c ~ no() -> print("x") ~ d ~ @a = 1 -> @b = 2 ]',
    '$f.csv[*][ or(and(not(yes()), no()), in(#a, "1|2"), equals(add(1, 2, 3), subtract(9, 3))) ]',
    '$f.csv[*][ #"".a ]',
    '$f.csv[*][ #" " ]',
    '$f.csv[*][ #a. ]',
    '$f.csv[*][ @. ]',
    '$f.csv[*][ @.a ]',
    '$f.csv[*][ #.a ]',
    '$f.csv[*][ @a.. = 1 ]',
    '$f.csv[*][ count.() ]',
    '$f.csv[*][ @n = 1e3 ]',
]

RUN_PATHS = [
    ("$f.csv[*]", ["@n.onmatch = count()", 'not(#b == "")', "@last.notnone = #c"]),
    ("$f.csv[1*]", ['@w = "  padded  "', '@q = " "', "@z = 0", "@m = -1", "@d = 3.50", "#b == 0"]),
    ("$g.csv[1*]", ['#"First Name"', '@ln = #"Last.Name"', "@n = add(#n, -2.5)", '@fn.asbool = #"First Name"']),
    ("$f.csv[1*]", ["tally.t(#b)", 'push.distinct("s", #a)', "@c.increase = int(#0)"]),
    ("$f.csv[1*]", ['above(#0, 3) -> print.once("first big: $.headers.a")', "@k.latch = #a", "@ch.onchange = #b"]),
    ("$f.csv[*]", ['last() -> print("done $.csvpath.count_lines $.variables.c")', "@c = count_lines()"]),
    ("$f.csv[1*]", ["regex(#a, /^[0-9]+$/)", 'or(empty(#b), in(#c, "6|11"))', '@hit = regex(/[x-z] [x-z]/, #0)']),
    ("$f.csv[1*]", ['@s = concat("[", #a, "]")', "@l = length(#a)", '@u = upper("mixed Case")']),
]


def section_trees_and_runs():
    out("##### 6. component trees for csvpaths with all kinds of names, qualifiers and literals")
    for i, tp in enumerate(TREE_PATHS):
        parse_tree(f"tree/{i}", tp)
        # the same thing laid out differently gives the same tree
        body = tp[tp.index("[", tp.index("]")) + 1 : -1]
        scan = tp[: tp.index("]") + 1]
        parse_tree(f"tree/{i}/relaid", f"~ a comment ~\n{scan}\n[\n~ c ~\n" + body.replace("  ", "\n ~ x ~ ") + "\n]\n")

    out("##### 7. runs (every line resets every Term), in different layouts")
    rnd = random.Random(11)
    for i, (scan, comps) in enumerate(RUN_PATHS):
        variants = [
            f"{scan}[{' '.join(comps)}]",
            f"\n  {scan}\n  [\n    " + "\n    ".join(comps) + "\n  ]\n",
            f"~ outer comment ~ {scan}[ ~ one ~ " + " ~ two ~ ".join(comps) + " ] ~ after ~",
        ]
        seps = [rnd.choice([" ", "\n", "  ", " ~ c ~ "]) for _ in comps]
        variants.append(f"{scan}[" + "".join(s + c for s, c in zip(seps, comps)) + "]")
        for j, v in enumerate(variants):
            how = ["collect", "next", "fast_forward", "collect2"][j % 4]
            run_standalone(f"run/{i}/{j}", v, how=how, tree=(j == 0))
        run_standalone(f"run/{i}/noskip", variants[0], how="collect", tree=False, skip_blank_lines=False)

    out("##### 8. two runs on one instance's matcher: reset between lines and between runs")
    from csvpath import CsvPath

    p = CsvPath()
    buf = io.StringIO()
    with contextlib.redirect_stdout(buf):
        p.parse('$f.csv[1*][ @t = "lit" @n = 5 #a == "4" ]')
        l1 = p.collect()
        terms = []
        stack = [e[0] for e in p.matcher.expressions]
        while stack:
            n = stack.pop(0)
            if type(n).__name__ == "Term":
                terms.append((n.value, n.match))
            stack = list(n.children) + stack
        out("first run:", l1, sorted_vars(p.variables), "terms:", terms)
        p.matcher.reset()
        out("after matcher.reset():", dump_matcher(p.matcher))
    out("printed:", repr(buf.getvalue()))


def section_group():
    out("##### 9. CsvPaths: references to the variables and headers of another run")
    from csvpath import CsvPaths

    buf = io.StringIO()
    with contextlib.redirect_stdout(buf):
        cp = CsvPaths()
        cp.file_manager.add_named_file(name="f", path="f.csv")
        cp.file_manager.add_named_file(name="g", path="g.csv")
        cp.paths_manager.add_named_paths(
            name="p", paths=['~ id: one ~ $[1*][ @x = #a  tally.t(#b)  @q.notnone = #c ]']
        )
        cp.paths_manager.add_named_paths(
            name="r",
            paths=[
                '~ id: refs ~ $[1*][ @fromx = $p.variables.x  @tb = $p.variables.t.8  @hs = $p.headers.a  @cp = $p.csvpaths.one ]',
                '~ id: badref ~ $[1][ @y = $p.variables.nosuch ]',
            ],
        )
        for pathsname, filename in [("p", "f"), ("r", "g")]:
            try:
                cp.collect_paths(filename=filename, pathsname=pathsname)
            except Exception as e:  # pylint: disable=W0718
                out(f"{pathsname} raised:", show_exception(e))
            try:
                rs = cp.results_manager.get_named_results(pathsname)
            except Exception as e:  # pylint: disable=W0718
                out(f"{pathsname} no results:", show_exception(e))
                rs = []
            for r in rs:
                c = r.csvpath
                out(" result identity:", repr(c.identity))
                out("  lines:", repr(list(r.lines.next()) if hasattr(r.lines, "next") else r.lines))
                out("  variables:", sorted_vars(r.variables))
                out("  is_valid:", c.is_valid, "errors:", show_errors(r.errors), "printouts:", r.printouts)
                out(dump_matcher(c.matcher))
    out("printed:", repr(norm(buf.getvalue())))
    run_group("grp by line", ['~ id: a ~ $[*][ @c = count() @lit = "x" ]', '$[1*][ #b @n = 0 ] ~ id: b ~'], how="by_line")
    dump_dir("archive")


if __name__ == "__main__":
    prepare_workdir()
    section_names()
    section_productions()
    section_trees_and_runs()
    section_group()
    out("##### done")
