#
# shared differential-demo harness. demo.py in each of t1/t2/t3 embeds a copy of this
# file (so that each demo.py stays standalone) followed by a change-specific section.
#
# usage: cd <empty temp dir>; PYTHONPATH=<tree> /venv/bin/python demo.py > transcript.txt
#
# everything that is printed is deterministic: no timings, no timestamps, no tracebacks
# (tracebacks carry source line numbers, which any patch shifts), no absolute paths
# other than the fixed relative names created below.
#
import json
import os
import random
import re
import shutil
import sys

CONFIG_INI = """[csvpath_files]
extensions = txt, csvpath, csvpaths

[csv_files]
extensions = txt, csv, tsv, dat, tab, psv, ssv

[errors]
csvpath = collect, fail, print
csvpaths = collect

[logging]
csvpath = info
csvpaths = info
log_file = logs/csvpath.log
log_files_to_keep = 100
log_file_size = 52428800

[config]
path = config/config.ini

[cache]
path = cache

[listeners]

[marquez]
base_url = http://localhost:5000

[functions]
imports = config/functions.imports

[results]
archive = archive
transfers = transfers

[inputs]
files = inputs/named_files
csvpaths = inputs/named_paths
on_unmatched_file_fingerprints = halt
"""

FILES = {
    # ragged rows, blank lines, empty cells, zero, multi-digit, negative, decimals,
    # padded cells, a quoted comma
    "main.csv": (
        "id,name,n,m,flag\n"
        "1,alpha,10,3,true\n"
        "2,beta,0,7,false\n"
        "\n"
        "3,,250,,true\n"
        "4,delta\n"
        "5, echo ,-4,12,false,extra,more\n"
        ",,,,\n"
        "7,alpha,10,3,\n"
        "\n"
        "\n"
        '8,"go,lf",1000,1000,true\n'
        "9,hotel,3.5,2,x\n"
        "10,alpha,007,0,false\n"
    ),
    # the last line is blank (two trailing blank lines): the last()-on-blank path
    "blank_end.csv": "id,name,n\n1,a,5\n2,b,15\n\n3,c,25\n\n\n",
    "empty.csv": "",
    "header_only.csv": "id,name,n\n",
    "one_col.csv": "v\n1\n\n22\n\n333\n0\n",
    "no_newline_end.csv": "id,name,n\n1,a,5\n2,,0\n3,c,100",
}

SCANS = ["*", "1*", "0", "2-5", "1+4+6", "3*", "40*", "0-2", "5"]


def setup_env() -> None:
    """creates config, inputs and data files in the cwd. refuses to run in a dirty dir"""
    for d in ["archive", "cache", "logs", "inputs", "transfers", "config"]:
        if os.path.exists(d):
            shutil.rmtree(d)
    os.makedirs("config")
    with open(os.path.join("config", "config.ini"), "w", encoding="utf-8") as f:
        f.write(CONFIG_INI)
    with open(os.path.join("config", "functions.imports"), "w", encoding="utf-8") as f:
        f.write("")
    for name, content in FILES.items():
        with open(name, "w", encoding="utf-8") as f:
            f.write(content)


def j(o) -> str:
    return json.dumps(o, sort_keys=True, default=str)


def show_errors(path) -> None:
    errs = path.errors or []
    print(f"  errors: {len(errs)}")
    for e in errs:
        print(
            "    - "
            + j(
                [
                    getattr(e, "exception_class", None),
                    str(e.error),
                    e.line_count,
                    e.scan_count,
                    e.match_count,
                ]
            )
        )


def show_state(path) -> None:
    print(f"  variables: {j(path.variables)}")
    print(
        f"  valid: {path.is_valid} stopped: {path.stopped} "
        f"scans: {path.scan_count} matches: {path.match_count} "
        f"frozen: {path.is_frozen} advance: {path.advance_count}"
    )
    lm = path._line_monitor  # avoid the lazy load of the property
    if lm is not None:
        print(
            "  lines: "
            + j(
                [
                    lm.physical_line_number,
                    lm.physical_line_count,
                    lm.data_line_number,
                    lm.data_line_count,
                    lm.physical_end_line_number,
                    lm.data_end_line_count,
                ]
            )
        )
    if path.unmatched is not None:
        print(f"  unmatched: {j(path.unmatched)}")
    show_errors(path)


def run_case(label: str, csvpath: str, how: str = "collect", **kw) -> None:
    """runs one csvpath standalone and prints everything observable.
    how: collect | next | ff | collect2 (collect(2) and then collect the rest) |
         nextbreak (abandon the iterator after the first line)"""
    from csvpath import CsvPath

    print(f"CASE {label} [{how}] {csvpath}")
    path = None
    try:
        path = CsvPath(**kw)
        path.parse(csvpath)
        if how == "collect":
            lines = path.collect()
            print(f"  returned: {j(lines)}")
        elif how == "next":
            k = 0
            for line in path.next():
                k += 1
                print(
                    f"  yield {k}: {j(line)} at {path.line_monitor.physical_line_number}"
                    f" scans={path.scan_count} matches={path.match_count}"
                )
        elif how == "ff":
            path.fast_forward()
            print("  fast_forward done")
        elif how == "collect2":
            lines = path.collect(2)
            print(f"  first two: {j(lines)}")
            lines = path.collect()
            print(f"  rest: {j(lines)}")
        elif how == "nextbreak":
            for line in path.next():
                print(f"  first yield: {j(line)}")
                break
        else:
            raise ValueError(how)
    except Exception as e:  # pylint: disable=W0718
        msg = " | ".join(m.strip() for m in str(e).strip().split("\n") if m.strip())
        marker = " | Expected one of: | "
        if marker in msg:
            # lark lists the expected terminals in set order, which follows the hash seed
            head, tail = msg.split(marker, 1)
            msg = head + marker + " | ".join(sorted(tail.split(" | ")))
        print(f"  EXCEPTION {type(e).__name__}: {msg[:300]}")
        if hasattr(e, "orig_exc"):
            print(f"    original {type(e.orig_exc).__name__}: {str(e.orig_exc).strip()[:300]}")
        c = e.__cause__
        while c is not None:
            print(f"    caused by {type(c).__name__}: {str(c).strip()[:300]}")
            c = c.__cause__
    if path is not None:
        try:
            show_state(path)
        except Exception as e:  # pylint: disable=W0718
            print(f"  STATE EXCEPTION {type(e).__name__}: {e}")


# ---------------------------------------------------------------------------
# a small deterministic generator of well-typed csvpaths over the documented
# core constructs. depth <= 4, 1-6 components, a last() -> component, if any,
# comes last, onmatch only in AND mode.
# ---------------------------------------------------------------------------


class Gen:
    NUM_HEADERS = ["#n", "#m", "#id", "#2", "#3"]
    STR_HEADERS = ["#name", "#flag", "#1", "#nosuch"]
    ANY_HEADERS = ["#id", "#name", "#n", "#m", "#flag", "#0", "#5", "#6"]

    def __init__(self, seed: int, logic_and: bool) -> None:
        self.r = random.Random(seed)
        self.logic_and = logic_and
        self.vars = ["a", "b", "c"]

    def num(self, d: int) -> str:
        r = self.r
        if d <= 0 or r.random() < 0.3:
            return r.choice(
                [str(r.choice([0, 1, 2, 3, 7, 10, 12, 250, 1000])), r.choice(self.NUM_HEADERS)]
                + ["count_lines()", "line_number()", "count_scans()", f"@{r.choice(self.vars)}"]
            )
        k = r.randrange(9)
        if k == 0:
            return f"add({self.num(d-1)}, {self.num(d-1)})"
        if k == 1:
            return f"subtract({self.num(d-1)}, {self.num(d-1)})"
        if k == 2:
            return f"multiply({self.num(d-1)}, {self.num(d-1)})"
        if k == 3:
            return f"mod({self.num(d-1)}, {r.choice([2, 3, 5])})"
        if k == 4:
            return f"length({self.str(d-1)})"
        if k == 5:
            return f"int({r.choice(self.NUM_HEADERS)})"
        if k == 6:
            return f"divide({self.num(d-1)}, {r.choice(['2', '4', '#m', '0'])})"
        if k == 7:
            return f"round({self.num(d-1)})"
        return f"sum({r.choice(self.NUM_HEADERS)})"

    def str(self, d: int) -> str:
        r = self.r
        if d <= 0 or r.random() < 0.35:
            return r.choice(
                ['"alpha"', '"a"', '""', '"true"', '"10"', '" echo "'] + self.STR_HEADERS
            )
        k = r.randrange(6)
        if k == 0:
            return f"concat({self.str(d-1)}, {self.str(d-1)})"
        if k == 1:
            return f"lower({self.str(d-1)})"
        if k == 2:
            return f"upper({self.str(d-1)})"
        if k == 3:
            return f"strip({self.str(d-1)})"
        if k == 4:
            return f"substring({self.str(d-1)}, {r.choice([0, 1, 3])})"
        return f"concat({self.str(d-1)}, {self.num(d-1)})"

    def bool(self, d: int) -> str:
        r = self.r
        if d <= 0 or r.random() < 0.25:
            return r.choice(
                ["yes()", "no()", r.choice(self.ANY_HEADERS), f"@{r.choice(self.vars)}"]
                + [f"exists({r.choice(self.ANY_HEADERS)})", f"empty({r.choice(self.ANY_HEADERS)})"]
            )
        k = r.randrange(12)
        if k == 0:
            return f"{self.lhs(self.num(d-1), self.NUM_HEADERS)} == {self.num(d-1)}"
        if k == 1:
            return f"{self.lhs(self.str(d-1), self.STR_HEADERS)} == {self.str(d-1)}"
        if k == 2:
            f = r.choice(["gt", "lt", "gte", "lte", "above", "below"])
            return f"{f}({self.num(d-1)}, {self.num(d-1)})"
        if k == 3:
            return f"not({self.bool(d-1)})"
        if k == 4:
            return f"and({self.bool(d-1)}, {self.bool(d-1)})"
        if k == 5:
            return f"or({self.bool(d-1)}, {self.bool(d-1)})"
        if k == 6:
            return f'in({self.str(d-1)}, "alpha|beta|true|10")'
        if k == 7:
            return f"starts_with({self.str(d-1)}, {self.str(0)})"
        if k == 8:
            return f"between({self.num(d-1)}, {self.num(0)}, {self.num(0)})"
        if k == 9:
            return f"equals({self.num(d-1)}, {self.num(d-1)})"
        if k == 10:
            return r.choice(
                ["first(#name)", "every(#name, 2)", "has_matches()", "count() == 2", "firstline()"]
            )
        return f"or({self.bool(d-1)}, {self.bool(d-1)}, {self.bool(d-1)})"

    @staticmethod
    def top_level_eq(s: str) -> bool:
        depth = 0
        quoted = False
        for i, c in enumerate(s):
            if c == '"':
                quoted = not quoted
            elif quoted:
                continue
            elif c == "(":
                depth += 1
            elif c == ")":
                depth -= 1
            elif depth == 0 and s[i : i + 4] == " == ":
                return True
        return False

    def lhs(self, s: str, headers: list) -> str:
        """the grammar does not allow a bare term to start an equality"""
        if s[0] in '"-0123456789':
            return self.r.choice(headers)
        return s

    def value(self, d: int) -> str:
        k = self.r.randrange(3)
        if k == 0:
            return self.num(d)
        if k == 1:
            return self.str(d)
        b = self.bool(d)
        if self.top_level_eq(b):
            # the grammar does not allow a bare equality as an assignment's value
            b = f"not({b})"
        return b

    def qualifier(self) -> str:
        qs = ["", "", "", ".latch", ".onchange", ".asbool", ".nocontrib", ".notnone"]
        qs += [".increase", ".decrease", ".tracker"]
        if self.logic_and:
            qs += [".onmatch", ".onmatch"]
        return self.r.choice(qs)

    def action(self, d: int) -> str:
        r = self.r
        k = r.randrange(5)
        if k == 0:
            return f"@{r.choice(self.vars)} = {self.value(d)}"
        if k == 1:
            return f'print("L$.csvpath.line_number: {r.choice(self.vars)}=$.variables.{r.choice(self.vars)}")'
        if k == 2:
            return f"@{r.choice(self.vars)} = count()"
        if k == 3:
            return f"push(\"stack\", {self.value(d-1)})"
        return r.choice(["counter.hits(1)", "increment.inc(yes(), 2)", "tally(#name)", "fail()"])

    def component(self, d: int) -> str:
        r = self.r
        k = r.randrange(10)
        if k <= 3:
            return self.bool(d)
        if k <= 5:
            return f"@{r.choice(self.vars)}{self.qualifier()} = {self.value(d-1)}"
        if k <= 7:
            return f"{self.bool(d-1)} -> {self.action(d-1)}"
        if k == 8:
            q = ".onmatch" if self.logic_and and r.random() < 0.5 else ""
            return r.choice(
                [f"count{q}()", f"counter{q}.k(2)", f"tally{q}(#flag)", f"print{q}(\"p:$.csvpath.count_matches\")"]
            )
        return f"@{r.choice(self.vars)} = {self.num(d-1)}"

    def csvpath(self, filename: str, scan: str) -> str:
        r = self.r
        ncomp = r.randrange(1, 7)
        depth = r.randrange(1, 4)
        comps = [self.component(depth) for _ in range(ncomp)]
        if r.random() < 0.3:
            comps.append(f"last() -> {self.action(1)}")
        mode = "AND" if self.logic_and else "OR"
        match = "\n    ".join(comps)
        return f"~ logic-mode:{mode} ~ ${filename}[{scan}][\n    {match}\n]"


def generated_cases(count: int, seed: int) -> None:
    files = ["main.csv", "main.csv", "main.csv", "blank_end.csv", "no_newline_end.csv", "one_col.csv"]
    hows = ["collect", "next", "collect", "ff", "collect2", "collect"]
    r = random.Random(seed)
    for i in range(count):
        logic_and = i % 2 == 0
        g = Gen(seed * 100000 + i, logic_and)
        f = r.choice(files)
        scan = r.choice(SCANS[:6]) if r.random() < 0.8 else r.choice(SCANS)
        run_case(f"G{seed}.{i}", g.csvpath(f, scan), hows[i % len(hows)])


# ---------------------------------------------------------------------------
# CsvPaths (named group) runs with the archive dumped
# ---------------------------------------------------------------------------

_STAMP = re.compile(r"\d{4}-\d{2}-\d{2}_\d{2}-\d{2}-\d{2}(\.\d+)?(_\d+)?")


def dump_archive(root: str = "archive") -> None:
    """lists the archive with run directories normalised to <run1>, <run2>, ... in
    chronological order (a second run within the same second gets a .N suffix, which
    sorts after the bare stamp) and prints the content of the data-bearing files.
    files carrying times, uuids and hashes are listed only."""
    listing = []
    for dirpath, dirnames, filenames in os.walk(root):
        dirnames.sort()
        for fn in sorted(filenames):
            listing.append(os.path.join(dirpath, fn))
    stamps = sorted({m.group(0) for p in listing for m in [_STAMP.search(p)] if m})
    names = {s: f"<run{i + 1}>" for i, s in enumerate(stamps)}

    def normalise(p: str) -> str:
        return _STAMP.sub(lambda m: names[m.group(0)], p)

    for p in sorted(listing, key=normalise):
        norm = normalise(p)
        base = os.path.basename(p)
        if base in ("data.csv", "unmatched.csv", "vars.json", "printouts.txt"):
            with open(p, "r", encoding="utf-8") as f:
                content = f.read()
            print(f"  FILE {norm} ({len(content)} chars)")
            for line in content.split("\n"):
                print(f"    | {line}")
        elif base == "errors.json":
            with open(p, "r", encoding="utf-8") as f:
                errs = json.load(f)
            print(f"  FILE {norm}: {len(errs)} errors")
            for e in errs:
                print("    | " + j([e.get("error"), e.get("line_count"), e.get("match_count")]))
        else:
            print(f"  FILE {norm}")


def run_group(label: str, filename: str, paths: list, method: str = "collect_paths") -> None:
    from csvpath import CsvPaths

    print(f"GROUP {label} [{method}] file={filename}")
    for p in paths:
        print(f"  path: {p}")
    try:
        cp = CsvPaths()
        cp.file_manager.add_named_file(name=f"file_{label}", path=filename)
        cp.paths_manager.add_named_paths(name=f"paths_{label}", paths=paths)
        getattr(cp, method)(filename=f"file_{label}", pathsname=f"paths_{label}")
        results = cp.results_manager.get_named_results(f"paths_{label}")
        for i, r in enumerate(results):
            lines = r.lines
            if lines is not None and hasattr(lines, "next"):
                lines = list(lines.next())
            print(f"  result {i}: id={r.csvpath.identity!r} valid={r.is_valid} len={len(r)}")
            print(f"    lines={j(lines)}")
            print(f"    variables={j(r.variables)}")
            print(f"    errors={len(r.errors or [])} printouts={j(r.get_printouts())}")
            print(
                f"    unmatched={j(r.unmatched)} stopped={r.csvpath.stopped} "
                f"matches={r.csvpath.match_count} scans={r.csvpath.scan_count}"
            )
    except Exception as e:  # pylint: disable=W0718
        print(f"  EXCEPTION {type(e).__name__}: {str(e).strip()[:300]}")
    dump_archive(os.path.join("archive", f"paths_{label}"))


# ---------------------------------------------------------------------------
# t1-specific section: the change adds one branch to FunctionFactory.get_function
# and one import. every pre-existing function name is resolved through the same
# if/elif chain, so we drive many names (before and after the new branch), the
# aliases, qualified names, unknown names and the external-function registration
# API. the new function itself is NOT used here (see feature_demo.py).
# ---------------------------------------------------------------------------

FACTORY_CASES = [
    # boolean, incl. the neighbours of the new branch
    'or(#name == "alpha", #n == "0")',
    'or(#nosuch, #m)',
    'or(gt(#n, 5), lt(#m, 3), empty(#flag))',
    'and(#name, #m)',
    'and(#id, not(#flag == "true"))',
    "no()",
    "false()",
    "yes()",
    "true()",
    "not(#name)",
    'in(#name, "alpha|beta")',
    "empty(#name)",
    "exists(#m)",
    "all(#id, #name, #n)",
    "missing(#id, #name, #n)",
    "any(#m, #flag)",
    "between(#n, 1, 300)",
    "outside(#n, 1, 300)",
    # comparison and math
    "gt(#n, #m)",
    "lte(#n, 10)",
    "above(#n, 9)",
    "below(#m, 4)",
    "equals(#n, 10)",
    "eq(#m, 3)",
    "@s = add(#n, #m) gt(@s, 12)",
    "@s = subtract(#n, #m) @t = minus(#m) lt(@s, 0)",
    "@s = multiply(#n, 2) @d = divide(#n, #m) mod(#id, 2) == 0",
    "@r = round(divide(#n, 3), 1) @i = int(#n) @f = float(#m)",
    "@t = sum(#n) @st = subtotal(#name, #n)",
    # strings
    '@c = concat(#name, "-", #id) @l = lower(#flag) @u = upper(#name) length(#name) == 5',
    '@s = substring(#name, 2) starts_with(#name, "al")',
    '@s = strip(#name) regex(#name, /^[a-d]/) ',
    "min_length(#name, 5)",
    "@m = metaphone(#name)",
    # counting
    "@c = count() @l = count_lines() @s = count_scans() @h = count_headers() @t = total_lines()",
    "@n = line_number() counter.k(1) increment.i(#name, 2) every.e(#id, 3) tally(#flag)",
    "has_matches() first(#flag)",
    "firstline() -> @first = #name",
    "firstmatch() -> @fm = count_lines() #m",
    "count_dups(#name) has_dups(#n)",
    "@mx = max(#n) @mn = min(#m) @av = average(#n, \"line\") @md = median(#m, \"scan\")",
    "@sd = stdev(stack(\"s\")) push(\"s\", #m) @pu = percent_unique(#name) @p = percent(\"match\")",
    # lines, stop and skip
    'skip(#name == "beta") @seen = count_lines()',
    'stop(#id == "5") yes()',
    '#id == "3" -> fail_and_stop()',
    "advance(2) yes()",
    "after_blank()",
    "last() -> @last = count_lines()",
    # headers, variables, types, validity, print
    'header_name(1, "name") header_index("n") == 2',
    "collect(#id, #n) #n",
    'put("kv", #id, #n) get("kv", "3")',
    'push("ids", #id) @top = peek("ids", 0) @sz = size("ids")',
    'line(string.notnone("id"), string("name"), wildcard())',
    "none(#name) blank(#flag)",
    "#n -> fail() failed()",
    "valid()",
    'print("row $.csvpath.line_number: $.headers.name") print_line() no()',
    'import("nothing")',
    # qualified function names go through get_name_and_qualifier
    "count.onmatch() == 2",
    "tally.onmatch.t(#name) #m",
    "or.nocontrib(#name, #m) #flag",
    # names that are not functions
    "nosuchfunction(#name)",
    "orr(#name, #m)",
    "Or(#name, #m)",
    "yess()",
]


def factory_api() -> None:
    """the registration API consults get_function(find_external_functions=False)"""
    from csvpath.matching.functions.function_factory import (
        FunctionFactory,
        InvalidNameException,
        InvalidChildException,
        UnknownFunctionException,
    )
    from csvpath.matching.functions.boolean.yes import Yes

    print("FACTORY API")
    for name in ["or", "and", "no", "yes", "count", "counter", "nor", "o r", "", None, 5, "n0r"]:
        try:
            FunctionFactory.add_function(name, Yes(None, "yes"))
            print(f"  add_function({name!r}): registered")
        except (InvalidNameException, InvalidChildException) as e:
            print(f"  add_function({name!r}): {type(e).__name__}: {e}")
        except Exception as e:  # pylint: disable=W0718
            print(f"  add_function({name!r}): other {type(e).__name__}: {e}")
    try:
        FunctionFactory.add_function("notinstance", Yes)
    except InvalidChildException as e:
        print(f"  add_function class: {type(e).__name__}: {e}")
    for name in ["or", "or.onmatch", "no", "true", "counter", "nosuch", "nor", "yes.nocontrib.x"]:
        for ext in [True, False]:
            try:
                f = FunctionFactory.get_function(None, name=name, find_external_functions=ext)
                desc = None
                if f is not None:
                    desc = [type(f).__name__, f.name, f.qualified_name, f.qualifiers]
                print(f"  get_function({name!r}, ext={ext}): {desc}")
            except UnknownFunctionException as e:
                print(f"  get_function({name!r}, ext={ext}): UnknownFunctionException: {e}")
    print(f"  get_name_and_qualifier: {FunctionFactory.get_name_and_qualifier('or.onmatch.x')}")
    print(f"  externals: {sorted(k for k in FunctionFactory.NOT_MY_FUNCTION if isinstance(k, str))}")
    # the externally registered function is usable in a csvpath
    run_case("F.ext", "$main.csv[1-3][nor() #name]")


if __name__ == "__main__":
    setup_env()
    for i, m in enumerate(FACTORY_CASES):
        mode = "OR" if i % 5 == 4 else "AND"
        how = ["collect", "next", "collect", "ff"][i % 4]
        scan = ["*", "1*", "*", "1-8"][i % 4]
        run_case(f"F{i}", f"~ logic-mode:{mode} ~ $main.csv[{scan}][{m}]", how)
    for i, m in enumerate(FACTORY_CASES[:12]):
        run_case(f"FB{i}", f"$blank_end.csv[*][{m} last() -> @done = count_lines()]", "collect")
    run_case("F.raise", '~ validation-mode: raise, no-print ~ $main.csv[*][or(#name)]')
    run_case("F.empty", "$empty.csv[*][or(#0, #1)]")
    run_case("F.header_only", "$header_only.csv[*][or(#id, #name) no()]")
    run_case("F.noskip", "$main.csv[*][or(#id, #name)]", "collect", skip_blank_lines=False)
    factory_api()
    generated_cases(120, 11)
    run_group(
        "t1a",
        "main.csv",
        [
            '~id:ors~ $[*][or(#name == "alpha", #flag == "x")]',
            "~id:ands unmatched-mode:keep~ $[1*][and(#n, #m) gt(#n, #m)]",
            '~id:bad validation-mode: no-raise, print~ $[*][or(#name) yes()]',
            '~id:nots return-mode: no-matches~ $[1*][not(#flag == "true")]',
        ],
    )
    run_group(
        "t1b",
        "blank_end.csv",
        ['~id:first~ $[*][no() last() -> print("lines: $.csvpath.count_lines")]', "~id:second~ $[2*][yes()]"],
        "collect_by_line",
    )
    # a repeated run lands in a second run directory
    run_group("t1a", "main.csv", ["~id:again~ $[0-2][or(#id, #name)]"])
