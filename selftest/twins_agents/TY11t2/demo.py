"""Differential demonstration for the named-files store (property C11).

Run in an EMPTY temp dir (the script creates ./config, ./src, ./inputs, ./archive ...):

    mkdir /tmp/demo && cd /tmp/demo && PYTHONPATH=<csvpath tree> /venv/bin/python demo.py > out.txt

It only uses features that exist at unmodified HEAD and prints a deterministic
transcript of everything observable: return values, exceptions, the complete
listing (names + sha256 of bytes) of ./inputs/named_files, the manifests (with
the time field normalised), the relevant log lines and the ./archive tree of a
small CsvPaths run (run-dir timestamps / uuids normalised).
"""
import hashlib
import io
import itertools
import json
import os
import random
import re
import shutil
import sys
from contextlib import redirect_stdout

CONFIG = """[csvpath_files]
extensions = txt, csvpath, csvpaths

[csv_files]
extensions = txt, csv, tsv, dat, tab, psv, ssv

[errors]
csvpath = raise, collect, stop, fail, print
csvpaths = raise, collect

[logging]
csvpath = info
csvpaths = info
log_file = logs/csvpath.log
log_files_to_keep = 100
log_file_size = 52428800

[config]
path = config/config.ini

[cache]
path = cache

[listeners]
[marquez]
base_url = http://localhost:5000

[functions]
imports = config/functions.imports

[results]
archive = archive
transfers = transfers

[inputs]
files = inputs/named_files
csvpaths = inputs/named_paths
on_unmatched_file_fingerprints = halt
"""

CWD = os.getcwd()
if os.path.exists("config") or os.path.exists("inputs"):
    print("run me in an empty directory", file=sys.stderr)
    sys.exit(2)
os.makedirs("config")
with open("config/config.ini", "w", encoding="utf-8") as _f:
    _f.write(CONFIG)
with open("config/functions.imports", "w", encoding="utf-8") as _f:
    _f.write("")

from csvpath import CsvPaths  # noqa: E402

ROOT = "inputs/named_files"

CONTENTS = {
    "A": "a,b,c\n1,2,3\n4,5,6\n",
    # blank lines, ragged rows, empty values, zero
    "B": "a,b,c\n\n1,,3\n0,0\n\n7,8,9,10\n,,\n",
    # header only / no trailing newline
    "C": "a,b,c",
    # empty file
    "E": "",
}

TS = re.compile(r"\d{4}-\d\d-\d\d[T ]\d\d:\d\d:\d\d([.,]\d+)?(\+\d\d:\d\d|Z)?")
RUN = re.compile(r"\d{4}-\d\d-\d\d_\d\d-\d\d-\d\d(_\d+)?")
UUID = re.compile(r"[0-9a-f]{8}-[0-9a-f]{4}-[0-9a-f]{4}-[0-9a-f]{4}-[0-9a-f]{12}")


ADDR = re.compile(r" at 0x[0-9a-f]+")
TIMING = re.compile(r'("(?:lines_time|last_line_time)\\*": )[0-9.eE+-]+')
TIMED_HASH = re.compile(r'("(?:meta\.json|manifest\.json)\\*": \\*")[0-9a-f]{64}')
RUN_FIELD = re.compile(r'("run\\*": \\*")[0-9_.-]+')
RUN_NAMES = {}


def norm(s: str) -> str:
    s = s.replace(CWD, "<CWD>")
    # the bare "run" field is the run's timestamp without the same-second suffix
    s = RUN_FIELD.sub(r"\1<RUN>", s)
    # run directories: numbered in the order they were created
    for k in sorted(RUN_NAMES, key=len, reverse=True):
        s = s.replace(k, RUN_NAMES[k])
    s = ADDR.sub(" at 0x<ADDR>", s)
    s = TIMING.sub(r"\1<N>", s)
    s = TIMED_HASH.sub(r"\1<HASH>", s)
    s = TS.sub("<TIME>", s)
    s = RUN.sub("<RUN>", s)
    s = UUID.sub("<UUID>", s)
    return s


def sha(path: str) -> str:
    with open(path, "rb") as f:
        return hashlib.sha256(f.read()).hexdigest()


def write(path: str, text: str) -> None:
    d = os.path.dirname(path)
    if d:
        os.makedirs(d, exist_ok=True)
    with open(path, "w", encoding="utf-8", newline="") as f:
        f.write(text)


def tree(root: str, *, contents: bool = False) -> list:
    """every dir and file under root, sorted; files with size and sha256"""
    out = []
    if not os.path.exists(root):
        return [f"{root}: <absent>"]
    for base, dirs, files in os.walk(root):
        dirs.sort()
        rel = norm(base)
        out.append(f"D {rel}")
        for fn in sorted(files):
            p = os.path.join(base, fn)
            if fn == "manifest.json" or contents:
                try:
                    with open(p, "r", encoding="utf-8") as f:
                        t = f.read()
                    out.append(f"F {norm(p)} text={norm(t)!r}")
                    continue
                except UnicodeDecodeError:
                    pass
            out.append(f"F {norm(p)} size={os.path.getsize(p)} sha256={sha(p)}")
    return out


def call(label, fn, *args, **kwargs):
    """call fn, print its result or its exception, and anything it printed"""
    buf = io.StringIO()
    try:
        with redirect_stdout(buf):
            r = fn(*args, **kwargs)
        if hasattr(r, "__next__"):
            r = list(r)
        print(f"  {label} -> {norm(repr(r))}")
    except BaseException as ex:  # noqa: B902  we want everything in the transcript
        print(f"  {label} !! {type(ex).__name__}: {norm(str(ex))}")
        r = None
    if buf.getvalue():
        print(f"  {label} printed: {norm(buf.getvalue())!r}")
    return r


def observe(cp, names) -> None:
    """everything the public API says about the given names + the disk state"""
    fm = cp.file_manager
    for n in names:
        call(f"name_exists({n})", fm.name_exists, n)
        p = call(f"get_named_file({n})", fm.get_named_file, n)
        call(f"get_fingerprint_for_name({n})", fm.get_fingerprint_for_name, n)
        if p is not None:
            real = p[0 : p.find("#")] if p.find("#") > -1 else p
            if os.path.exists(real):
                fn = os.path.basename(real)
                print(
                    f"  current bytes sha256 == file name stem: {fn.startswith(sha(real))}"
                )
                with open(real, "rb") as f:
                    print(f"  current bytes: {f.read()!r}")
            else:
                print(f"  current file missing: {real}")
            call(
                f"type_of_file({n})",
                fm.registrar.type_of_file,
                fm.named_file_home(n),
            )
    call("named_file_names(sorted)", lambda: sorted(fm.named_file_names))
    call("named_files_count", lambda: fm.named_files_count)
    for line in tree(ROOT):
        print("    " + line)


def reset() -> None:
    for d in ("inputs", "src", "archive", "cache", "transfers"):
        if os.path.exists(d):
            shutil.rmtree(d)
    os.makedirs(ROOT)
    os.makedirs("src")


def section(title: str) -> None:
    print()
    print("=" * 8 + " " + title)


# ---------------------------------------------------------------------------
# 1. hand written scenarios
# ---------------------------------------------------------------------------
def scenario_basic() -> None:
    section("basic: add, re-add, new content, new source name, mutate, fresh instance")
    reset()
    cp = CsvPaths()
    fm = cp.file_manager
    write("src/one.csv", CONTENTS["A"])
    write("src/two.csv", CONTENTS["A"])
    write("src/sub/one.csv", CONTENTS["B"])
    print("- before anything")
    observe(cp, ["n1"])
    print("- add n1 <- src/one.csv (A)")
    call("add", fm.add_named_file, name="n1", path="src/one.csv")
    observe(cp, ["n1"])
    print("- repeat x2: no new manifest entry")
    call("add", fm.add_named_file, name="n1", path="src/one.csv")
    call("add", fm.add_named_file, name="n1", path="src/one.csv")
    observe(cp, ["n1"])
    print("- mutate the source after registration: store unaffected")
    write("src/one.csv", CONTENTS["B"])
    observe(cp, ["n1"])
    print("- re-add the mutated source: a new version")
    call("add", fm.add_named_file, name="n1", path="src/one.csv")
    observe(cp, ["n1"])
    print("- same bytes (A) from a differently named source: new entry, new home")
    call("add", fm.add_named_file, name="n1", path="src/two.csv")
    observe(cp, ["n1"])
    print("- same file NAME from another directory with the B bytes already stored")
    call("add", fm.add_named_file, name="n1", path="src/sub/one.csv")
    observe(cp, ["n1"])
    print("- back to A under one.csv: bytes already on disk, new entry")
    write("src/one.csv", CONTENTS["A"])
    call("add", fm.add_named_file, name="n1", path="src/one.csv")
    observe(cp, ["n1"])
    print("- absolute source path")
    call("add", fm.add_named_file, name="n1", path=os.path.join(CWD, "src/two.csv"))
    observe(cp, ["n1"])
    print("- a second name is independent")
    call("add", fm.add_named_file, name="n2", path="src/two.csv")
    observe(cp, ["n1", "n2"])
    print("- fresh CsvPaths instance sees the same state")
    cp2 = CsvPaths()
    observe(cp2, ["n1", "n2"])
    print("- reader over the current version")
    call("reader.next", lambda: list(cp2.file_manager.get_named_file_reader("n1").next()))
    print("- remove n1; n2 untouched")
    call("remove", cp2.file_manager.remove_named_file, "n1")
    observe(cp2, ["n1", "n2"])
    print("- add n1 again after removal: history restarts")
    call("add", fm.add_named_file, name="n1", path="src/one.csv")
    observe(cp, ["n1", "n2"])
    print("- remove all")
    call("remove_all", fm.remove_all_named_files)
    observe(cp, ["n1", "n2"])


def scenario_contents() -> None:
    section("content edge cases: empty file, header only, blank/ragged lines, binary")
    reset()
    cp = CsvPaths()
    fm = cp.file_manager
    for key in ("E", "C", "B", "A", "E"):
        write("src/data.csv", CONTENTS[key])
        print(f"- content {key}")
        call("add", fm.add_named_file, name="edge", path="src/data.csv")
        observe(cp, ["edge"])
        call(
            "reader.next",
            lambda: list(fm.get_named_file_reader("edge").next()),
        )
    with open("src/bin.dat", "wb") as f:
        f.write(bytes(range(256)) * 3)
    call("add", fm.add_named_file, name="bin", path="src/bin.dat")
    observe(cp, ["bin"])
    print("- extension variants")
    write("src/a.b.csv", CONTENTS["A"])
    write("src/UPPER.CSV", CONTENTS["A"])
    write("src/dot.", CONTENTS["A"])
    write("src/.hidden", CONTENTS["A"])
    for p in ("src/a.b.csv", "src/UPPER.CSV", "src/dot.", "src/.hidden"):
        call(f"add {p}", fm.add_named_file, name="ext", path=p)
        observe(cp, ["ext"])


def scenario_errors() -> None:
    section("error cases")
    reset()
    cp = CsvPaths()
    fm = cp.file_manager
    reg = fm.registrar
    print("- unknown names")
    call("get_named_file(nope)", fm.get_named_file, "nope")
    call("get_fingerprint_for_name(nope)", fm.get_fingerprint_for_name, "nope")
    call("get_fingerprint_for_name($x)", fm.get_fingerprint_for_name, "$x.results.y.z")
    call("get_named_file_reader(nope)", fm.get_named_file_reader, "nope")
    call("remove(nope)", fm.remove_named_file, "nope")
    call("get_named_file($x.csvpaths.y)", fm.get_named_file, "$x.csvpaths.y")
    call("get_named_file($x.results.y.z)", fm.get_named_file, "$x.results.2024-01-01_10-15-20.z")
    for line in tree(ROOT):
        print("    " + line)
    print("- source does not exist")
    call("add", fm.add_named_file, name="missing", path="src/nothere.csv")
    observe(cp, ["missing"])
    call("add again", fm.add_named_file, name="missing", path="src/nothere.csv")
    observe(cp, ["missing"])
    print("- source is a directory")
    os.makedirs("src/adir.csv")
    call("add", fm.add_named_file, name="isdir", path="src/adir.csv")
    observe(cp, ["isdir"])
    print("- source without any extension")
    write("src/noext", CONTENTS["A"])
    call("add", fm.add_named_file, name="noext", path="src/noext")
    observe(cp, ["noext"])
    print("- a good add after a failed one under the same name")
    write("src/nothere.csv", CONTENTS["A"])
    call("add", fm.add_named_file, name="missing", path="src/nothere.csv")
    observe(cp, ["missing"])
    print("- marks (#sheet) on a csv")
    write("src/marked.csv", CONTENTS["A"])
    call("add", fm.add_named_file, name="marked", path="src/marked.csv#sheet2")
    observe(cp, ["marked"])
    call("add again", fm.add_named_file, name="marked", path="src/marked.csv#sheet2")
    call("add other mark", fm.add_named_file, name="marked", path="src/marked.csv#sheet3")
    call("add no mark", fm.add_named_file, name="marked", path="src/marked.csv")
    call("add empty mark", fm.add_named_file, name="marked", path="src/marked.csv#")
    observe(cp, ["marked"])
    call("reader(marked)", fm.get_named_file_reader, "marked")
    print("- registrar called directly")
    call("manifest_path(absent home)", reg.manifest_path, os.path.join(ROOT, "absent"))
    call("registered_file(absent home)", reg.registered_file, os.path.join(ROOT, "absent"))
    os.makedirs(os.path.join(ROOT, "hollow"))
    call("registered_file(hollow)", reg.registered_file, os.path.join(ROOT, "hollow"))
    call("get_fingerprint(hollow)", reg.get_fingerprint, os.path.join(ROOT, "hollow"))
    call("type_of_file(hollow)", reg.type_of_file, os.path.join(ROOT, "hollow"))
    call("get_named_file(hollow)", fm.get_named_file, "hollow")
    write(os.path.join(ROOT, "broken", "manifest.json"), "{not json")
    call("get_named_file(broken)", fm.get_named_file, "broken")
    call("get_fingerprint_for_name(broken)", fm.get_fingerprint_for_name, "broken")
    write("src/ok.csv", CONTENTS["A"])
    call("add onto broken manifest", fm.add_named_file, name="broken", path="src/ok.csv")
    write(os.path.join(ROOT, "nullm", "manifest.json"), "null")
    call("get_named_file(nullm)", fm.get_named_file, "nullm")
    call("get_fingerprint_for_name(nullm)", fm.get_fingerprint_for_name, "nullm")
    write(
        os.path.join(ROOT, "partial", "manifest.json"),
        json.dumps([{"file": "somewhere/x.csv", "mark": None}]),
    )
    call("get_named_file(partial)", fm.get_named_file, "partial")
    call("get_fingerprint_for_name(partial)", fm.get_fingerprint_for_name, "partial")
    call("add onto partial manifest", fm.add_named_file, name="partial", path="src/ok.csv")
    observe(cp, ["partial"])
    write(
        os.path.join(ROOT, "markonly", "manifest.json"),
        json.dumps([{"file": "somewhere/x.xlsx", "mark": "s1", "type": "xlsx"}]),
    )
    call("get_named_file(markonly)", fm.get_named_file, "markonly")
    call("register_complete(None)", reg.register_complete, None)
    call("metadata_update(None)", reg.metadata_update, None)
    call("distribute_update(None)", reg.distribute_update, None)
    for line in tree(ROOT):
        print("    " + line)


def scenario_bulk() -> None:
    section("bulk loaders and private helpers used by the tests")
    reset()
    cp = CsvPaths()
    fm = cp.file_manager
    write("src/d/x.csv", CONTENTS["A"])
    write("src/d/y.txt", CONTENTS["B"])
    write("src/d/z.json", "{}")
    write("src/d/noext", CONTENTS["C"])
    write("src/d/w.CSV", CONTENTS["C"])
    call("add_named_files_from_dir", fm.add_named_files_from_dir, "src/d")
    observe(cp, ["x", "y", "z", "w", "noext"])
    call("add_named_files_from_dir again", fm.add_named_files_from_dir, "src/d")
    call(
        "set_named_files",
        fm.set_named_files,
        {"x": "src/d/y.txt", "k": "src/d/x.csv"},
    )
    observe(cp, ["x", "k"])
    write("src/named.json", json.dumps({"j1": "src/d/x.csv", "j2": "src/d/y.txt"}))
    call("set_named_files_from_json", fm.set_named_files_from_json, "src/named.json")
    observe(cp, ["j1", "j2"])
    write("src/bad.json", json.dumps({"j3": "src/d/none.csv"}))
    call("set_named_files_from_json(bad path inside)", fm.set_named_files_from_json, "src/bad.json")
    call("set_named_files_from_json(no file)", fm.set_named_files_from_json, "src/nojson.json")
    observe(cp, ["j3"])
    print("- private helpers (used directly by tests/managers/test_files_manager.py)")
    home = call("assure_file_home", fm.assure_file_home, "helper", "src/d/x.csv")
    call("assure_file_home again", fm.assure_file_home, "helper", "src/d/x.csv")
    call("assure_file_home #mark", fm.assure_file_home, "helper", "src/d/x.csv#m")
    call("assure_file_home bare", fm.assure_file_home, "helper", "bare.csv")
    call("assure_named_file_home", fm.assure_named_file_home, "helper2")
    call("_copy_in", fm._copy_in, "src/d/x.csv", home)
    for line in tree(os.path.join(ROOT, "helper")):
        print("    " + line)
    call("_fingerprint", fm._fingerprint, home)
    call("_fingerprint with nothing to hash", fm._fingerprint, home)
    call("_copy_in", fm._copy_in, "src/d/x.csv", home)
    call("_fingerprint (re-add)", fm._fingerprint, home)
    call("_copy_in missing", fm._copy_in, "src/d/nope.csv", home)
    for line in tree(os.path.join(ROOT, "helper")):
        print("    " + line)
    reg = fm.registrar
    call("_type_from_sourcepath", lambda: [reg._type_from_sourcepath(s) for s in ("a.csv", "a", "a.b.c", "a.xlsx#s", "", ".", "a.", "d.d/a")])
    call("listeners", lambda: [type(x).__name__ for x in reg.listeners])


# ---------------------------------------------------------------------------
# 2. model based: exhaustive short sequences + random long ones
# ---------------------------------------------------------------------------
NAMES = ("n1", "n2")
SOURCES = ("src/s1.csv", "src/alt/s2.csv")
KEYS = ("A", "B", "C")


def all_ops():
    ops = []
    for n in NAMES:
        for s in SOURCES:
            for k in KEYS:
                ops.append(("add", n, s, k))
    for s in SOURCES:
        ops.append(("mutate", s))
    for n in NAMES:
        ops.append(("remove", n))
    ops.append(("new",))
    return ops


class Model:
    """abstract model of the store: per name, the list of (fingerprint, source file name)"""

    def __init__(self):
        self.entries = {}
        self.blobs = {}

    def add(self, name, src, data: bytes):
        h = hashlib.sha256(data).hexdigest()
        fname = os.path.basename(src)
        lst = self.entries.setdefault(name, [])
        self.blobs.setdefault(name, {})[(fname, h)] = data
        if lst and lst[-1] == (h, fname):
            return
        lst.append((h, fname))

    def remove(self, name):
        self.entries.pop(name, None)
        self.blobs.pop(name, None)


def check_against_model(cp, model) -> list:
    """returns a list of discrepancies between the store and the model"""
    bad = []
    fm = cp.file_manager
    for n in NAMES:
        if n not in model.entries:
            if fm.name_exists(n):
                bad.append(f"{n} should not exist")
            if fm.get_named_file(n) is not None:
                bad.append(f"{n} get_named_file should be None")
            continue
        ents = model.entries[n]
        h, fname = ents[-1]
        p = fm.get_named_file(n)
        if os.path.basename(p) != f"{h}.csv":
            bad.append(f"{n} current file name {p} != {h}.csv")
        if os.path.basename(os.path.dirname(p)) != fname:
            bad.append(f"{n} current file home {p} != {fname}")
        if sha(p) != h:
            bad.append(f"{n} current bytes are not {h}")
        if fm.get_fingerprint_for_name(n) != h:
            bad.append(f"{n} fingerprint")
        with open(os.path.join(ROOT, n, "manifest.json"), encoding="utf-8") as f:
            man = json.load(f)
        if [(m["fingerprint"], os.path.basename(m["file_home"])) for m in man] != ents:
            bad.append(f"{n} manifest entries {man} != {ents}")
        for (bf, bh), data in model.blobs[n].items():
            bp = os.path.join(ROOT, n, bf, f"{bh}.csv")
            if not os.path.exists(bp):
                bad.append(f"{n} version {bp} is gone")
            else:
                with open(bp, "rb") as f:
                    if f.read() != data:
                        bad.append(f"{n} version {bp} was modified")
        on_disk = 0
        for base, _, files in os.walk(os.path.join(ROOT, n)):
            on_disk += len([f for f in files if f != "manifest.json"])
        if on_disk != len(model.blobs[n]):
            bad.append(f"{n} has {on_disk} files on disk, model has {len(model.blobs[n])}")
    return bad


def run_sequence(seq, *, verbose: bool) -> str:
    reset()
    model = Model()
    cp = CsvPaths()
    current = {}
    steps = []
    for op in seq:
        err = ""
        try:
            if op[0] == "add":
                _, n, s, k = op
                write(s, CONTENTS[k])
                current[s] = k
                r = cp.file_manager.add_named_file(name=n, path=s)
                model.add(n, s, CONTENTS[k].encode("utf-8"))
                if r is not None:
                    err = f"returned {r!r}"
            elif op[0] == "mutate":
                s = op[1]
                if os.path.exists(s):
                    with open(s, "a", encoding="utf-8") as f:
                        f.write("9,9,9\n")
            elif op[0] == "remove":
                r = cp.file_manager.remove_named_file(op[1])
                model.remove(op[1])
            elif op[0] == "new":
                cp = CsvPaths()
        except BaseException as ex:  # noqa: B902
            err = f"{type(ex).__name__}: {norm(str(ex))}"
        bad = check_against_model(cp, model)
        state = "\n".join(tree(ROOT))
        steps.append((op, err, bad, state))
    digest = hashlib.sha256(
        "\n".join(f"{o}|{e}|{b}|{s}" for o, e, b, s in steps).encode("utf-8")
    ).hexdigest()[:16]
    ok = all(not b for _, _, b, _ in steps)
    line = f"{' ; '.join(':'.join(o) for o in seq)} => model_ok={ok} errs={[e for _, e, _, _ in steps if e]} state={digest}"
    if verbose or not ok:
        for o, e, b, s in steps:
            line += f"\n    after {o}: err={e!r} bad={b}\n      " + s.replace("\n", "\n      ")
    return line


def scenario_model() -> None:
    section("model based: exhaustive sequences of length 1 and 2")
    ops = all_ops()
    for n in (1, 2):
        for seq in itertools.product(ops, repeat=n):
            print(run_sequence(seq, verbose=False))
    section("model based: every sequence of length 3 drawn from a reduced alphabet")
    red = [
        ("add", "n1", SOURCES[0], "A"),
        ("add", "n1", SOURCES[0], "B"),
        ("add", "n1", SOURCES[1], "A"),
        ("add", "n2", SOURCES[0], "A"),
        ("mutate", SOURCES[0]),
        ("remove", "n1"),
        ("new",),
    ]
    for seq in itertools.product(red, repeat=3):
        print(run_sequence(seq, verbose=False))
    section("model based: 150 random sequences of length 6..10 (seed 11)")
    rnd = random.Random(11)
    for i in range(150):
        seq = tuple(rnd.choice(ops) for _ in range(rnd.randint(6, 10)))
        print(run_sequence(seq, verbose=(i < 3)))


# ---------------------------------------------------------------------------
# 3. a run over a named file: results + archive
# ---------------------------------------------------------------------------
def scenario_run() -> None:
    section("CsvPaths runs over named files; archive tree")
    reset()
    cp = CsvPaths()
    write("src/f.csv", CONTENTS["B"])
    call("add", cp.file_manager.add_named_file, name="f", path="src/f.csv")
    call(
        "add_named_paths",
        cp.paths_manager.add_named_paths,
        name="p",
        paths=["$[*][yes()]", '~id:two~ $[*][#a=="0" @z = count() print("line $.csvpath.line_number")]'],
    )
    for rep in range(2):
        call("collect_paths", cp.collect_paths, filename="f", pathsname="p")
        results = cp.results_manager.get_named_results("p")
        for r in results:
            print(
                f"  result: lines={len(r)} vars={r.csvpath.variables} file={norm(str(r.csvpath.scanner.filename))} "
                f"valid={r.csvpath.is_valid} errors={len(r.errors) if r.errors else 0} printouts={r.get_printouts()}"
            )
    print("- new version of f, same name; then run again from a fresh instance")
    write("src/f.csv", CONTENTS["A"])
    call("add", cp.file_manager.add_named_file, name="f", path="src/f.csv")
    cp = CsvPaths()
    call("fast_forward_paths", cp.fast_forward_paths, filename="f", pathsname="p")
    call("collect_by_line", cp.collect_by_line, filename="f", pathsname="p")
    results = cp.results_manager.get_named_results("p")
    for r in results:
        print(
            f"  result: lines={len(r)} vars={r.csvpath.variables} file={norm(str(r.csvpath.scanner.filename))} "
            f"valid={r.csvpath.is_valid} printouts={r.get_printouts()}"
        )
    call("collect unknown file", cp.collect_paths, filename="nofile", pathsname="p")
    p = cp.csvpath()
    call("csvpath parse named file", p.parse, "$f[*][yes()]")
    call("csvpath collect", p.collect)
    observe(cp, ["f"])
    for i, d in enumerate(sorted(os.listdir("archive/p"))):
        RUN_NAMES[d] = f"<RUN-DIR-{i}>"
    for line in tree("archive", contents=True):
        print("    " + line)


def log_lines() -> None:
    section("log lines mentioning registration")
    path = "logs/csvpath.log"
    if not os.path.exists(path):
        print("  no log")
        return
    n = 0
    with open(path, "r", encoding="utf-8") as f:
        for line in f:
            if "registered" in line or "accept list" in line:
                n += 1
                if n <= 40:
                    print("  " + norm(line.rstrip("\n"))[0:400])
    print(f"  total: {n}")


def main() -> None:
    scenario_basic()
    scenario_contents()
    scenario_errors()
    scenario_bulk()
    scenario_run()
    scenario_model()
    log_lines()


if __name__ == "__main__":
    main()
