#!/usr/bin/env python
"""
Differential demonstration for property C14 (assignment qualifiers decide the
vote and the write).  Run from an empty scratch directory:

    mkdir -p /tmp/demo && cd /tmp/demo && PYTHONPATH=<csvpath tree> python demo.py > out.txt

Everything observable is printed to stdout in a deterministic order. The
script only uses entry points that exist unchanged on HEAD and in the
refactored tree:
  * real csvpaths run through CsvPath (collect / next / fast_forward)
  * a named-paths group run through CsvPaths (archive listing + vars.json)
  * Equality._do_assignment_new_impl(name=, tracking=, args=) -- the
    test-friendly entry point that tests/productions/test_assignment.py uses
  * the public qualifier API of Qualified (properties, setters, lookups)
"""
import itertools
import json
import os
import re
import shutil
import sys
import zlib

sys.stderr = sys.stdout  # keep anything printed to stderr in sequence

HERE = os.getcwd()

CONFIG = """[csvpath_files]
extensions = txt, csvpath, csvpaths

[csv_files]
extensions = txt, csv, tsv, dat, tab, psv, ssv

[errors]
csvpath = raise, collect, stop, fail, print
csvpaths = raise, collect

[logging]
csvpath = info
csvpaths = info
log_file = logs/csvpath.log
log_files_to_keep = 100
log_file_size = 52428800

[config]
path = config/config.ini

[cache]
path = cache

[listeners]
[marquez]
base_url = http://localhost:5000

[functions]
imports = config/functions.imports

[results]
archive = archive
transfers = transfers

[inputs]
files = inputs/named_files
csvpaths = inputs/named_paths
on_unmatched_file_fingerprints = halt
"""


def setup_env():
    for d in ("archive", "inputs", "cache", "logs", "transfers", "data"):
        shutil.rmtree(os.path.join(HERE, d), ignore_errors=True)
    os.makedirs(os.path.join(HERE, "config"), exist_ok=True)
    with open(os.path.join(HERE, "config", "config.ini"), "w") as f:
        f.write(CONFIG)
    with open(os.path.join(HERE, "config", "functions.imports"), "w") as f:
        f.write("")
    os.makedirs(os.path.join(HERE, "data"), exist_ok=True)


setup_env()

from csvpath import CsvPath, CsvPaths  # noqa: E402
from csvpath.matching.matcher import Matcher  # noqa: E402
from csvpath.matching.productions.equality import Equality  # noqa: E402
from csvpath.matching.productions.variable import Variable  # noqa: E402
from csvpath.matching.productions.qualified import Qualified, Qualities  # noqa: E402

QUALS = [
    "onmatch",
    "latch",
    "onchange",
    "increase",
    "decrease",
    "notnone",
    "asbool",
    "nocontrib",
]


def section(title):
    print()
    print("=" * 72)
    print(title)
    print("=" * 72)


def write_file(name, rows):
    path = os.path.join(HERE, "data", name)
    with open(path, "w") as f:
        for r in rows:
            f.write(r + "\n")
    return path


def show_errors(p):
    errs = p.errors
    if not errs:
        return "errors=0"
    out = []
    for e in errs:
        out.append(
            f"{type(e.error).__name__}:{e.error}@line{e.line_count}/m{e.match_count}/s{e.scan_count}"
        )
    return f"errors={len(errs)} " + " ; ".join(out)


def explain(p):
    try:
        return [str(w) for w in p.matcher.explaination]
    except Exception as ex:  # pragma: no cover
        return f"<explain failed {type(ex).__name__}>"


def run_path(pathstr, *, how="collect", verbose=False):
    """runs one csvpath and returns a one-line transcript"""
    p = CsvPath()
    exc = ""
    lines = None
    try:
        p.parse(pathstr)
        if how == "collect":
            lines = p.collect()
        elif how == "next":
            lines = []
            for line in p.next():
                lines.append(list(line))
        elif how == "ff":
            p.fast_forward()
            lines = "ff"
    except Exception as ex:  # noqa
        exc = f" EXC={type(ex).__name__}:{ex}"
    try:
        variables = json.dumps(p.variables, sort_keys=True, default=repr)
    except Exception:
        variables = repr(p.variables)
    out = (
        f"lines={lines} vars={variables} valid={p.is_valid} stopped={p.stopped} "
        f"matches={p.match_count} {show_errors(p)}{exc}"
    )
    if verbose:
        out += f"\n      explain={explain(p)}"
    return out


# ----------------------------------------------------------------------
section("A. all 256 qualifier subsets x value sequences x rest-of-line patterns")
# ----------------------------------------------------------------------

SEQS = [
    ("1", "2", "3"),
    ("3", "2", "1"),
    ("1", "1", "1"),
    ("", "1", "1"),
    ("1", "", "2"),
    ("", "", ""),
    ("2", "2", "3"),
    ("2", "1", "3"),
    ("3", "", "3"),
    ("1", "2", ""),
    ("2", "3", "1"),
    ("", "2", "1"),
]
BOOL_SEQS = [
    ("true", "false", "true"),
    ("false", "false", "true"),
    ("", "true", "false"),
    ("false", "1", ""),
]
MS = ["yyy", "nnn", "yny"]

files = {}


def file_for(seq, m):
    key = (seq, m)
    if key not in files:
        name = f"a{len(files)}.csv"
        rows = ["n,y,m"]
        for i in range(3):
            rows.append(f"{i+1},{seq[i]},{m[i]}")
        files[key] = write_file(name, rows)
    return files[key]


count = 0
for r in range(len(QUALS) + 1):
    for subset in itertools.combinations(QUALS, r):
        qs = "".join(f".{q}" for q in subset)
        seqs = list(SEQS)
        if "increase" not in subset and "decrease" not in subset:
            seqs += BOOL_SEQS
        for seq in seqs:
            for m in MS:
                f = file_for(seq, m)
                pathstr = f'${f}[1*][ @x{qs} = #y  #m == "y" ]'
                p = CsvPath()
                exc = ""
                try:
                    p.parse(pathstr)
                    lines = p.collect()
                    nums = [ln[0] for ln in lines]
                except Exception as ex:  # noqa
                    nums = None
                    exc = f" EXC={type(ex).__name__}:{ex}"
                x = p.variables.get("x", "<unset>")
                print(
                    f"@x{qs} y={'/'.join(seq)} m={m} -> lines={nums} x={x!r} "
                    f"valid={p.is_valid} {show_errors(p)}{exc}"
                )
                count += 1
print(f"A: {count} runs")

# ----------------------------------------------------------------------
section("B. hand-written csvpaths: ints, zero, tracking, count(), OR, when/do, errors")
# ----------------------------------------------------------------------

f_num = write_file(
    "num.csv",
    [
        "n,y,m,k",
        "1,0,y,a",
        "2,5,y,b",
        "3,5,n,a",
        "4,0,y,b",
        "5,-2,y,a",
        "6,,n,b",
        "7,9,y,a",
        "8,7,y,b",
    ],
)
f_ragged = write_file(
    "ragged.csv",
    [
        "n,y,m",
        "1,4,y",
        "",
        "3",
        "4,2",
        "5,6,y,extra,more",
        "",
        "7,,y",
        "8,6,n",
        "9,6,y",
    ],
)
f_empty = write_file("empty.csv", [])
f_header_only = write_file("header_only.csv", ["n,y,m"])

B_PATHS = [
    # ints and zero
    '${F}[1*][ @x.increase = int(#y) ]',
    '${F}[1*][ @x.decrease = int(#y) ]',
    '${F}[1*][ @x.increase.notnone = int(#y) ]',
    '${F}[1*][ @x.increase.onmatch = int(#y) #m == "y" ]',
    '${F}[1*][ @x.decrease.nocontrib = int(#y) #m == "y" ]',
    '${F}[1*][ @x.increase.asbool = int(#y) ]',
    '${F}[1*][ @x.decrease.latch = int(#y) ]',
    '${F}[1*][ @x.increase.onchange = int(#y) ]',
    '${F}[1*][ @x.increase.decrease = int(#y) ]',
    '${F}[1*][ @x.asbool = int(#y) ]',
    '${F}[1*][ @x.notnone = #y ]',
    '${F}[1*][ @x.notnone.asbool = #y ]',
    '${F}[1*][ @x.latch.notnone = #y ]',
    '${F}[1*][ @x.onchange = #y ]',
    '${F}[1*][ @x.onchange.latch = #y ]',
    '${F}[1*][ @x.onchange.asbool = #m ]',
    # floats
    '${F}[1*][ @x.increase = float(#y) ]',
    # tracking values (first non-term qualifier)
    '${F}[1*][ @x.a.increase = int(#y) ]',
    '${F}[1*][ @x.increase.b = int(#y) ]',
    '${F}[1*][ @x.a.latch = #y @x.b.onchange = #m ]',
    '${F}[1*][ @x.trk.onmatch.notnone = #y #m == "y" ]',
    '${F}[1*][ @x.trk.other.onchange = #k ]',
    # count() / has_matches() imply onmatch
    '${F}[1*][ @c = count() #m == "y" ]',
    '${F}[1*][ @c.asbool = count() #m == "y" ]',
    '${F}[1*][ @c.nocontrib = count() #m == "n" ]',
    '${F}[1*][ @c.increase = count() #m == "y" ]',
    '${F}[1*][ @c.latch = count() #m == "y" ]',
    '${F}[1*][ @h = has_matches() #m == "y" ]',
    '${F}[1*][ @c = count(#m) ]',
    '${F}[1*][ @c.onmatch = count_lines() #m == "y" ]',
    # several onmatch assignments on the same line (look-ahead interplay)
    '${F}[1*][ @a.onmatch = #y @b.onmatch = count() #m == "y" ]',
    '${F}[1*][ @a.onmatch = #y @b.onmatch.increase = int(#y) ]',
    '${F}[1*][ @a.onmatch.onchange = #k @b.onmatch = #n #m == "y" ]',
    '${F}[1*][ @a.onmatch = #n @b.notnone = #y ]',
    '${F}[1*][ #m == "y" @a.onmatch = #n @b.increase.onmatch = int(#y) ]',
    # OR logic
    '~ logic-mode: OR ~ ${F}[1*][ @x = #y #m == "y" ]',
    '~ logic-mode: OR ~ ${F}[1*][ @x.onmatch = #y #m == "y" ]',
    '~ logic-mode: OR ~ ${F}[1*][ @x.notnone = #y #m == "q" ]',
    '~ logic-mode: OR ~ ${F}[1*][ @x.increase = int(#y) #m == "q" ]',
    '~ logic-mode: OR ~ ${F}[1*][ @x.onchange = #y #m == "q" ]',
    '~ logic-mode: OR ~ ${F}[1*][ @x.latch = #y #m == "q" ]',
    '~ logic-mode: OR ~ ${F}[1*][ @x.asbool = #y #m == "q" ]',
    '~ logic-mode: OR ~ ${F}[1*][ @x.nocontrib.notnone = #y #m == "q" ]',
    '~ logic-mode: OR ~ ${F}[1*][ @x.onmatch.asbool = int(#y) #m == "q" ]',
    '~ logic-mode: OR ~ ${F}[1*][ @x.onchange.asbool.notnone = #y ]',
    # when/do
    '${F}[1*][ #m == "y" -> @x.latch = #y ]',
    '${F}[1*][ #m == "y" -> @x.increase = int(#y) ]',
    '${F}[1*][ not(empty(#y)) -> @x.onchange = #k ]',
    '${F}[1*][ yes() -> @seen.k.notnone = #y ]',
    '${F}[1*][ #m == "y" -> @x.onmatch.increase = int(#y) #k == "a" ]',
    '${F}[*][ last() -> @final.onmatch = count_lines() ]',
    '${F}[*][ @t = #y last.nocontrib() -> @final = @t ]',
    # assignments from variables / terms / references to self
    '${F}[1*][ @x = "const" ]',
    '${F}[1*][ @x.onchange = "const" ]',
    '${F}[1*][ @x.latch.asbool = "false" ]',
    '${F}[1*][ @x.asbool = "true" ]',
    '${F}[1*][ @x.asbool = none() ]',
    '${F}[1*][ @x.notnone = none() ]',
    '${F}[1*][ @x.increase = @x ]',
    '${F}[1*][ @y = int(#y) @x.increase = @y ]',
    '${F}[1*][ @x.increase = add(@x, 1) ]',
    '${F}[1*][ @x.decrease = subtract(@x, 1) ]',
    '${F}[1*][ @x.latch = #n @z.onchange = @x ]',
    # printouts with variables
    '${F}[1*][ @x.increase.nocontrib = int(#y) print("line $.csvpath.line_number: x=$.variables.x") ]',
    '${F}[1*][ @x.onchange = #k print.onmatch("changed to $.variables.x at $.headers.n") ]',
    # qualifiers on functions (same Qualified getters)
    '${F}[1*][ push.distinct("ks", #k) push.notnone("ys", #y) ]',
    '${F}[1*][ tally.onmatch(#k) #m == "y" ]',
    '${F}[1*][ print.once("only once") @x.latch.onmatch = #n #m == "n" ]',
    '${F}[1*][ @c.onmatch = counter.onmatch.cnt(2) #m == "y" ]',
    # errors
    '${F}[1*][ @x = 5 @x.increase = #y ]',
    '${F}[1*][ @x = "s" @x.decrease = int(#y) ]',
    '${F}[1*][ @x.increase.notnone = #y @x.increase = int(#y) ]',
]

for f in (f_num, f_ragged, f_empty, f_header_only):
    print(f"--- file {os.path.basename(f)}")
    for tmpl in B_PATHS:
        pathstr = tmpl.replace("${F}", "$" + f)
        print(f"  {tmpl}")
        print(f"    -> {run_path(pathstr, verbose=True)}")

print("--- other run methods and repeated runs")
for tmpl in B_PATHS[:12] + B_PATHS[22:36]:
    pathstr = tmpl.replace("${F}", "$" + f_num)
    a = run_path(pathstr, how="next")
    b = run_path(pathstr, how="next")
    c = run_path(pathstr, how="ff")
    print(f"  {tmpl}")
    print(f"    next -> {a}")
    print(f"    next again identical: {a == b}")
    print(f"    ff   -> {c}")

print("--- error policy variations via modes")
for mode in (
    "no-raise, no-stop, collect, print",
    "no-raise, stop, fail",
    "no-raise, no-stop, no-fail, no-print",
    "raise",
):
    for body in (
        '@x = 5 @x.increase = #y',
        '@x = "s" @x.decrease.nocontrib = int(#y)',
        '@x.k = 5 @x.k.increase.asbool = #m',
    ):
        pathstr = f"~ validation-mode: {mode} ~ ${f_num}[1*][ {body} ]"
        print(f"  [{mode}] {body}")
        print(f"    -> {run_path(pathstr)}")


# ----------------------------------------------------------------------
section("C. Equality._do_assignment_new_impl grid (test-friendly entry point)")
# ----------------------------------------------------------------------

VALUES = [None, 0, 1, 2, "", "a", "b", [], 1.5, True, False, "true", "false"]


def tok(v):
    return repr(v)


def grid(AND, tracking):
    path = CsvPath()
    matcher = Matcher(csvpath=path, data="[yes()]")
    matcher.AND = AND
    eq = Equality(matcher=matcher)
    eq.matcher = matcher
    name = "a"
    rows = 0
    for flags in itertools.product([False, True], repeat=8):
        for lm in (True, False):
            toks = []
            crc = 0
            for cur in VALUES:
                for new in VALUES:
                    args = dict(zip(
                        ["onchange", "latch", "onmatch", "asbool", "nocontrib",
                         "notnone", "increase", "decrease"], flags))
                    args.update({
                        "noqualifiers": not any(flags),
                        "count": False,
                        "current_value": cur,
                        "new_value": new,
                        "line_matches": lm,
                    })
                    path.variables.clear()
                    matcher.explaination = []
                    try:
                        ret = eq._do_assignment_new_impl(
                            name=name, tracking=tracking, args=args
                        )
                        r = repr(ret)[0]
                    except Exception as ex:  # noqa
                        r = f"!{type(ex).__name__}"
                    w = "w" if name in path.variables else "-"
                    if w == "w":
                        got = path.variables[name]
                        if tracking is not None:
                            got = got[tracking]
                        assert got is new or got == new
                    toks.append(f"{r}{w}")
                    ex_strs = "|".join(str(x) for x in matcher.explaination)
                    crc = zlib.crc32(ex_strs.encode("utf-8"), crc)
            fl = "".join("1" if b else "0" for b in flags)
            print(f"AND={AND} trk={tracking} flags={fl} lm={lm:d} exp={crc:08x} {' '.join(toks)}")
            rows += 1
    return rows


print("flags order: onchange latch onmatch asbool nocontrib notnone increase decrease")
print("values (current x new, row-major): " + " ".join(tok(v) for v in VALUES))
n = grid(True, None)
n += grid(False, None)
n += grid(True, "trk")
print(f"C: {n} rows")

print("--- explanations in full for a few cells")
path = CsvPath()
matcher = Matcher(csvpath=path, data="[yes()]")
eq = Equality(matcher=matcher)
eq.matcher = matcher
for AND in (True, False):
    matcher.AND = AND
    for flags in (
        (0, 0, 0, 0, 0, 0, 0, 0),
        (0, 1, 0, 0, 0, 0, 0, 0),
        (1, 0, 0, 0, 0, 0, 0, 0),
        (1, 1, 0, 1, 0, 0, 0, 0),
        (0, 0, 1, 0, 0, 0, 0, 0),
        (0, 0, 1, 1, 1, 0, 0, 0),
        (0, 0, 0, 0, 0, 1, 0, 0),
        (0, 0, 0, 0, 0, 0, 1, 0),
        (0, 0, 0, 0, 0, 0, 0, 1),
        (0, 0, 0, 0, 0, 1, 1, 1),
        (1, 1, 1, 1, 1, 1, 1, 1),
        (0, 1, 0, 0, 0, 0, 1, 0),
        (1, 0, 0, 1, 0, 1, 0, 1),
    ):
        for cur, new, lm in (
            (None, 1, True),
            (1, 1, True),
            (1, 2, True),
            (2, 1, True),
            (1, None, True),
            (None, None, True),
            (0, 0, True),
            (1, 2, False),
            ("a", 1, True),
        ):
            args = dict(zip(
                ["onchange", "latch", "onmatch", "asbool", "nocontrib",
                 "notnone", "increase", "decrease"], [bool(b) for b in flags]))
            args.update({"noqualifiers": not any(flags), "count": False,
                         "current_value": cur, "new_value": new, "line_matches": lm})
            path.variables.clear()
            matcher.explaination = []
            try:
                ret = eq._do_assignment_new_impl(name="v", tracking=None, args=args)
            except Exception as ex:  # noqa
                ret = f"{type(ex).__name__}: {ex}"
            print(f"AND={AND} flags={''.join(map(str, flags))} cur={cur!r} new={new!r} lm={lm} -> {ret!r} vars={path.variables!r}")
            for w in matcher.explaination:
                print(f"      {w}")


# ----------------------------------------------------------------------
section("D. qualifier API of Qualified (as used by the assignment code)")
# ----------------------------------------------------------------------

path = CsvPath()
matcher = Matcher(csvpath=path, data="[yes()]")
PROPS = ["onmatch", "onchange", "asbool", "nocontrib", "latch", "increase",
         "decrease", "notnone", "distinct", "once"]


def qstate(v):
    props = " ".join(f"{p}={getattr(v, p)!r}" for p in PROPS)
    return (
        f"name={v.name!r} qualifiers={v.qualifiers!r} {props} known={v.has_known_qualifiers()!r} "
        f"first={v.first_non_term_qualifier()!r} first_d={v.first_non_term_qualifier('D')!r} "
        f"second={v.second_non_term_qualifier()!r} second_d={v.second_non_term_qualifier('D')!r}"
    )


NAMES = [
    "x",
    "x.onmatch",
    "x.latch.onchange",
    "x.trk",
    "x.trk.onmatch",
    "x.onmatch.trk",
    "x.trk.trk2",
    "x.trk.trk",
    "x.a.latch.b.c",
    "x.increase.decrease.notnone.asbool.nocontrib.onmatch.onchange.latch.distinct.once",
    "x.ONMATCH",
    "x.onmatch.onmatch",
    "x.",
    "x..latch",
    'x."quoted.name".latch',
]
for nm in NAMES:
    try:
        v = Variable(matcher, name=nm)
        print(f"{nm!r}: {qstate(v)}")
        for p in PROPS:
            before = getattr(v, p)
            setattr(v, p, True)
            mid = list(v.qualifiers)
            setattr(v, p, True)
            same = mid == list(v.qualifiers)
            setattr(v, p, False)
            after = list(v.qualifiers)
            setattr(v, p, False)
            print(f"    {p}: before={before!r} on={mid!r} idempotent={same} off={after!r} off2={v.qualifiers!r}")
            if before:
                setattr(v, p, True)
        print(f"    end: {qstate(v)}")
    except Exception as ex:  # noqa
        print(f"{nm!r}: EXC {type(ex).__name__}: {ex}")

v = Variable(matcher, name="z")
print("empty:", qstate(v))
v.set_qualifiers("latch.trk.onchange")
print("set_qualifiers:", qstate(v))
v.set_qualifiers(None)
print("set_qualifiers(None):", qstate(v))
v.qualifiers = None
print("qualifiers=None:", qstate(v))
v.add_qualifier("onmatch")
v.add_qualifier("onmatch")
v.add_qualifier("t")
print("add_qualifier:", qstate(v), v.has_qualifier("t"), v.has_qualifier("u"))
print("QUALIFIERS:", Qualified.QUALIFIERS)
print("Qualities:", [(q.name, q.value) for q in Qualities])


# ----------------------------------------------------------------------
section("E. named-paths group run with archive (CsvPaths)")
# ----------------------------------------------------------------------

STAMP = re.compile(r"\d{4}-\d{2}-\d{2}_\d{2}-\d{2}-\d{2}(\.\d+)?")


def norm(s):
    return STAMP.sub("<RUN>", s)


cp = CsvPaths()
cp.file_manager.add_named_file(name="num", path=f_num)
cp.file_manager.add_named_file(name="ragged", path=f_ragged)
cp.paths_manager.add_named_paths(
    name="assign",
    paths=[
        '~ id: plain ~ $[1*][ @x = #y @c = count() ]',
        '~ id: inc ~ $[1*][ @x.increase = int(#y) @k.onchange = #k ]',
        '~ id: onmatch ~ $[1*][ @x.onmatch.notnone = #y @n.onmatch.latch = #n #m == "y" ]',
        '~ id: asbool ~ $[1*][ @x.asbool = int(#y) @t.trk.nocontrib.decrease = int(#y) ]',
        '~ id: or logic-mode: OR ~ $[1*][ @x.notnone = #y #m == "q" ]',
    ],
)
for fname in ("num", "ragged"):
    for method in ("collect_paths", "fast_forward_paths"):
        try:
            getattr(cp, method)(filename=fname, pathsname="assign")
        except Exception as ex:  # noqa
            print(f"{method}({fname}) EXC {type(ex).__name__}: {ex}")
        results = cp.results_manager.get_named_results("assign")
        print(f"--- {method} on {fname}: {len(results)} results")
        for r in results:
            lines = r.lines
            try:
                lines = [list(x) for x in lines] if lines is not None else None
            except Exception:
                lines = f"<{type(lines).__name__}>"
            print(
                f"  {r.csvpath.identity}: valid={r.is_valid} vars={json.dumps(r.csvpath.variables, sort_keys=True, default=repr)} "
                f"errors={len(r.errors) if r.errors else 0} lines={lines}"
            )

print("--- archive listing")
arch = os.path.join(HERE, "archive")
seen_runs = {}
for root, dirs, fs in os.walk(arch):
    dirs.sort()
    rel = os.path.relpath(root, arch)
    parts = []
    for part in rel.split(os.sep):
        if STAMP.fullmatch(part):
            if part not in seen_runs:
                seen_runs[part] = f"<RUN{len(seen_runs)}>"
            part = seen_runs[part]
        parts.append(part)
    rel = "/".join(parts)
    for fn in sorted(fs):
        full = os.path.join(root, fn)
        line = f"{rel}/{fn}"
        if fn in ("vars.json", "data.csv", "unmatched.csv", "printouts.txt", "errors.json"):
            with open(full) as fh:
                content = fh.read()
            if fn == "errors.json":
                content = f"<{len(json.loads(content))} errors>"
            line += " :: " + norm(content).replace("\n", "\\n")
        print(line)

print()
print("done")
