#!/usr/bin/env python
"""Differential demonstration for property C12 (named-paths groups round-trip
and select by identity).

Run with cwd = an empty scratch directory and PYTHONPATH = the csvpath tree
under test. Prints a deterministic transcript of everything observable:
returned csvpaths, group files, manifests (time/uuid normalised), exceptions,
printouts, and the archive listing of a few runs (run dirs normalised).
"""
import io
import os
import re
import sys
import json
import shutil
import contextlib

CONFIG = """[csvpath_files]
extensions = txt, csvpath, csvpaths

[csv_files]
extensions = txt, csv, tsv, dat, tab, psv, ssv

[errors]
csvpath = raise, collect, stop, fail, print
csvpaths = raise, collect

[logging]
csvpath = info
csvpaths = info
log_file = logs/csvpath.log
log_files_to_keep = 100
log_file_size = 52428800

[config]
path = config/config.ini

[cache]
path = cache

[listeners]
[marquez]
base_url = http://localhost:5000

[functions]
imports = config/functions.imports

[results]
archive = archive
transfers = transfers

[inputs]
files = inputs/named_files
csvpaths = inputs/named_paths
on_unmatched_file_fingerprints = halt
"""

#
# a fresh, self-contained working directory: config, inputs, archive
#
for d in ["config", "inputs", "archive", "logs", "cache", "transfers", "work"]:
    if os.path.exists(d):
        shutil.rmtree(d)
os.makedirs("config")
os.makedirs("work")
with open("config/config.ini", "w", encoding="utf-8") as f:
    f.write(CONFIG)
with open("config/functions.imports", "w", encoding="utf-8") as f:
    f.write("")

from csvpath import CsvPaths, CsvPath  # noqa: E402
from csvpath.managers.paths.paths_manager import PathsManager  # noqa: E402

OUT = sys.stdout
NPD = os.path.join("inputs", "named_paths")
RUN_DIR = re.compile(r"\d{4}-\d{2}-\d{2}_\d{2}-\d{2}-\d{2}(\.\d+)?")


def say(*a):
    print(*a, file=OUT)


def norm(s):
    s = f"{s}"
    s = s.replace(os.getcwd(), "<CWD>")
    return RUN_DIR.sub("<RUN>", s)


def attempt(label, fn):
    """runs fn capturing stdout; prints result or exception, and printouts"""
    buf = io.StringIO()
    try:
        with contextlib.redirect_stdout(buf):
            r = fn()
        say(f"  {label} -> {norm(repr(r))}")
    except BaseException as ex:  # pylint: disable=W0718
        cause = ex.__cause__
        say(f"  {label} !! {type(ex).__name__}: {norm(ex)}")
        if cause is not None:
            say(f"      caused by {type(cause).__name__}: {norm(cause)}")
        r = None
    if buf.getvalue() != "":
        say(f"      stdout: {norm(repr(buf.getvalue()))}")
    return r


def dump_group(name):
    home = os.path.join(NPD, name)
    if not os.path.exists(home):
        say(f"  [{name}] no home dir")
        return
    say(f"  [{name}] home files: {sorted(os.listdir(home))}")
    grp = os.path.join(home, "group.csvpaths")
    if os.path.exists(grp):
        with open(grp, "r", encoding="utf-8") as file:
            say(f"  [{name}] group file: {file.read()!r}")
    mf = os.path.join(home, "manifest.json")
    if os.path.exists(mf):
        with open(mf, "r", encoding="utf-8") as file:
            j = json.load(file)
        say(f"  [{name}] manifest entries: {len(j)}")
        for i, m in enumerate(j):
            m = dict(m)
            for k in ["time", "uuid", "time_started", "time_completed"]:
                if k in m:
                    m[k] = f"<{k}>"
            say(f"    {i}: {norm(json.dumps(m, sort_keys=True))}")


def listing(root):
    """(normalised path, real path) for every file under root"""
    ret = []
    for base, dirs, files in os.walk(root):
        dirs.sort()
        for fn in sorted(files):
            p = os.path.join(base, fn)
            ret.append((norm(p), p))
    return sorted(ret)


SEEN = set()


def new_archive_files():
    """prints the files that appeared under ./archive since the last call. the
    run dir names depend on the clock so they are normalised; each run is
    listed on its own so the names cannot collide."""
    for p, real in listing("archive"):
        if real in SEEN:
            continue
        SEEN.add(real)
        say(f"    + {p}")
        if real.endswith(("data.csv", "printouts.txt", "unmatched.csv")):
            with open(real, "r", encoding="utf-8") as file:
                say(f"        {file.read()!r}")


def new_paths():
    buf = io.StringIO()
    with contextlib.redirect_stdout(buf):
        cp = CsvPaths()
    return cp


# ----------------------------------------------------------------------
say("=== 1. round trips ===")
GROUPS = {
    "plain": ["$[*][yes()]"],
    "two": ["$[*][yes()]", "~id:two~ $[*][#a==\"3\"]"],
    "ids": [
        "~id:wonderful~ $[*][#1 yes()]",
        "~Id:amazing~ $[*][#2 yes()]",
        "~ID:great~ $[*][#3 yes()]",
        "~name:fun~ $[*][#4 yes()]",
        "~Name:interesting~ $[*][#5 yes()]",
    ],
    "upper": ["~NAME:shouty~ $[*][yes()]", "~ NAME: x id: y ~ $[1][no()]"],
    "precedence": [
        "~ name: n1 id: i1 ~ $[*][yes()]",
        "~ NAME: n2 Name: m2 ~ $[*][yes()]",
        "~ ID: i3 Id: j3 name: n3 ~ $[*][yes()]",
        "~ description: no identity here ~ $[*][yes()]",
    ],
    "comments": [
        "~ id: first\n   description: spans\n   several lines ~\n$[*][\n   ~ an inner comment ~\n   yes()\n]",
        "\n\n  ~name: padded~   $[1*][ #0 == \"a\" ~ trailing inner ~ ]  \n\n",
        "$[*][ print(\"no outer comment\") ] ~ id: below ~",
    ],
    "dups": [
        "~id:same~ $[1][yes()]",
        "~id:same~ $[2][yes()]",
        "~id:other~ $[3][yes()]",
        "~id:same~ $[4][yes()]",
    ],
    "emptyid": ["~ id: ~ $[*][yes()]", "~ id:   name: zed ~ $[*][yes()]", "~~ $[*][no()]"],
    "odd ids": [
        "~ id: has space ~ $[*][yes()]",
        "~ id: a.b ~ $[*][yes()]",
        "~ id: 0 ~ $[*][yes()]",
        "~ id: x:y ~ $[*][yes()]",
    ],
    "with file": ["~id:f~ $work/f.csv[*][yes()]", "$work/f.csv[1][no()]"],
    "empty": [],
}

cp = new_paths()
pm = cp.paths_manager
for name, paths in GROUPS.items():
    say(f"-- group {name!r}: {len(paths)} csvpaths")
    attempt("add", lambda: pm.add_named_paths(name=name, paths=paths))
    got = attempt("get", lambda: pm.get_named_paths(name))
    if got is not None:
        same = [g.strip() for g in got] == [p.strip() for p in paths]
        say(f"  round trip equal up to whitespace: {same}")
    attempt("number_of_named_paths", lambda: pm.number_of_named_paths(name))
    attempt("identified", lambda: pm.get_identified_paths_in(name))
    dump_group(name)

attempt("named_paths_names", lambda: sorted(pm.named_paths_names))

# ----------------------------------------------------------------------
say("=== 2. selection by identity ===")
SELECT = {
    "two": ["two", "", "0", "1", "missing"],
    "ids": ["wonderful", "amazing", "great", "fun", "interesting", "Wonderful"],
    "upper": ["shouty", "y", "x"],
    "precedence": ["i1", "n1", "n2", "m2", "i3", "j3", "n3", ""],
    "comments": ["first", "padded", "below"],
    "dups": ["same", "other"],
    "emptyid": ["", "zed", "None", "name"],
    "odd ids": ["has space", "a.b", "a", "0", "x:y", "x"],
    "with file": ["f"],
    "empty": ["x"],
    "nosuch": ["x"],
}
for name, idents in SELECT.items():
    say(f"-- select in {name!r}")
    for ident in idents:
        for ref in [
            f"{name}#{ident}",
            f"${name}.csvpaths.{ident}",
            f"{name}#{ident}:from",
            f"${name}.csvpaths.{ident}:from",
            f"{name}#{ident}:to",
            f"${name}.csvpaths.{ident}:to",
        ]:
            attempt(f"get {ref!r}", lambda: pm.get_named_paths(ref))
            # asking again must give the same answer
            attempt(f"again {ref!r}", lambda: pm.get_named_paths(ref))

say("-- odd names and references")
ODD = [
    "nosuch",
    "two#",
    "#two",
    "two#two#two",
    "two#two:",
    "two#two:x",
    "two#two:from:to",
    "two#two:to:from",
    "two#:from",
    "two#:to",
    "$two.csvpaths.two:FROM",
    "$two.csvpaths.two.x",
    "$two.csvpaths.two#x",
    "$two#x.csvpaths.two",
    "$two.csvpaths",
    "$two.csvpaths.",
    "$two.variables.two",
    "$two.results.two",
    "$two.bogus.two",
    "$.csvpaths.two",
    "$two",
    "$",
    "",
    " two",
    "two ",
    "$nosuch.csvpaths.x",
    "$nosuch.csvpaths.x:from",
    None,
    5,
]
for ref in ODD:
    attempt(f"get {ref!r}", lambda: pm.get_named_paths(ref))
    attempt(f"again {ref!r}", lambda: pm.get_named_paths(ref))
attempt("named_paths_names", lambda: sorted(pm.named_paths_names))


class Name(str):
    """a str subclass: the library only ever calls str methods on it"""


attempt("get Name('two#two')", lambda: pm.get_named_paths(Name("two#two")))
attempt("get Name('$two.csvpaths.two:to')", lambda: pm.get_named_paths(Name("$two.csvpaths.two:to")))

# ----------------------------------------------------------------------
say("=== 3. add / re-add / replace / remove / new instance on two names ===")
A1 = ["~id:a~ $[*][yes()]", "~id:b~ $[*][no()]", "$[1][yes()]"]
A2 = ["~id:b~ $[*][no()]", "~id:c~ $[2][yes()]"]
B1 = ["~name:a~ $[*][#0]"]
shutil.rmtree(NPD)
os.makedirs(NPD)
cp = new_paths()
pm = cp.paths_manager


def state(tag):
    say(f"-- after {tag}")
    for n in ["A", "B"]:
        attempt(f"has {n}", lambda: pm.has_named_paths(n))
        attempt(f"get {n}", lambda: pm.get_named_paths(n))
        for ref in [f"{n}#a", f"${n}.csvpaths.b:from", f"{n}#b:to", f"${n}.csvpaths.c"]:
            attempt(f"get {ref!r}", lambda: pm.get_named_paths(ref))
        dump_group(n)


state("nothing")
attempt("add A=A1", lambda: pm.add_named_paths(name="A", paths=A1))
state("add A=A1")
attempt("re-add A=A1", lambda: pm.add_named_paths(name="A", paths=list(A1)))
state("re-add A=A1")
attempt("add B=B1", lambda: pm.add_named_paths(name="B", paths=B1))
attempt("replace A=A2", lambda: pm.add_named_paths(name="A", paths=A2))
state("add B=B1, replace A=A2")
cp = new_paths()
pm = cp.paths_manager
state("new instance")
attempt("re-add A=A2 on new instance", lambda: pm.add_named_paths(name="A", paths=A2))
attempt("replace A=A1", lambda: pm.add_named_paths(name="A", paths=A1))
state("re-add A2, replace A=A1")
attempt("remove B", lambda: pm.remove_named_paths("B"))
attempt("remove B again", lambda: pm.remove_named_paths("B"))
attempt("remove B strict", lambda: pm.remove_named_paths("B", strict=True))
state("remove B")
attempt("add B=A1", lambda: pm.add_named_paths(name="B", paths=A1))
attempt("set_named_paths", lambda: pm.set_named_paths({"A": B1, "B": A2}))
state("add B=A1 then set A=B1,B=A2")
attempt("remove_all", lambda: pm.remove_all_named_paths())
state("remove all")

# ----------------------------------------------------------------------
say("=== 4. error paths and the other ways in ===")
cp = new_paths()
pm = cp.paths_manager
attempt("paths is a str", lambda: pm.add_named_paths(name="bad", paths="$[*][yes()]"))
attempt("paths is None", lambda: pm.add_named_paths(name="bad", paths=None))
attempt("paths is a tuple", lambda: pm.add_named_paths(name="bad", paths=("$[*][yes()]",)))
dump_group("bad")
attempt("not a csvpath", lambda: pm.add_named_paths(name="bad1", paths=["$[*][yes()]", "hello"]))
attempt("get bad1", lambda: pm.get_named_paths("bad1"))
dump_group("bad1")
attempt("empty csvpath", lambda: pm.add_named_paths(name="bad2", paths=["$[*][yes()]", ""]))
attempt("get bad2", lambda: pm.get_named_paths("bad2"))
attempt("get bad2#x", lambda: pm.get_named_paths("bad2#x"))
dump_group("bad2")
attempt("blank csvpath", lambda: pm.add_named_paths(name="bad3", paths=["  \n ", "$[*][yes()]"]))
attempt("non-str csvpath", lambda: pm.add_named_paths(name="bad4", paths=[None]))
dump_group("bad4")
attempt("non-str csvpath 2", lambda: pm.add_named_paths(name="bad5", paths=[0]))
dump_group("bad5")
attempt("marker inside", lambda: pm.add_named_paths(name="mark", paths=["~id:m~ $[*][yes()] ---- CSVPATH ---- $[1][no()]"]))
attempt("get mark", lambda: pm.get_named_paths("mark"))
attempt("get mark#m", lambda: pm.get_named_paths("mark#m"))
dump_group("mark")
attempt("set_named_paths non-list", lambda: pm.set_named_paths({"ok": ["$[*][yes()]"], "nope": "$[*][yes()]"}))
attempt("has ok", lambda: pm.has_named_paths("ok"))
attempt("set_named_paths empty", lambda: pm.set_named_paths({}))

with open("work/one.csvpaths", "w", encoding="utf-8") as f:
    f.write("~id:one~ $[*][yes()]\n---- CSVPATH ----\n\n~id:two~\n$[*][no()]\n\n---- CSVPATH ----\n   \n")
os.makedirs("work/dir")
with open("work/dir/alpha.csvpaths", "w", encoding="utf-8") as f:
    f.write("~id:al~ $[*][yes()]")
with open("work/dir/beta.txt", "w", encoding="utf-8") as f:
    f.write("$[1][yes()] ---- CSVPATH ---- ~name:be~ $[2][yes()]")
with open("work/dir/.hidden.csvpaths", "w", encoding="utf-8") as f:
    f.write("$[*][no()]")
with open("work/dir/noext", "w", encoding="utf-8") as f:
    f.write("$[*][no()]")
with open("work/dir/other.csv", "w", encoding="utf-8") as f:
    f.write("a,b\n")
with open("work/np.json", "w", encoding="utf-8") as f:
    json.dump({"j1": ["work/one.csvpaths", "work/dir/alpha.csvpaths"], "j2": ["work/dir/beta.txt"]}, f)
with open("work/broken.json", "w", encoding="utf-8") as f:
    f.write("{ not json")
attempt("from_file", lambda: pm.add_named_paths(name="ff", from_file="work/one.csvpaths"))
attempt("get ff", lambda: pm.get_named_paths("ff"))
attempt("get ff#two", lambda: pm.get_named_paths("ff#two"))
dump_group("ff")
attempt("from_file missing", lambda: pm.add_named_paths(name="ffm", from_file="work/missing.csvpaths"))
attempt("from_dir named", lambda: pm.add_named_paths(name="fd", from_dir="work/dir"))
attempt("get fd sorted", lambda: sorted(pm.get_named_paths("fd") or []))
attempt("from_dir unnamed", lambda: pm.add_named_paths_from_dir(directory="work/dir"))
attempt("get alpha", lambda: pm.get_named_paths("alpha"))
attempt("get beta#be:to", lambda: pm.get_named_paths("beta#be:to"))
attempt("from_dir not a dir", lambda: pm.add_named_paths_from_dir(directory="work/one.csvpaths"))
attempt("from_dir None", lambda: pm.add_named_paths_from_dir(directory=None))
attempt("from_json", lambda: pm.add_named_paths(name="ignored", from_json="work/np.json"))
attempt("get j1", lambda: pm.get_named_paths("j1"))
attempt("get $j1.csvpaths.two:from", lambda: pm.get_named_paths("$j1.csvpaths.two:from"))
attempt("get j2", lambda: pm.get_named_paths("j2"))
dump_group("j1")
attempt("from_json broken", lambda: pm.add_named_paths_from_json("work/broken.json"))
attempt("from_json missing", lambda: pm.add_named_paths_from_json("work/missing.json"))
attempt("errors collected", lambda: [f"{e.error}" for e in cp.errors])

say("-- a group file edited by hand")
attempt("add hand", lambda: pm.add_named_paths(name="hand", paths=["~id:h~ $[*][yes()]"]))
with open(os.path.join(NPD, "hand", "group.csvpaths"), "a", encoding="utf-8") as f:
    f.write("\n\n---- CSVPATH ----\n\n~id:h2~ $[1][no()]")
attempt("get hand", lambda: pm.get_named_paths("hand"))
attempt("get hand#h2", lambda: pm.get_named_paths("hand#h2"))
attempt("number hand", lambda: pm.number_of_named_paths("hand"))
dump_group("hand")
say("-- a home dir without a group file")
os.makedirs(os.path.join(NPD, "hollow"))
attempt("get hollow", lambda: pm.get_named_paths("hollow"))
attempt("get hollow#x", lambda: pm.get_named_paths("hollow#x"))
attempt("get hollow#x:from", lambda: pm.get_named_paths("hollow#x:from"))
dump_group("hollow")

# ----------------------------------------------------------------------
with open("work/f.csv", "w", encoding="utf-8") as f:
    f.write("a,b,c\n1,2,3\n\n4,,6\n7,8\n0,0,0,0\n")
say("=== 5. CsvPath.identity ===")
METAS = [
    None,
    {},
    {"description": "d"},
    {"id": "a", "Id": "b", "ID": "c", "name": "d", "Name": "e", "NAME": "f"},
    {"Id": "b", "ID": "c", "name": "d", "Name": "e", "NAME": "f"},
    {"ID": "c", "name": "d", "Name": "e", "NAME": "f"},
    {"name": "d", "Name": "e", "NAME": "f"},
    {"Name": "e", "NAME": "f"},
    {"NAME": "f"},
    {"NAME": "f", "id": "a"},
    {"id": None, "name": "d"},
    {"id": "", "name": "d"},
    {"id": 0, "name": "d"},
    {"Id": [], "NAME": 3},
    {"iD": "x", "nAME": "y"},
    {"NAME": 0},
]
for m in METAS:
    c = CsvPath()
    c.metadata = m
    attempt(f"identity of {m!r}", lambda: c.identity)
for text in [
    "~ id: p1 ~ $work/f.csv[*][yes()]",
    "~ name: p2 Id: p3 ~ $work/f.csv[*][yes()]",
    "$work/f.csv[*][yes()]",
    "~ just words ~ $work/f.csv[*][yes()]",
    "~ id: ~ $work/f.csv[*][yes()]",
]:
    c = CsvPath()
    attempt(f"parse {text!r}", lambda: c.parse(text) and None)
    attempt("  identity", lambda: c.identity)
    attempt("  metadata", lambda: c.metadata)

# ----------------------------------------------------------------------
say("=== 6. runs that pick their csvpaths by reference ===")
with open("work/f.csv", "w", encoding="utf-8") as f:
    f.write("a,b,c\n1,2,3\n\n4,,6\n7,8\n0,0,0,0\n")
cp = new_paths()
pm = cp.paths_manager
attempt("add file", lambda: cp.file_manager.add_named_file(name="f", path="work/f.csv"))
RUN = [
    "~id:all~ $[*][yes()]",
    "~id:two~ $[*][#a==\"4\" print(\"four at $.csvpath.line_number\")]",
    "~name:three~ $[1*][#b @b = #b]",
    "$[*][no()]",
]
attempt("add run", lambda: pm.add_named_paths(name="run", paths=RUN))
for i, ref in enumerate(
    ["run", "run#two", "$run.csvpaths.two:from", "$run.csvpaths.three:to", "run#nope", "norun"]
):
    say(f"-- collect_paths {ref!r}")
    cp = new_paths()
    attempt("collect_paths", lambda: cp.collect_paths(filename="f", pathsname=ref))
    results = attempt("n results", lambda: len(cp.results_manager.get_named_results(ref)))
    if results:
        for r in cp.results_manager.get_named_results(ref):
            lines = [line for line in r.lines.next()]
            say(
                f"    identity={r.csvpath.identity!r} index={r.identity_or_index!r} lines={lines!r} "
                f"vars={r.csvpath.variables!r} valid={r.csvpath.is_valid} errors={r.errors_count} "
                f"printouts={r.get_printouts()!r}"
            )
        attempt("metadata applied", lambda: cp.results_manager.get_metadata(ref).get("csvpaths_applied"))
    new_archive_files()
say("-- fast_forward_paths and next_paths by reference")
cp = new_paths()
attempt("fast_forward_paths", lambda: cp.fast_forward_paths(filename="f", pathsname="run#all:to"))
new_archive_files()
cp = new_paths()
attempt("next_paths", lambda: [line for line in cp.next_paths(filename="f", pathsname="$run.csvpaths.three")])
new_archive_files()
cp = new_paths()
attempt("collect_by_line", lambda: cp.collect_by_line(filename="f", pathsname="run#three:to"))
new_archive_files()
dump_group("run")
# ----------------------------------------------------------------------
say("=== 7. the helpers, called directly ===")


class Tattle(dict):
    """a metadata dict that reports how it is consulted"""

    def __contains__(self, k):
        say(f"      contains({k!r})")
        return dict.__contains__(self, k)

    def __getitem__(self, k):
        say(f"      getitem({k!r})")
        return dict.__getitem__(self, k)


class Falsy(dict):
    def __bool__(self):
        return False


class Loud:
    def __init__(self, v):
        self.v = v

    def __format__(self, spec):
        say(f"      format({self.v!r}, {spec!r})")
        if self.v == "boom":
            raise ValueError("boom")
        return f"<{self.v}>"


for m in [Tattle(), Tattle(x=1), Tattle(NAME="n", name="m"), Tattle(Id=None, id=0), Falsy(id="hidden")]:
    c = CsvPath()
    c.metadata = m
    attempt(f"identity of {type(m).__name__}{dict(m)!r}", lambda: c.identity)

cp = new_paths()
pm = cp.paths_manager
for paths in [
    [],
    [""],
    ["$[*][yes()]"],
    ["a", "", " b ", "\n"],
    [None, 0, 1.5, ["x"]],
    ("t1", "t2"),
    iter(["g1", "g2"]),
    [Loud("a"), Loud("b")],
    [Loud("a"), Loud("boom"), Loud("c")],
    None,
    7,
]:
    label = re.sub(r" at 0x[0-9a-f]+", "", f"{paths!r}")
    attempt(f"_str_from_list({label})", lambda: pm._str_from_list(paths))
for pn in ["a", "a#b", "#b", "a#", "a#b#c", "", "$a.csvpaths.b"]:
    attempt(f"_paths_name_path({pn!r})", lambda: pm._paths_name_path(pn))
attempt("_group_file_path('gfp')", lambda: pm._group_file_path("gfp"))
attempt("has gfp", lambda: pm.has_named_paths("gfp"))
attempt("_get_named_paths('gfp')", lambda: pm._get_named_paths("gfp"))
attempt("_get_named_paths('never')", lambda: pm._get_named_paths("never"))
attempt("has never", lambda: pm.has_named_paths("never"))
attempt("_copy_in('gfp', ...)", lambda: pm._copy_in("gfp", "\n\n---- CSVPATH ----\n\n~id:g~ $[*][yes()]"))
attempt("_get_named_paths('gfp')", lambda: pm._get_named_paths("gfp"))
dump_group("gfp")
attempt("_find_one(None, 'x')", lambda: pm._find_one(None, "x"))
attempt("_find_one('run', 'two')", lambda: pm._find_one("run", "two"))
attempt("_get_to('run', 'zzz')", lambda: pm._get_to("run", "zzz"))
attempt("_get_from('run', 'zzz')", lambda: pm._get_from("run", "zzz"))
attempt("_get_to('run', '')", lambda: pm._get_to("run", ""))
attempt("_get_from('run', '')", lambda: pm._get_from("run", ""))
attempt("identified explicit", lambda: pm.get_identified_paths_in("ignored", paths=["~id:q~ $[*][yes()]", "~Name: r ~$[*][yes()]"]))
attempt("identified empty", lambda: pm.get_identified_paths_in("ignored", paths=[]))
say("-- inputs listing")
for p, real in listing(NPD):
    say(f"  {p}")
say("=== done ===")
