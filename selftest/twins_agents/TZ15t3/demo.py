#!/usr/bin/env python
"""Differential demonstration for property C15 (comment mode settings take
effect; matched and unmatched partition the file).

Usage:   PYTHONPATH=<tree under test> /venv/bin/python demo.py > transcript.txt

The script is self-contained: it creates a fresh temporary working directory
(with an offline config/config.ini), changes into it, writes its own data
files, runs everything and prints a deterministic transcript of everything
observable on standard out. Volatile values (timestamps, uuids, timings,
run-directory names, fingerprints of files holding timestamps, tracebacks)
are normalised. Run it against unmodified HEAD and against the refactored
tree: the two transcripts must be byte-identical.
"""
import contextlib
import io
import itertools
import json
import os
import random
import re
import shutil
import sys
import tempfile
import traceback

REAL_OUT = sys.stdout

CONFIG = """[csvpath_files]
extensions = txt, csvpath, csvpaths

[csv_files]
extensions = txt, csv, tsv, dat, tab, psv, ssv

[errors]
csvpath = collect, fail, print
csvpaths = collect

[logging]
csvpath = info
csvpaths = info
log_file = logs/csvpath.log
log_files_to_keep = 100
log_file_size = 52428800

[config]
path = config/config.ini

[cache]
path = cache

[listeners]
[marquez]
base_url = http://localhost:5000

[functions]
imports = config/functions.imports

[results]
archive = archive
transfers = transfers

[inputs]
files = inputs/named_files
csvpaths = inputs/named_paths
on_unmatched_file_fingerprints = halt
"""

FILES = {
    "plain.csv": "a,b,c\n1,2,3\n4,5,6\n7,8,9\n1,0,0\n3,3,3\n",
    # blank lines in the middle and a blank last line
    "blanks.csv": "a,b,c\n1,2,3\n\n4,5,6\n\n\n7,8,9\n\n",
    # ragged rows, empty values, zeros, whitespace
    "ragged.csv": "a,b,c\n1\n1,2\n1,2,3,4,5\n,,\n0,0,0\n 1 , ,x\n3,,\n",
    "empty.csv": "",
    "header_only.csv": "a,b,c\n",
    # the characters the comment grammar cares about, as data
    "chars.csv": 'a,b,c\n"x]y","~t~","$f[1]"\n"#h","a:b","]"\n1,"[",3\n',
    "pipes.csv": "a|b|c\n1|2|3\n'4|4'|5|6\n\n7||9\n",
}


def out(*args):
    print(*args, file=REAL_OUT)


_VOLATILE_KEYS = {
    "time",
    "uuid",
    "time_completed",
    "run_time",
    "run_started_at",
    "lines_time",
    "last_line_time",
    "named_paths_uuid",
    "at",
    "trace",
    "named_file_last_change",
}
_RUN_DIR = re.compile(r"\d{4}-\d{2}-\d{2}_\d{2}-\d{2}-\d{2}(_\d+)?")
_TRACE_LINE = re.compile(r'File "[^"]*", line \d+')
_DATETIME = re.compile(r"\d{4}-\d{2}-\d{2}[ T]\d{2}:\d{2}:\d{2}(\.\d+)?(\+00:00)?")
_OBJ_ADDR = re.compile(r" at 0x[0-9a-f]+")


def norm_text(s: str) -> str:
    s = _RUN_DIR.sub("<RUN>", s)
    s = _TRACE_LINE.sub('File "<F>", line <N>', s)
    s = _DATETIME.sub("<DATETIME>", s)
    s = _OBJ_ADDR.sub(" at <ADDR>", s)
    return s


def norm_json(o, key=None):
    if isinstance(o, dict):
        r = {}
        for k, v in o.items():
            if k in _VOLATILE_KEYS:
                r[k] = "<V>" if v is not None else None
            elif k == "file_fingerprints" and isinstance(v, dict):
                # files that hold timestamps have volatile fingerprints
                r[k] = {
                    kk: ("<V>" if kk in ("meta.json", "manifest.json", "errors.json") else vv)
                    for kk, vv in v.items()
                }
            else:
                r[k] = norm_json(v, k)
        return r
    if isinstance(o, list):
        return [norm_json(_, key) for _ in o]
    if isinstance(o, str):
        return norm_text(o)
    return o


def exc_str(e: BaseException) -> str:
    return norm_text(f"{type(e).__name__}: {e}")


def dump_tree(root: str) -> None:
    """prints the listing and the normalised contents of every file below root"""
    if not os.path.exists(root):
        out(f"  [tree {root}] does not exist")
        return
    paths = []
    for base, dirs, files in os.walk(root):
        dirs.sort()
        for f in sorted(files):
            paths.append(os.path.join(base, f))
    # run dirs sort by time == by name, so their order is stable
    paths.sort()
    runs = {}
    for p in paths:
        m = _RUN_DIR.search(p)
        if m and m.group(0) not in runs:
            runs[m.group(0)] = f"<RUN{len(runs)}>"

    def rn(s):
        for k, v in runs.items():
            s = s.replace(k, v)
        return s

    for p in paths:
        out(f"  [file] {rn(p)}")
        with open(p, "r", encoding="utf-8") as f:
            text = f.read()
        if p.endswith(".json"):
            try:
                j = json.loads(text)
                text = json.dumps(norm_json(json.loads(rn(json.dumps(j)))), indent=1)
            except Exception as e:  # pylint: disable=W0718
                text = f"(unparsable json: {exc_str(e)}) {norm_text(rn(text))}"
        else:
            text = norm_text(rn(text))
        for line in text.split("\n"):
            out(f"      | {line}")


def printer_names(path) -> list:
    return [type(p).__name__ for p in path.printers] if path.printers is not None else None


def describe_path(path, indent="    ") -> None:
    """everything observable on a CsvPath instance"""
    i = indent

    def attempt(name, fn):
        try:
            out(f"{i}{name}: {fn()!r}")
        except Exception as e:  # pylint: disable=W0718
            out(f"{i}{name}: raised {exc_str(e)}")

    attempt("metadata", lambda: json.dumps(path.metadata))
    attempt("identity", lambda: path.identity)
    attempt("scan", lambda: path.scan)
    attempt("match", lambda: path.match)
    attempt("filename", lambda: path.scanner.filename if path.scanner else None)
    attempt(
        "mode strings",
        lambda: [
            path.return_mode,
            path.unmatched_mode,
            path.run_mode,
            path.print_mode,
            path.logic_mode,
            path.explain_mode,
            path.validation_mode,
            path.source_mode,
            path.files_mode,
            path.transfer_mode,
        ],
    )
    attempt(
        "mode values",
        lambda: [
            path.collect_when_not_matched,
            path.unmatched_available,
            path.will_run,
            path.AND,
            path.OR,
            path.explain,
            path.data_from_preceding,
        ],
    )
    attempt("printers", lambda: printer_names(path))
    attempt("has_default_printer", lambda: path.has_default_printer)
    attempt("all_expected_files", lambda: path.all_expected_files)
    attempt("transfers", lambda: path.transfers)
    attempt(
        "validation",
        lambda: [
            path.print_validation_errors,
            path.raise_validation_errors,
            path.match_validation_errors,
            path.stop_on_validation_errors,
            path.fail_on_validation_errors,
            path.log_validation_errors,
        ],
    )


def describe_run(path, indent="    ") -> None:
    i = indent
    out(f"{i}variables: {json.dumps(path.variables, default=str)}")
    out(
        f"{i}is_valid={path.is_valid} stopped={path.stopped} completed={safe(lambda: path.completed)}"
        f" scan_count={path.scan_count} match_count={path.match_count}"
        f" collecting={path.collecting} frozen={path.is_frozen}"
    )
    out(f"{i}unmatched: {path.unmatched!r}")
    out(f"{i}headers: {safe(lambda: path.headers)!r}")
    lm = path._line_monitor  # pylint: disable=W0212
    out(f"{i}line_monitor: {lm.dump() if lm is not None else None}")
    errs = path.errors
    out(f"{i}errors: {len(errs) if errs is not None else None}")
    for e in errs or []:
        out(
            f"{i}  error: line={e.line_count} scan={e.scan_count} match={e.match_count}"
            f" class={type(e.error).__name__} msg={norm_text(str(e.message))!r}"
        )
    out(f"{i}printers after: {printer_names(path)}")


def safe(fn):
    try:
        return fn()
    except Exception as e:  # pylint: disable=W0718
        return f"raised {exc_str(e)}"


def show_captured(buf: io.StringIO, indent="    ") -> None:
    text = buf.getvalue()
    if text == "":
        out(f"{indent}stdout: (nothing)")
    else:
        out(f"{indent}stdout:")
        for line in norm_text(text).split("\n"):
            out(f"{indent}  > {line}")


def run_standalone(label, csvpath_str, *, method="collect", again=False, **kwargs):
    """parse and run one csvpath on a fresh CsvPath; print all there is to see"""
    from csvpath import CsvPath

    out(f"--- {label}: {method} {csvpath_str!r} {kwargs if kwargs else ''}")
    buf = io.StringIO()
    path = None
    with contextlib.redirect_stdout(buf):
        try:
            path = CsvPath(**kwargs)
            path.parse(csvpath_str)
        except Exception as e:  # pylint: disable=W0718
            out(f"    parse raised {exc_str(e)}")
            if path is not None:
                describe_path(path)
            show_captured(buf)
            return path
    describe_path(path)
    rounds = 2 if again else 1
    for r in range(rounds):
        if again:
            out(f"    round {r}")
        with contextlib.redirect_stdout(buf):
            try:
                if method == "collect":
                    lines = path.collect()
                    out(f"    returned: {lines!r}")
                elif method == "collect2":
                    lines = path.collect(nexts=2)
                    out(f"    returned: {lines!r}")
                elif method == "next":
                    lines = []
                    for line in path.next():
                        lines.append(line[:])
                    out(f"    returned: {lines!r}")
                elif method == "fast_forward":
                    path.fast_forward()
                    out("    returned: n/a")
            except Exception as e:  # pylint: disable=W0718
                out(f"    run raised {exc_str(e)}")
        describe_run(path)
    show_captured(buf)
    return path


def setup_workdir() -> str:
    d = tempfile.mkdtemp(prefix="demo_TZC15_")
    os.chdir(d)
    os.makedirs("config")
    with open("config/config.ini", "w", encoding="utf-8") as f:
        f.write(CONFIG)
    with open("config/functions.imports", "w", encoding="utf-8") as f:
        f.write("")
    for name, text in FILES.items():
        with open(name, "w", encoding="utf-8") as f:
            f.write(text)
    return d


MODE_VALUES = {
    "return-mode": [None, "matches", "no-matches"],
    "unmatched-mode": [None, "keep", "no-keep"],
    "run-mode": [None, "run", "no-run"],
    "print-mode": [None, "default", "no-default"],
    "logic-mode": [None, "AND", "OR"],
}


def mode_comment(combo, extra="") -> str:
    parts = []
    for k, v in zip(MODE_VALUES.keys(), combo):
        if v is not None:
            parts.append(f"{k}: {v}")
    body = " ".join(parts)
    if extra:
        body = f"{extra} {body}"
    return f"~ {body} ~" if body else ""


def section_mode_matrix() -> None:
    """all 243 combinations of the five modes of the property, on two files,
    checking the partition of the file into collected and unmatched lines"""
    from csvpath import CsvPath

    out("=== mode matrix")
    match = '[ #a == "1" #b == "2" print("line $.csvpath.line_number") ]'
    for fname in ["blanks.csv", "ragged.csv"]:
        for combo in itertools.product(*MODE_VALUES.values()):
            comment = mode_comment(combo, extra="id: m")
            s = f"{comment} ${fname}[*]{match}"
            buf = io.StringIO()
            with contextlib.redirect_stdout(buf):
                path = CsvPath()
                path.parse(s)
                lines = path.collect()
            printed = buf.getvalue().count("\n")
            out(
                f"{fname} {combo}: collected={lines!r} unmatched={path.unmatched!r}"
                f" printed={printed} printers={printer_names(path)} vars={json.dumps(path.variables)}"
                f" valid={path.is_valid} scan={path.scan_count} match={path.match_count}"
                f" meta={json.dumps(path.metadata)}"
            )


def run_group(label, *, paths, filename_path, method, delimiter=None, **kw) -> None:
    """runs a named-paths group with CsvPaths; prints results and the archive"""
    from csvpath import CsvPaths

    out(f"--- group {label}: {method} {kw if kw else ''}")
    for p in paths:
        out(f"    path: {p!r}")
    for d in ["archive", "inputs", "cache", "transfers"]:
        shutil.rmtree(d, ignore_errors=True)
    buf = io.StringIO()
    with contextlib.redirect_stdout(buf):
        try:
            cp = CsvPaths() if delimiter is None else CsvPaths(delimiter=delimiter)
            cp.file_manager.add_named_file(name="f", path=filename_path)
            cp.paths_manager.add_named_paths(name="g", paths=paths)
            ret = None
            if method == "collect_paths":
                cp.collect_paths(filename="f", pathsname="g")
            elif method == "fast_forward_paths":
                cp.fast_forward_paths(filename="f", pathsname="g")
            elif method == "next_paths":
                ret = [
                    line[:]
                    for line in cp.next_paths(filename="f", pathsname="g", **kw)
                ]
            elif method == "collect_by_line":
                ret = cp.collect_by_line(filename="f", pathsname="g", **kw)
            elif method == "fast_forward_by_line":
                ret = cp.fast_forward_by_line(filename="f", pathsname="g", **kw)
            elif method == "next_by_line":
                ret = [
                    line[:]
                    for line in cp.next_by_line(filename="f", pathsname="g", **kw)
                ]
            out(f"    returned: {ret!r}")
            results = cp.results_manager.get_named_results("g")
            for r in results:
                lines = r.lines
                if lines is not None and not isinstance(lines, list):
                    lines = [_ for _ in lines.next()]
                out(
                    f"    result {r.csvpath.identity!r}: lines={lines!r} unmatched={r.unmatched!r}"
                    f" valid={r.is_valid} errors={len(r.errors) if r.errors is not None else None}"
                    f" printouts={json.dumps(r.printouts) if isinstance(r.printouts, list) else dict(r.printouts)!r}"
                )
                for e in r.errors or []:
                    out(
                        f"      error: line={e.line_count} class={type(e.error).__name__} msg={norm_text(str(e.message))!r}"
                    )
                out(f"      variables: {json.dumps(r.csvpath.variables, default=str)}")
                out(f"      metadata: {json.dumps(r.csvpath.metadata, default=str)}")
                out(f"      printers: {printer_names(r.csvpath)}")
        except Exception as e:  # pylint: disable=W0718
            out(f"    raised {exc_str(e)}")
    show_captured(buf)
    dump_tree("archive")
    dump_tree("transfers")


GROUP_PATHS = [
    '~ id: one unmatched-mode: keep ~ $[*][#a=="1" print("one: $.csvpath.line_number")]',
    '~ id:two run-mode: no-run ~ $[*][#a=="3"]',
    '~ id: three return-mode: no-matches unmatched-mode: keep print-mode: no-default description: the others ~ $[1*][#a=="1" print("three: $.csvpath.line_number")]',
    '~ name: four logic-mode: OR files-mode: all note: a or b ~ $[*][#a=="7" #b=="2" @n = count()]',
    '$[*][~ no outer comment ~ yes() collect(0, 2)]',
    '~ id: six unmatched-mode: keep validation-mode: no-raise, no-print ~ $[0-3][ #a == "4" collect("c", "a") ]',
]


def section_groups() -> None:
    out("=== named-paths groups")
    for fname in ["blanks.csv", "ragged.csv"]:
        run_group(f"{fname}", paths=GROUP_PATHS, filename_path=fname, method="collect_paths")
    run_group("ff", paths=GROUP_PATHS, filename_path="blanks.csv", method="fast_forward_paths")
    run_group("next", paths=GROUP_PATHS, filename_path="blanks.csv", method="next_paths", collect=True)
    run_group("next nocollect", paths=GROUP_PATHS[0:3], filename_path="plain.csv", method="next_paths")
    run_group("by_line", paths=GROUP_PATHS, filename_path="blanks.csv", method="collect_by_line")
    run_group(
        "by_line agree",
        paths=GROUP_PATHS[0:4],
        filename_path="ragged.csv",
        method="collect_by_line",
        if_all_agree=True,
    )
    run_group(
        "by_line not matched",
        paths=GROUP_PATHS[0:4],
        filename_path="plain.csv",
        method="collect_by_line",
        collect_when_not_matched=True,
    )
    run_group("ff by_line", paths=GROUP_PATHS, filename_path="ragged.csv", method="fast_forward_by_line")
    run_group("empty file", paths=GROUP_PATHS[0:3], filename_path="empty.csv", method="collect_paths")
    run_group(
        "bad mode",
        paths=['~ id: bad return-mode: sometimes ~ $[*][yes()]', GROUP_PATHS[0]],
        filename_path="plain.csv",
        method="collect_paths",
    )
    run_group(
        "bad print mode by line",
        paths=[GROUP_PATHS[0], '~ id: badp print-mode: loud ~ $[*][yes()]'],
        filename_path="plain.csv",
        method="collect_by_line",
    )


def main(sections) -> None:
    start = os.getcwd()
    d = setup_workdir()
    try:
        for s in sections:
            s()
        out("=== done")
    except Exception:  # pylint: disable=W0718
        out("DEMO FAILED")
        out(norm_text(traceback.format_exc()))
        raise
    finally:
        os.chdir(start)
        shutil.rmtree(d, ignore_errors=True)


# ======================================================================
# t3: CsvPath._keep_unmatched extracted from next() and shared with
# CsvPaths.next_by_line; identity walks its keys in a loop; an unused
# enumerate() and an `if x: pass / else:` rewritten.
# ======================================================================


def section_identity() -> None:
    from csvpath import CsvPath

    out("=== t3 identity")

    class Loud(dict):
        """a dict that tells what is asked of it"""

        def __init__(self, *a, **k):
            super().__init__(*a, **k)
            self.asked = []

        def __contains__(self, k):
            self.asked.append(("in", k))
            return super().__contains__(k)

        def __getitem__(self, k):
            self.asked.append(("get", k))
            return super().__getitem__(k)

    keys = ["id", "Id", "ID", "name", "Name", "NAME"]
    metas = [None, {}, {"other": "x"}, {"iD": "no", "nAme": "no"}]
    for k in keys:
        metas.append({k: f"the {k}"})
    for a, b in itertools.combinations(keys, 2):
        metas.append({b: f"the {b}", a: f"the {a}"})
    metas.append({k: f"the {k}" for k in reversed(keys)})
    for v in ["", 0, None, False, [], "0", 1.5]:
        metas.append({"id": v, "name": "a name"})
        metas.append({"Name": v, "NAME": "upper"})
    for m in metas:
        path = CsvPath()
        path.metadata = m
        out(f"{m!r}: identity={safe(lambda: path.identity)!r}")
        if m is not None:
            loud = Loud(m)
            path.metadata = loud
            out(f"    asked: identity={safe(lambda: path.identity)!r} {loud.asked!r}")
    out("=== t3 identity from comments")
    for c in [
        "~ id: a ~",
        "~ name: n id: i ~",
        "~ NAME: N Name: n name: nn ~",
        "~ ID: X Id: x ~",
        "~ id: ~",
        "~ id: 0 ~",
        "~ identity: no ~",
        "~ id:first ~ $plain.csv[*][yes()] ~ id: second ~",
        "",
    ]:
        path = CsvPath()
        r = safe(lambda: type(path.parse(f"{c} $plain.csv[*][yes()]")).__name__)
        out(f"{c!r}: parse={r!r} identity={path.identity!r} metadata={json.dumps(path.metadata)}")
        out(f"    str: {norm_text(' '.join(str(path).split()))}")


def section_has_default_printer() -> None:
    import logging
    from csvpath import CsvPath
    from csvpath.util.printer import StdOutPrinter, TestPrinter, LogPrinter

    out("=== t3 has_default_printer, last_line, lines_printed")
    a, b, c, d = StdOutPrinter(), TestPrinter(), LogPrinter(logging.getLogger("demo")), TestPrinter()
    for name, printers in [
        ("none", None),
        ("empty", []),
        ("std", [a]),
        ("test", [b]),
        ("log", [c]),
        ("test std", [b, a]),
        ("test test", [b, d]),
        ("tuple", (b, a)),
        ("empty tuple", ()),
        ("gen", (p for p in [b, a])),
        ("zero", 0),
        ("number", 5),
    ]:
        path = CsvPath(print_default=False)
        path.printers = printers
        r = safe(lambda: path.has_default_printer)
        after = path.printers
        if after is not None and not isinstance(after, (list, tuple, int)):
            after = type(after).__name__
        elif isinstance(after, (list, tuple)):
            after = type(after)(type(p).__name__ for p in after)
        out(
            f"{name}: {r!r} printers after={after!r}"
            f" last_line={safe(lambda: path.last_line)!r} lines_printed={safe(lambda: path.lines_printed)!r}"
        )
    for kw in [{}, {"print_default": False}, {"print_default": True}]:
        path = CsvPath(**kw)
        out(f"CsvPath({kw}): {path.has_default_printer!r} {printer_names(path)}")


def section_parse_disposably() -> None:
    from csvpath import CsvPath

    out("=== t3 parse(disposably=...)")
    s = '~ id: d return-mode: no-matches ~ $plain.csv[1-2][ #a == "1" @x = "y" ]'
    for d in [False, True, None, 0, 1, "", "yes", [], [0]]:
        path = CsvPath()
        buf = io.StringIO()
        with contextlib.redirect_stdout(buf):
            try:
                r = path.parse(s, disposably=d)
                what = "self" if r is path else type(r).__name__
            except Exception as e:  # pylint: disable=W0718
                what = f"raised {exc_str(e)}"
        out(
            f"disposably={d!r}: returned {what} scan={path.scan!r} match={path.match!r}"
            f" scanner={'yes' if path.scanner else 'no'} matcher={'yes' if path.matcher else 'no'}"
            f" line_monitor={'yes' if path._line_monitor else 'no'} headers={path._headers!r}"
            f" metadata={json.dumps(path.metadata)} collect_when_not_matched={path.collect_when_not_matched}"
        )
        show_captured(buf)
        if path.scanner:
            out(f"    collect: {safe(path.collect)!r}")
    for bad in ["~ id: x ~ $plain.csv[*]", "$[*][yes()]", "$plain.csv[*][nosuchfunction()]", "~ x ~"]:
        for d in [False, True]:
            path = CsvPath()
            buf = io.StringIO()
            with contextlib.redirect_stdout(buf):
                r = safe(lambda: type(path.parse(bad, disposably=d)).__name__)
            out(f"{bad!r} disposably={d}: {r!r} scan={path.scan!r} match={path.match!r} valid={path.is_valid} errors={len(path.errors or [])}")
            show_captured(buf)


class Bag:
    """something with append() that is not a list"""

    def __init__(self):
        self.got = []

    def append(self, x):
        self.got.append(("bag", x))

    def __repr__(self):
        return f"Bag({self.got!r})"


def section_keep_unmatched() -> None:
    from csvpath import CsvPath

    out("=== t3 keeping unmatched lines, standalone")
    matches = [
        '[ #a == "1" ]',
        '[ #a == "1" collect(0, 2) ]',
        '[ #a == "1" collect("c", "a") ]',
        '[ #a == "1" collect(4) ]',
        '[ collect(1) #b == "2" ]',
        '[ #a == "1" #b == "2" collect(0) ]',
        '[ no() ]',
        '[ yes() ]',
        '[ #a == "1" stop() ]',
        '[ skip() #a == "1" ]',
        '[ #a == "4" advance(1) ]',
        '[ #a == "1" last() -> @l = "l" ]',
    ]
    for fname in ["plain.csv", "blanks.csv", "ragged.csv", "empty.csv", "header_only.csv"]:
        for m in matches:
            for comment in [
                "~ unmatched-mode: keep ~",
                "~ unmatched-mode: keep return-mode: no-matches ~",
            ]:
                run_standalone("keep", f"{comment} ${fname}[*]{m}")
    run_standalone("no-keep", '~ unmatched-mode: no-keep ~ $ragged.csv[*][ #a == "1" collect(0, 2) ]')
    run_standalone("default", '$ragged.csv[*][ #a == "1" collect(0, 2) ]')
    run_standalone("keep next", '~ unmatched-mode: keep ~ $ragged.csv[*][ #a == "1" collect(0, 2) ]', method="next")
    run_standalone("keep ff", '~ unmatched-mode: keep ~ $ragged.csv[*][ #a == "1" ]', method="fast_forward")
    run_standalone("keep two", '~ unmatched-mode: keep ~ $ragged.csv[*][ #a == "1" ]', method="collect2")
    run_standalone("keep twice", '~ unmatched-mode: keep ~ $ragged.csv[*][ #a == "1" collect(2) ]', again=True)
    run_standalone("keep blanks", '~ unmatched-mode: keep ~ $blanks.csv[*][ #a == "1" collect(1) ]', skip_blank_lines=False)
    run_standalone("keep scan", '~ unmatched-mode: keep ~ $blanks.csv[2-4][ #a == "4" ]')
    run_standalone("keep no-run", '~ unmatched-mode: keep run-mode: no-run ~ $plain.csv[*][ #a == "4" ]')
    out("=== t3 keeping unmatched lines, hand-set state")
    for label, prep in [
        ("unmatched preset", lambda p: setattr(p, "unmatched", [["pre"]])),
        ("unmatched a bag", lambda p: setattr(p, "unmatched", Bag())),
        ("unmatched empty list", lambda p: setattr(p, "unmatched", [])),
        ("limit set by hand", lambda p: setattr(p, "limit_collection_to", [2, 0, 9, -1, -9, None])),
        ("limit a string", lambda p: setattr(p, "limit_collection_to", ["a"])),
        ("limit a tuple", lambda p: setattr(p, "limit_collection_to", (1,))),
        ("keep set by hand", lambda p: setattr(p, "unmatched_available", True)),
        ("keep unset by hand", lambda p: setattr(p, "unmatched_available", False)),
        ("keep set to a word", lambda p: setattr(p, "unmatched_available", "yes")),
        ("keep set to none", lambda p: setattr(p, "unmatched_available", None)),
    ]:
        for method in ["collect", "next", "next collecting"]:
            path = CsvPath()
            buf = io.StringIO()
            with contextlib.redirect_stdout(buf):
                path.parse('~ unmatched-mode: keep ~ $ragged.csv[*][ #a == "1" #b == "2" ]')
                prep(path)
                try:
                    if method == "collect":
                        lines = path.collect()
                    else:
                        if method == "next collecting":
                            path.collecting = True
                        lines = [_[:] for _ in path.next()]
                    out(f"{label} / {method}: returned {lines!r}")
                except Exception as e:  # pylint: disable=W0718
                    out(f"{label} / {method}: raised {exc_str(e)}")
            out(
                f"    unmatched={path.unmatched!r} metadata={json.dumps(path.metadata)}"
                f" scan={path.scan_count} match={path.match_count} stopped={path.stopped} errors={len(path.errors or [])}"
            )
            show_captured(buf)
    out("=== t3 _keep-style partition check")
    for fname in ["plain.csv", "blanks.csv", "ragged.csv", "chars.csv"]:
        for skip in [True, False]:
            for inverted in [False, True]:
                path = CsvPath(skip_blank_lines=skip)
                c = "~ unmatched-mode: keep" + (" return-mode: no-matches ~" if inverted else " ~")
                path.parse(f'{c} ${fname}[*][ #a == "1" ]')
                try:
                    lines = path.collect()
                except Exception as e:  # pylint: disable=W0718
                    out(
                        f"{fname} skip={skip} inverted={inverted}: raised {exc_str(e)}"
                        f" unmatched={path.unmatched!r} scan={path.scan_count}"
                    )
                    continue
                with open(fname, "r", encoding="utf-8") as f:
                    import csv

                    records = [r for r in csv.reader(f)]
                out(
                    f"{fname} skip={skip} inverted={inverted}: collected={lines!r} unmatched={path.unmatched!r}"
                    f" records={len(records)} sum={len(lines) + len(path.unmatched or [])}"
                )


def section_groups_t3() -> None:
    out("=== t3 by-line groups keeping unmatched lines")
    paths = [
        '~ id: k1 unmatched-mode: keep ~ $[*][ #a == "1" collect(0, 2) ]',
        '~ id: k2 unmatched-mode: keep return-mode: no-matches ~ $[*][ #a == "1" collect("b") ]',
        '~ id: k3 unmatched-mode: no-keep ~ $[*][ #a == "1" ]',
        '~ id: k4 unmatched-mode: keep run-mode: no-run ~ $[*][ #a == "1" ]',
        '~ id: k5 unmatched-mode: keep ~ $[2-4][ #a == "4" collect(5) ]',
        '~ id: k6 unmatched-mode: keep ~ $[*][ #a == "7" stop() ]',
    ]
    for fname in ["plain.csv", "blanks.csv", "ragged.csv", "empty.csv"]:
        for method, kw in [
            ("collect_by_line", {}),
            ("collect_by_line", {"if_all_agree": True}),
            ("collect_by_line", {"collect_when_not_matched": True}),
            ("next_by_line", {"collect": True}),
            ("next_by_line", {"collect": False}),
            ("fast_forward_by_line", {}),
            ("collect_paths", {}),
            ("next_paths", {"collect": True}),
        ]:
            run_group(f"{fname}", paths=paths, filename_path=fname, method=method, **kw)


if __name__ == "__main__":
    main(
        [
            section_identity,
            section_has_default_printer,
            section_parse_disposably,
            section_keep_unmatched,
            section_groups_t3,
            section_mode_matrix,
            section_groups,
        ]
    )
