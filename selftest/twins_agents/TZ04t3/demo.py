#!/usr/bin/env python
"""Differential demonstration for property C04 (validity verdict).

Standalone: creates its own temp working directory (with an offline
config/config.ini), runs a fixed set of csvpaths against a fixed set of files
under several error policies, standalone (CsvPath) and as named-paths groups
(CsvPaths), and prints a deterministic transcript of everything observable:
returned lines, variables, validity, stop state, counts, errors, printouts,
stdout, INFO+ log records and the contents of ./archive.

Usage:  PYTHONPATH=<tree> /venv/bin/python demo.py > out.txt

Normalisations (things that differ between any two runs of the SAME code):
timestamps, run-directory names (-> RUN1, RUN2 ... in creation order), uuids,
sha256 fingerprints, object addresses, the temp dir and package paths, the two
wall-clock timing fields of meta.json, and the line numbers / quoted source
text inside Python tracebacks (the frames, i.e. file + function, are kept).
"""
import contextlib
import datetime
import hashlib
import io
import json
import logging
import os
import re
import sys
import tempfile

FOCUS = "t3: result verdict aggregates with all()/any()/sum()"

# lark lists the terminals it expected from a set of str: fix the str hash seed
# so that a syntax error message is the same text in every run.
if os.environ.get("PYTHONHASHSEED") != "0":
    os.environ["PYTHONHASHSEED"] = "0"
    os.execv(sys.executable, [sys.executable] + sys.argv)

WD = os.path.realpath(tempfile.mkdtemp(prefix="demo_TZC04_"))
os.chdir(WD)

CONFIG = """[csvpath_files]
extensions = txt, csvpath, csvpaths

[csv_files]
extensions = txt, csv, tsv, dat, tab, psv, ssv

[errors]
csvpath = {csvpath_policy}
csvpaths = {csvpaths_policy}

[logging]
csvpath = info
csvpaths = info
log_file = logs/csvpath.log
log_files_to_keep = 100
log_file_size = 52428800

[config]
path = config/config.ini

[cache]
path = cache

[listeners]
[marquez]
base_url = http://localhost:5000

[functions]
imports = config/functions.imports

[results]
archive = archive
transfers = transfers

[inputs]
files = inputs/named_files
csvpaths = inputs/named_paths
on_unmatched_file_fingerprints = halt
"""

DEFAULT_POLICY = "raise, collect, stop, fail, print"


def write_config(csvpath_policy=DEFAULT_POLICY, csvpaths_policy="raise, collect"):
    os.makedirs("config", exist_ok=True)
    with open("config/config.ini", "w", encoding="utf-8") as f:
        f.write(
            CONFIG.format(
                csvpath_policy=csvpath_policy, csvpaths_policy=csvpaths_policy
            )
        )
    with open("config/functions.imports", "a", encoding="utf-8"):
        pass


write_config()

import csvpath as _pkg  # noqa: E402
from csvpath import CsvPath, CsvPaths  # noqa: E402
from csvpath.util.printer import Printer  # noqa: E402

PKG = os.path.dirname(os.path.realpath(_pkg.__file__))
ROOT = os.path.dirname(PKG)

# ----------------------------------------------------------------------------
# data files
# ----------------------------------------------------------------------------
FILES = {
    "plain.csv": "a,b,c\n1,0,x\n2,5,y\n3,7,z\n4,0,w\n",
    "blanks.csv": "a,b,c\n1,0,x\n\n2,5,y\n\n\n3,7,z\n\n",
    "ragged.csv": "a,b,c\n1\n2,5\n3,7,z,extra,more\n,,\n4,0,w\n",
    "empties.csv": "a,b,c\n,0,\n0,,0\n3,,z\n\"\",\"\",\"\"\n 3 , 7 ,z\n",
    "header_only.csv": "a,b,c\n",
    "one_line_no_nl.csv": "3,0,q",
    "pipes.csv": "a|b|c\n1|0|'x|y'\n3|7|z\n",
    "numbers.csv": "a,b,c\n1,0,10\n2,5,20\n3,7,30\n4,0,40\n",
}
for _n, _c in FILES.items():
    with open(_n, "w", encoding="utf-8") as _f:
        _f.write(_c)

# ----------------------------------------------------------------------------
# capture: logs, printers
# ----------------------------------------------------------------------------
LOG = []


class _ListHandler(logging.Handler):
    def emit(self, record):
        try:
            msg = record.getMessage()
        except Exception as ex:  # pylint: disable=W0718
            msg = f"<unformattable log record {record.msg!r}: {ex}>"
        LOG.append((record.name, record.levelname, msg))


_h = _ListHandler(level=logging.INFO)
logging.getLogger("csvpath").addHandler(_h)
logging.getLogger("csvpaths").addHandler(_h)

# wall-clock dependent log lines
_LOG_DENY = (
    re.compile(r"^Iteration time was "),
    re.compile(r" per line$"),
    re.compile(r"^Counting lines and getting headers took "),
)


class CapPrinter(Printer):
    def __init__(self):
        self.items = []

    @property
    def last_line(self):
        return self.items[-1][1] if self.items else None

    @property
    def lines_printed(self) -> int:
        return len(self.items)

    def print(self, string: str) -> None:
        self.print_to(None, string)

    def print_to(self, name: str, string: str) -> None:
        self.items.append((name, string))


# ----------------------------------------------------------------------------
# normalisation
# ----------------------------------------------------------------------------
RUN_LABELS = {}
RE_RUNDIR = re.compile(r"^(\d{4}-\d{2}-\d{2}_\d{2}-\d{2}-\d{2})(?:\.(\d+))?$")


def _scan_run_dirs():
    if not os.path.isdir("archive"):
        return
    for name in sorted(os.listdir("archive")):
        d = os.path.join("archive", name)
        if not os.path.isdir(d):
            continue
        runs = []
        for r in os.listdir(d):
            m = RE_RUNDIR.match(r)
            if m and os.path.isdir(os.path.join(d, r)):
                t = datetime.datetime.strptime(m.group(1), "%Y-%m-%d_%H-%M-%S")
                n = int(m.group(2)) if m.group(2) is not None else -1
                runs.append(((t, n), r))
        runs.sort()
        for i, (_, r) in enumerate(runs):
            RUN_LABELS[(name, r)] = f"RUN{i + 1}"


RE_TRACE_FILE = re.compile(r'^\s*File "([^"]+)", line \d+, in (.+)$')
RE_SUBS = [
    (re.compile(r"[0-9a-f]{8}-[0-9a-f]{4}-[0-9a-f]{4}-[0-9a-f]{4}-[0-9a-f]{12}"), "<UUID>"),
    (re.compile(r"\b[0-9a-f]{64}\b"), "<SHA>"),
    (
        re.compile(
            r"\d{4}-\d{2}-\d{2}[T ]\d{2}:\d{2}:\d{2}(\.\d+)?(\+\d{2}:\d{2})?"
        ),
        "<TS>",
    ),
    (re.compile(r"\d{4}-\d{2}-\d{2}_\d{2}-\d{2}-\d{2}(\.\d+)?"), "<RUNTS>"),
    (
        re.compile(r"[A-Z][a-z]{2} [A-Z][a-z]{2} [ \d]\d \d{2}:\d{2}:\d{2} \d{4}"),
        "<CTIME>",
    ),
    (re.compile(r"0x[0-9a-fA-F]{6,}"), "0xADDR"),
]


# DEMO_RAW_TRACES=1 keeps tracebacks as they are (line numbers and quoted
# source text included). only for looking at what the normalisation hides; the
# transcript is then not comparable between two versions of a file.
RAW_TRACES = os.environ.get("DEMO_RAW_TRACES") == "1"


def _norm_trace(s: str) -> str:
    if RAW_TRACES:
        return s
    out = []
    skipping = False
    for ln in s.split("\n"):
        m = RE_TRACE_FILE.match(ln)
        if m:
            out.append(f"  File {os.path.basename(m.group(1))} in {m.group(2)}")
            skipping = True
            continue
        if skipping and ln.startswith("    "):
            # quoted source text and caret markers
            continue
        skipping = False
        out.append(ln)
    return "\n".join(out)


def norm(s) -> str:
    s = f"{s}"
    if "Traceback (most recent call last)" in s:
        s = _norm_trace(s)
    # run dirs first: archive/<name>/<run>
    for (name, run), label in sorted(
        RUN_LABELS.items(), key=lambda kv: -len(kv[0][1])
    ):
        s = s.replace(f"{name}{os.sep}{run}", f"{name}{os.sep}{label}")
    s = s.replace(WD, "<WD>").replace(ROOT, "<ROOT>")
    for rx, rep in RE_SUBS:
        s = rx.sub(rep, s)
    return s


TIME_KEYS = {"lines_time", "last_line_time"}


def _walk(o):
    if isinstance(o, dict):
        return {
            k: (
                "<T>"
                if k in TIME_KEYS
                else "<RUNDIR>"
                if k == "run" and isinstance(v, str)
                else _walk(v)
            )
            for k, v in o.items()
        }
    if isinstance(o, list):
        return [_walk(v) for v in o]
    if isinstance(o, str) and "Traceback (most recent call last)" in o:
        return _norm_trace(o)
    return o


def norm_json_text(text: str) -> str:
    try:
        o = json.loads(text)
    except Exception:  # pylint: disable=W0718
        return text
    o = _walk(o)
    if isinstance(o, dict):
        return "\n".join(f"{json.dumps(k)}: {json.dumps(v)}" for k, v in o.items())
    if isinstance(o, list):
        return "\n".join(f"- {json.dumps(v)}" for v in o)
    return json.dumps(o)


# ----------------------------------------------------------------------------
# output
# ----------------------------------------------------------------------------
BUF = []


def emit(s="") -> None:
    BUF.append(f"{s}")


def flush() -> None:
    _scan_run_dirs()
    text = "\n".join(BUF)
    BUF.clear()
    sys.stdout.write(norm(text) + "\n")


def emit_logs() -> None:
    _scan_run_dirs()
    for name, level, msg in LOG:
        if any(rx.search(msg) for rx in _LOG_DENY):
            continue
        msg = f"{msg}"
        if "Traceback (most recent call last)" in msg:
            msg = _norm_trace(msg)
        lines = msg.split("\n")
        emit(f"  LOG {name} {level} {lines[0]}")
        if len(lines) > 1:
            # the long records are the dumps of Error objects, which are
            # printed in full under "errors:"; here a digest is enough
            digest = hashlib.sha1(norm("\n".join(lines[1:])).encode("utf-8")).hexdigest()
            emit(f"  LOG   | (+{len(lines) - 1} lines, sha1 {digest[:16]})")
    LOG.clear()


def jdump(o) -> str:
    return json.dumps(o, sort_keys=True, default=str)


def emit_errors(errors, indent="  ") -> None:
    if errors is None:
        emit(f"{indent}errors: None")
        return
    emit(f"{indent}errors: {len(errors)}")
    for i, e in enumerate(errors):
        try:
            j = _walk(e.to_json())
        except Exception as ex:  # pylint: disable=W0718
            j = {"unserialisable": f"{type(ex).__name__}: {ex}"}
        emit(f"{indent}  error[{i}] class={getattr(e, 'exception_class', None)}")
        for k, v in j.items():
            if k == "json" and isinstance(v, str):
                # the component tree as json: long, and kept in full in the
                # errors.json files of the archive dumps
                d = hashlib.sha1(v.encode("utf-8")).hexdigest()[:16]
                emit(f"{indent}    {k}: ({len(v)} chars, sha1 {d})")
                continue
            v = json.dumps(v) if isinstance(v, str) else repr(v)
            emit(f"{indent}    {k}: {v}")


def emit_exception(ex, indent="  ") -> None:
    emit(f"{indent}EXCEPTION {type(ex).__module__}.{type(ex).__name__}: {ex}")
    c = ex.__cause__
    depth = 0
    while c is not None and depth < 5:
        emit(f"{indent}  caused by {type(c).__module__}.{type(c).__name__}: {c}")
        c = c.__cause__
        depth += 1


def emit_path_state(p, indent="  ") -> None:
    emit(f"{indent}is_valid: {p.is_valid!r}")
    emit(f"{indent}stopped: {p.stopped!r}  aborted: {p.aborted!r}")
    try:
        emit(f"{indent}completed: {p.completed!r}")
    except Exception as ex:  # pylint: disable=W0718
        emit(f"{indent}completed: EXC {type(ex).__name__}: {ex}")
    emit(f"{indent}scan_count: {p.scan_count}  match_count: {p.match_count}")
    try:
        lm = p.line_monitor
    except Exception as ex:  # pylint: disable=W0718
        emit(f"{indent}line_monitor: EXC {type(ex).__name__}: {ex}")
        lm = None
    if lm is not None:
        emit(
            f"{indent}line_number: {lm.physical_line_number}  "
            f"line_count: {lm.physical_line_count}  data_lines: {lm.data_line_count}"
        )
    else:
        emit(f"{indent}line_monitor: None")
    emit(f"{indent}variables: {jdump(p.variables)}")
    emit(f"{indent}metadata: {jdump(p.metadata)}")
    emit(f"{indent}unmatched: {p.unmatched!r}")
    try:
        emit(f"{indent}has_errors: {p.has_errors()!r}")
    except Exception as ex:  # pylint: disable=W0718
        emit(f"{indent}has_errors: EXC {type(ex).__name__}: {ex}")


# ----------------------------------------------------------------------------
# standalone scenarios
# ----------------------------------------------------------------------------
_SCENARIO = [0]


def standalone(
    csvpath,
    *,
    policy=None,
    method="collect",
    runs=1,
    nexts=None,
    mid_policy=None,
    **kwargs,
) -> None:
    """runs one CsvPath. method: collect | fast_forward | next.
    runs>1 drives the same instance again after the first run ended.
    mid_policy: (n, policy) replaces the policy after the n-th line that
    next() returns (method 'next' only)."""
    _SCENARIO[0] += 1
    emit(f"=== S{_SCENARIO[0]} standalone method={method} policy={policy} kwargs={kwargs}")
    emit(f"  csvpath: {csvpath}")
    out = io.StringIO()
    cap = CapPrinter()
    p = None
    with contextlib.redirect_stdout(out):
        try:
            p = CsvPath(**kwargs)
            p.add_printer(cap)
            if policy is not None:
                p.config.csvpath_errors_policy = list(policy)
        except Exception as ex:  # pylint: disable=W0718
            emit_exception(ex)
    for run in range(runs):
        if p is None:
            break
        emit(f"  -- run {run + 1}")
        with contextlib.redirect_stdout(out):
            try:
                if run == 0:
                    p.parse(csvpath)
                if method == "collect":
                    if nexts is None:
                        lines = p.collect()
                    else:
                        lines = p.collect(nexts=nexts)
                    emit(f"  returned: {lines!r}")
                elif method == "fast_forward":
                    p.fast_forward()
                    emit("  returned: (fast_forward)")
                else:
                    n = 0
                    for line in p.next():
                        n += 1
                        emit(
                            f"  next -> {line!r}  [is_valid={p.is_valid!r} "
                            f"stopped={p.stopped!r} line={p.line_monitor.physical_line_number}]"
                        )
                        if mid_policy is not None and n == mid_policy[0]:
                            p.config.csvpath_errors_policy = list(mid_policy[1])
                            emit(f"  (policy replaced by {mid_policy[1]})")
            except Exception as ex:  # pylint: disable=W0718
                emit_exception(ex)
        emit_path_state(p)
        emit_errors(p.errors)
        emit(f"  printouts: {cap.items!r}")
        emit(f"  stdout: {out.getvalue()!r}")
        out.seek(0)
        out.truncate()
        emit_logs()
    flush()


# ----------------------------------------------------------------------------
# named-paths scenarios
# ----------------------------------------------------------------------------
def dump_tree(root: str) -> None:
    if not os.path.isdir(root):
        emit(f"  (no directory {root})")
        return
    entries = []
    for dirpath, dirnames, filenames in os.walk(root):
        dirnames.sort()
        for fn in sorted(filenames):
            entries.append(os.path.join(dirpath, fn))

    def _key(path):
        # order run dirs by creation order, not by their (timestamp) names
        parts = path.split(os.sep)
        if len(parts) > 2 and (parts[1], parts[2]) in RUN_LABELS:
            parts[2] = RUN_LABELS[(parts[1], parts[2])]
        return parts

    _scan_run_dirs()
    entries.sort(key=_key)
    for path in entries:
        with open(path, "r", encoding="utf-8") as f:
            text = f.read()
        if path.endswith(".json"):
            text = norm_json_text(text)
        emit(f"  FILE {path} ({'empty' if text == '' else 'content follows'})")
        for ln in text.split("\n") if text != "" else []:
            emit(f"    | {ln}")


_GROUP = [0]


def group(
    paths,
    *,
    file="plain.csv",
    method="collect_paths",
    csvpath_policy=DEFAULT_POLICY,
    csvpaths_policy="raise, collect",
    runs=1,
    rewrite_between=None,
    **kwargs,
) -> None:
    """runs a named-paths group with a CsvPaths. runs>1 repeats the run with
    the same CsvPaths instance. rewrite_between: new content for the data file,
    written (and re-registered) between run 1 and run 2."""
    _GROUP[0] += 1
    name = f"g{_GROUP[0]}"
    fname = f"f{_GROUP[0]}"
    emit(
        f"=== G{_GROUP[0]} group method={method} file={file} csvpath_policy=[{csvpath_policy}] "
        f"csvpaths_policy=[{csvpaths_policy}] kwargs={kwargs}"
    )
    for i, s in enumerate(paths):
        emit(f"  path[{i}]: {s}")
    write_config(csvpath_policy, csvpaths_policy)
    out = io.StringIO()
    cp = None
    with contextlib.redirect_stdout(out):
        try:
            cp = CsvPaths()
            cp.file_manager.add_named_file(name=fname, path=file)
            cp.paths_manager.add_named_paths(name=name, paths=list(paths))
        except Exception as ex:  # pylint: disable=W0718
            emit_exception(ex)
    for run in range(runs):
        if cp is None:
            break
        emit(f"  -- run {run + 1}")
        if run == 1 and rewrite_between is not None:
            with open(file, "w", encoding="utf-8") as f:
                f.write(rewrite_between)
            with contextlib.redirect_stdout(out):
                try:
                    cp.file_manager.add_named_file(name=fname, path=file)
                except Exception as ex:  # pylint: disable=W0718
                    emit_exception(ex)
        with contextlib.redirect_stdout(out):
            try:
                m = getattr(cp, method)
                if method.startswith("next"):
                    for line in m(filename=fname, pathsname=name, **kwargs):
                        emit(f"  next -> {line!r}")
                else:
                    ret = m(filename=fname, pathsname=name, **kwargs)
                    emit(f"  returned: {ret!r}")
            except Exception as ex:  # pylint: disable=W0718
                emit_exception(ex)
        rm = cp.results_manager
        for label, fn in (
            ("results_manager.is_valid", lambda: rm.is_valid(name)),
            ("results_manager.has_errors", lambda: rm.has_errors(name)),
            ("results_manager.get_number_of_results", lambda: rm.get_number_of_results(name)),
            ("results_manager.get_number_of_errors", lambda: rm.get_number_of_errors(name)),
            ("results_manager.has_lines", lambda: rm.has_lines(name)),
            ("results_manager.get_variables", lambda: jdump(rm.get_variables(name))),
            ("results_manager.get_metadata", lambda: jdump(rm.get_metadata(name))),
        ):
            try:
                emit(f"  {label}: {fn()!r}")
            except Exception as ex:  # pylint: disable=W0718
                emit(f"  {label}: EXC {type(ex).__name__}: {ex}")
        try:
            results = rm.get_named_results(name)
        except Exception as ex:  # pylint: disable=W0718
            emit(f"  get_named_results: EXC {type(ex).__name__}: {f'{ex}'.splitlines()[0]}")
            results = []
        for i, r in enumerate(results):
            emit(f"  result[{i}] identity={r.identity_or_index!r} is_valid={r.is_valid!r}")
            emit_path_state(r.csvpath, indent="    ")
            emit(f"    result.errors_count: {r.errors_count}  has_errors: {r.has_errors()!r}")
            emit_errors(r.errors, indent="    ")
            emit(f"    result.printouts: {jdump(r.get_printouts())}")
            emit(f"    result.unmatched: {r.unmatched!r}")
        emit(f"  csvpaths.errors: {len(cp.errors)}")
        emit_errors(cp.errors, indent="  ")
        emit(f"  stdout: {out.getvalue()!r}")
        out.seek(0)
        out.truncate()
        emit_logs()
        emit(f"  archive/{name}:")
        dump_tree(os.path.join("archive", name))
        if rewrite_between is not None and run == runs - 1:
            with open(file, "w", encoding="utf-8") as f:
                f.write(FILES[file])
    write_config()
    flush()


# ============================================================================
# scenarios
# ============================================================================
print(f"demo for C04; focus: {FOCUS}")

# ---- 1. fail / fail_and_stop / stop / skip / failed / valid, standalone -----
VERDICT = [
    "[yes()]",
    '[#a == "3" -> fail()]',
    "[fail()]",
    '[#b == "0" -> fail_and_stop()]',
    '[fail_and_stop(#a == "3")]',
    '[fail_and_stop(#a == "nope")]',
    "[fail_and_stop()]",
    '[stop(#a == "3")]',
    '[#a == "2" -> stop()]',
    "[stop()]",
    '[stop_all(#a == "3")]',
    '[skip(#a == "3") push("seen", #a)]',
    '[skip.once(#b == "0") push("seen", #a)]',
    '[skip.once() push("seen", #a)]',
    '[skip() push("seen", #a)]',
    '[#a == "2" -> skip() push("seen", #a)]',
    '[skip_all(#a == "3") push("seen", #a)]',
    '[skip_all.once() push("seen", #a)]',
    '[#a == "2" -> fail() failed() -> push("f", line_number()) valid() -> push("v", line_number())]',
    '[failed() -> stop() #a == "2" -> fail()]',
    '[push("fv", failed()) push("vv", valid()) #a == "3" -> fail()]',
    '[#b == "5" -> fail_all() #a == "3" -> stop_all()]',
    '[fail.onmatch() #a == "3"]',
    '[fail_and_stop.onmatch() #a == "3"]',
    '[stop.onmatch() #a == "3"]',
    '[skip.onmatch() #a == "3" push("seen", #a)]',
    "[last() -> fail()]",
    "[last.nocontrib() -> fail_and_stop()]",
    '[#a == "3" -> fail_and_stop() push("after", #a)]',
    '[push("before", #a) #a == "3" -> fail_and_stop()]',
    '[@n = count() @n == 2 -> fail_and_stop()]',
    '[not(fail_and_stop(#a == "3"))]',
    '[or(stop(#a == "9"), #a == "2")]',
]
for body in VERDICT:
    standalone(f"$plain.csv[*]{body}")

# other scan parts, logic/return/unmatched/run modes
for s in [
    "$plain.csv[2-3][fail()]",
    '$plain.csv[1+3][#a == "3" -> fail_and_stop()]',
    '$plain.csv[3][fail_and_stop(#a == "3")]',
    '$plain.csv[0][stop()]',
    '~ logic-mode: OR ~ $plain.csv[*][#a == "3" -> fail() no()]',
    '~ logic-mode: OR ~ $plain.csv[*][fail_and_stop(#a == "3") #b == "5"]',
    '~ logic-mode: OR ~ $plain.csv[*][stop(#a == "3") #b == "5"]',
    '~ logic-mode: OR ~ $plain.csv[*][skip(#a == "3") #b == "0"]',
    '~ logic-mode: OR ~ $plain.csv[*][stop() no()]',
    '~ return-mode: no-matches ~ $plain.csv[*][#a == "3" -> fail_and_stop()]',
    '~ unmatched-mode: keep ~ $plain.csv[*][#a == "3" -> fail_and_stop()]',
    '~ unmatched-mode: keep ~ $plain.csv[*][skip(#a == "3") #b == "0"]',
    "~ run-mode: no-run ~ $plain.csv[*][fail()]",
    '~ id: named print-mode: no-default ~ $plain.csv[*][#a == "3" -> fail_and_stop() print("line $.csvpath.line_number")]',
    '~ explain-mode: explain ~ $plain.csv[*][#a == "3" -> fail_and_stop()]',
]:
    standalone(s)

# other files: blank lines, ragged rows, empty values, header only, no newline
for f in [
    "blanks.csv",
    "ragged.csv",
    "empties.csv",
    "header_only.csv",
    "one_line_no_nl.csv",
]:
    for body in [
        '[#a == "3" -> fail()]',
        '[fail_and_stop(#a == "3")]',
        '[#a == "3" -> fail_and_stop()]',
        '[stop(#b == "7")]',
        '[skip(#a == "3") push("seen", #a)]',
        '[skip.once(empty(#b)) push("seen", #a)]',
        "[last() -> fail()]",
        "[last() -> fail_and_stop()]",
        '[fail_and_stop(#b == "0")]',
        '[not(#c) -> fail()]',
        '[#a == 0 -> fail()]',
        '[stop(#a == 3)]',
    ]:
        standalone(f"${f}[*]{body}")
    standalone(f'${f}[*][#a == "3" -> fail_and_stop()]', skip_blank_lines=False)
    standalone(f'${f}[*][stop(#b == "7")]', skip_blank_lines=False)
    standalone(f"${f}[*][last() -> fail_and_stop()]", skip_blank_lines=False)
    standalone(f'${f}[*][skip(#a == "3") push("seen", #a)]', skip_blank_lines=False)

# delimiter / quotechar
standalone("$pipes.csv[*][#a == \"3\" -> fail_and_stop()]", delimiter="|", quotechar="'")
standalone("$pipes.csv[*][stop(#c == \"x|y\")]", delimiter="|", quotechar="'")
standalone("$pipes.csv[*][stop(#c == \"x|y\")]", delimiter="|")
standalone('$pipes.csv[*][#a == "3" -> fail()]')

# methods: fast_forward, next, collect with nexts; the same instance run again
for body in [
    '[#a == "3" -> fail()]',
    '[fail_and_stop(#a == "3")]',
    '[stop(#a == "2")]',
    '[skip.once(#a == "2") push("seen", #a)]',
    '[#a == "2" -> fail() failed() -> push("f", line_number())]',
]:
    standalone(f"$plain.csv[*]{body}", method="fast_forward")
    standalone(f"$plain.csv[*]{body}", method="next")
    standalone(f"$plain.csv[*]{body}", method="collect", nexts=2)
    standalone(f"$plain.csv[*]{body}", method="collect", runs=2)
    standalone(f"$plain.csv[*]{body}", method="next", runs=2)
    standalone(f"$blanks.csv[*]{body}", method="fast_forward", runs=2)

# ---- 2. error-provoking components under error policies ---------------------
ERRS = [
    '$plain.csv[*][add("x", #c)]',
    "$plain.csv[1*][add(#c, #c) add(#b, #c)]",
    '$plain.csv[1*][push("p", add(int(#c), int(#c)))]',
    "$plain.csv[1*][concat(int(#c), divide(#a, #b))]",
    '$plain.csv[*][in(#a, "1|2") subtract(#c, 1) mod(#c, "q")]',
    '$plain.csv[*][regex(#c, "(")]',
    "$plain.csv[1*][fail(1, 2)]",
    "$plain.csv[1*][fail(1, 2) stop(1, 2, 3)]",
    "$plain.csv[1*][failed(1) valid(2) fail_and_stop(1, 2)]",
    "$plain.csv[1*][yes(]",
    '$plain.csv[*][last() -> add("x", #c)]',
    '$blanks.csv[*][last() -> add("x", #c)]',
    '$blanks.csv[*][last() -> push("p", add(int(#c), int(#c)))]',
    '$plain.csv[*][#a == "3" -> fail_and_stop() add("x", #c)]',
    '$plain.csv[1*][add("x", #c) #a == "2" -> fail_and_stop()]',
    '$plain.csv[1*][stop(add("x", #c))]',
    '$plain.csv[1*][fail_and_stop(int(#c))]',
    '$plain.csv[1*][skip(add("x", #c)) push("seen", #a)]',
    '$plain.csv[1*][#a == "2" -> add("x", #c) failed() -> push("f", line_number())]',
    '$ragged.csv[*][#9 == "1" -> fail()]',
    '$ragged.csv[*][#nosuch == "1" -> fail()]',
    '$ragged.csv[1*][int(#b) add(#a, #c)]',
    '$empties.csv[1*][int(#a) int(#b) push("p", add(int(#c), int(#c)))]',
    '~ validation-mode: no-raise, fail ~ $plain.csv[1*][add("x", #c)]',
    '~ validation-mode: no-raise, no-fail ~ $plain.csv[1*][add("x", #c)]',
    '~ validation-mode: no-raise, no-fail, stop, match ~ $plain.csv[1*][add("x", #c)]',
    '~ validation-mode: no-raise, no-print, no-stop, no-fail, no-match ~ $plain.csv[1*][add("x", #c)]',
    '~ validation-mode: raise, no-print ~ $plain.csv[1*][add("x", #c)]',
    '~ validation-mode: no-raise, print, fail, match ~ $plain.csv[1*][push("p", add(int(#c), int(#c))) #a == "2"]',
    '~ logic-mode: OR validation-mode: no-raise, fail ~ $plain.csv[1*][add("x", #c) #a == "2"]',
    "$nosuchfile.csv[*][fail()]",
]
POLICIES = [
    ("collect", "print"),
    ("fail", "collect"),
    ("stop", "collect", "print"),
    ("stop", "fail", "print"),
    ("quiet", "fail", "collect"),
    ("quiet",),
    ("raise", "collect", "stop", "fail", "print"),
    ("raise",),
    ("print", "fail"),
    (),
    None,
]
for pol in POLICIES:
    for s in ERRS:
        standalone(s, policy=pol)

for pol in [("collect", "print"), ("fail", "collect", "print"), ("raise", "fail")]:
    for s in ERRS[:6] + ERRS[12:14] + ERRS[22:24]:
        standalone(s, policy=pol, method="fast_forward")
        standalone(s, policy=pol, method="next")
        standalone(s, policy=pol, method="collect", runs=2)

# the policy is replaced while the run is under way
for a, b in [
    (("collect", "print"), ("fail", "collect", "print")),
    (("fail", "collect"), ("collect",)),
    (("collect",), ("stop", "fail", "collect")),
    (("collect",), ("raise", "fail")),
]:
    standalone(
        '~ return-mode: no-matches ~ $numbers.csv[1*][push("ok", #a) add("x", #c)]',
        policy=a,
        method="next",
        mid_policy=(2, b),
    )
    standalone(
        '~ return-mode: no-matches ~ $numbers.csv[1*][push("ok", #a) push("p", add(int("q"), int("r")))]',
        policy=a,
        method="next",
        mid_policy=(2, b),
    )

# ---- 3. named-paths groups ---------------------------------------------------
G_OK = ["$[*][yes()]", '~id:two~ $[*][#a == "3"]']
G_FAIL = [
    "$[*][yes()]",
    '~id:failer~ $[*][#a == "3" -> fail()]',
    "~id:third~ $[*][no()]",
]
G_FAIL_STOP = [
    '~id:fs~ $[*][#a == "2" -> fail_and_stop()]',
    '~id:fs2~ $[*][fail_and_stop(#a == "3")]',
    '~id:stopper~ $[*][stop(#a == "3")]',
    '~id:skipper~ $[*][skip(#a == "3") push("seen", #a)]',
    "~id:plain~ $[*][yes()]",
]
G_ALL = [
    '~id:first~ $[*][#a == "2" -> fail_all()]',
    "~id:second~ $[*][yes()]",
    '~id:third~ $[*][#a == "3" -> stop_all()]',
    '~id:fourth~ $[*][push("seen", #a)]',
]
G_SKIP_ALL = [
    '~id:first~ $[*][skip_all(#a == "2") push("s1", #a)]',
    '~id:second~ $[*][push("s2", #a) #a == "3" -> fail()]',
    '~id:third~ $[*][failed() -> push("s3", #a)]',
]
G_ERR = [
    "~id:ok~ $[*][yes()]",
    '~id:err~ $[1*][add("x", #c)]',
    '~id:multi~ $[1*][push("p", add(int(#c), int(#c)))]',
    '~id:after~ $[*][#a == "4"]',
]
G_VMODE = [
    '~id:vm1 validation-mode: no-raise, fail~ $[1*][add("x", #c)]',
    '~id:vm2 validation-mode: no-raise, no-fail, print~ $[1*][add("x", #c)]',
    '~id:vm3 validation-mode: no-raise, no-fail, stop, match~ $[1*][add("x", #c)]',
    "~id:vm4~ $[*][yes()]",
]
G_STRUCT = ["~id:bad~ $[*][fail(1, 2)]", "~id:good~ $[*][yes()]"]
G_PARSE = ["~id:unparsable~ $[*][yes(]", "~id:good~ $[*][yes()]"]
G_PRECEDING = [
    '~id:a~ $[*][#b == "0"]',
    '~id:b source-mode: preceding~ $[*][#a == "4" -> fail()]',
    '~id:c source-mode: preceding~ $[*][failed() -> push("never", #a) yes()]',
]
G_NORUN = ["~id:nr run-mode: no-run~ $[*][fail()]", "~id:runs~ $[*][yes()]"]
G_MODES = [
    '~id:um unmatched-mode: keep~ $[*][#a == "3" -> fail_and_stop()]',
    '~id:fm files-mode: data, unmatched~ $[*][#a == "3" -> fail()]',
    '~id:pm print-mode: no-default~ $[*][#a == "3" -> fail() print("seen $.csvpath.line_number")]',
    '~id:lm logic-mode: OR~ $[*][fail_and_stop(#a == "3") #b == "5"]',
]
G_LAST = [
    "~id:l1~ $[*][last() -> fail()]",
    "~id:l2~ $[*][last() -> fail_and_stop()]",
    '~id:l3~ $[*][last() -> add("x", #c)]',
]
G_SINGLE_FAIL = ["~id:only~ $[*][fail()]"]

SERIAL = ["collect_paths", "fast_forward_paths", "next_paths"]
BYLINE = ["collect_by_line", "fast_forward_by_line", "next_by_line"]

for method in SERIAL + BYLINE:
    group(G_OK, method=method)
    group(G_FAIL, method=method)
    group(G_FAIL_STOP, method=method)
    group(G_ALL, method=method)
    group(G_SKIP_ALL, method=method)
    group(G_SINGLE_FAIL, method=method)
    group(G_MODES, method=method)
    group(G_NORUN, method=method)
    group(G_LAST, method=method, file="blanks.csv")
    group(G_FAIL_STOP, method=method, file="blanks.csv")
    group(G_FAIL_STOP, method=method, file="ragged.csv")
    group(G_FAIL, method=method, file="header_only.csv")
    group(G_FAIL, method=method, file="empties.csv")
    for pol in [
        "collect, print",
        "fail, collect",
        "stop, fail, collect, print",
        "quiet, fail",
        DEFAULT_POLICY,
    ]:
        group(G_ERR, method=method, csvpath_policy=pol)
    group(G_ERR, method=method, csvpath_policy="fail, collect", csvpaths_policy="collect")
    group(G_ERR, method=method, csvpath_policy="raise, fail", csvpaths_policy="collect")
    group(G_VMODE, method=method, csvpath_policy="collect, print")
    group(G_VMODE, method=method)
    group(G_STRUCT, method=method, csvpath_policy="fail, collect, print")
    group(G_STRUCT, method=method)
    group(G_PARSE, method=method, csvpath_policy="fail, collect, print", csvpaths_policy="collect")
    group(G_PARSE, method=method)

for method in SERIAL:
    group(G_PRECEDING, method=method)
group(G_PRECEDING, method="collect_by_line")
group(G_FAIL, method="next_paths", collect=True)
group(G_FAIL_STOP, method="next_paths", collect=True)
group(G_ERR, method="next_paths", collect=True, csvpath_policy="fail, collect")
group(G_FAIL, method="next_by_line", collect=True)
group(G_FAIL_STOP, method="next_by_line", collect=True, if_all_agree=True)
group(G_FAIL, method="collect_by_line", if_all_agree=True)
group(G_FAIL, method="collect_by_line", collect_when_not_matched=True)
group(G_ERR, method="next_by_line", collect=True, csvpath_policy="fail, collect")

# the same CsvPaths runs the group again; the file is rewritten in between
for method in SERIAL + BYLINE:
    group(G_FAIL, method=method, runs=2)
    group(
        G_FAIL,
        method=method,
        runs=2,
        rewrite_between="a,b,c\n1,0,x\n2,5,y\n",
    )
    group(
        G_ERR,
        method=method,
        runs=2,
        csvpath_policy="fail, collect",
        rewrite_between="a,b,c\n1,0,10\n2,5,20\n",
    )

# run records of the whole session
emit("=== archive/manifest.json")
try:
    with open(os.path.join("archive", "manifest.json"), "r", encoding="utf-8") as _f:
        _m = json.load(_f)
    for _e in _m:
        emit(f"  {jdump(_e)}")
except Exception as _ex:  # pylint: disable=W0718
    emit(f"  EXC {type(_ex).__name__}: {_ex}")
flush()
print("done")
