#!/usr/bin/env python
"""Differential demonstration for property C03
("Variables and run counters end up with the values the csvpath assigns").

The script is standalone: it creates a fresh temporary working directory with
an offline config, writes a handful of CSV files, runs a large number of
csvpaths through the *pre-existing* public features of csvpath and prints a
deterministic transcript of everything observable: the lines returned, the
variables and counters at every returned line and after the run, validity,
errors, printouts, and the normalised contents of ./archive for group runs.

Usage:   PYTHONPATH=<tree> /venv/bin/python demo.py > transcript.txt
The transcript must be byte-identical for unmodified HEAD and for the
changed tree.
"""
import os
import sys
import re
import json
import shutil
import tempfile
import traceback

WORK = tempfile.mkdtemp(prefix="demo_TYC03_")
os.chdir(WORK)

CONFIG = """[csvpath_files]
extensions = txt, csvpath, csvpaths

[csv_files]
extensions = txt, csv, tsv, dat, tab, psv, ssv

[errors]
csvpath = raise, collect, stop, fail, print
csvpaths = raise, collect

[logging]
csvpath = info
csvpaths = info
log_file = logs/csvpath.log
log_files_to_keep = 100
log_file_size = 52428800

[config]
path = config/config.ini

[cache]
path = cache

[listeners]
[marquez]
base_url = http://localhost:5000

[functions]
imports = config/functions.imports

[results]
archive = archive
transfers = transfers

[inputs]
files = inputs/named_files
csvpaths = inputs/named_paths
on_unmatched_file_fingerprints = halt
"""
os.makedirs("config", exist_ok=True)
with open("config/config.ini", "w", encoding="utf-8") as fh:
    fh.write(CONFIG)
with open("config/functions.imports", "w", encoding="utf-8") as fh:
    fh.write("")

from csvpath import CsvPath, CsvPaths  # noqa: E402  pylint: disable=C0413
from csvpath.matching.matcher import Matcher  # noqa: E402
from csvpath.matching.productions.equality import Equality  # noqa: E402

# --------------------------------------------------------------------------
# data files
# --------------------------------------------------------------------------
FILES = {
    "basic.csv": "id,cat,n\n1,a,3\n2,b,0\n3,a,7\n4,c,5\n5,b,5\n6,a,2\n",
    # blank lines in the middle and a blank last line
    "blank.csv": "id,cat,n\n1,a,3\n\n2,b,0\n\n\n3,a,\n4,c,5\n\n",
    # ragged rows: too short, too long, single value
    "ragged.csv": "id,cat,n\n1,a,3\n2,b\n3,a,7,extra,more\n4\n5,c,1\n",
    # empties and zeros and repeated values
    "empties.csv": "id,cat,n\n1,,0\n2,a,\n3,,\n4,a,0\n5,a,0\n6,b,-1\n7,b,10\n",
    # header only
    "header.csv": "id,cat,n\n",
    # nothing at all
    "empty.csv": "",
    # one line, no trailing newline
    "one.csv": "id,cat,n\n1,a,3",
    # quoted values and spaces
    "quoted.csv": 'id,cat,n\n1,"a b",3\n2," a",4\n3,"a,b",5\n4,"a b",6\n',
}
for name, text in FILES.items():
    with open(name, "w", encoding="utf-8") as fh:
        fh.write(text)


def out(*args):
    print(*args)
    sys.stdout.flush()


def norm(s) -> str:
    s = f"{s}"
    s = s.replace(WORK, "<WORK>")
    s = re.sub(r"\d{4}-\d\d-\d\d_\d\d-\d\d-\d\d(_\d+)?", "<RUN>", s)
    s = re.sub(
        r"\d{4}-\d\d-\d\d[ T]\d\d:\d\d:\d\d(\.\d+)?(\+00:00)?", "<TIME>", s
    )
    s = re.sub(r" at 0x[0-9a-f]+", " at 0x..", s)
    return s


def exc(e) -> str:
    """exception text; lark lists the expected terminals in set order, which
    is not deterministic between interpreter runs, so that tail is cut"""
    return norm(e).split("Expected one of:")[0].rstrip()


def show_vars(p) -> str:
    # repr keeps the difference between 0, "0", 0.0, None, "", [], ()
    return norm(repr(p.variables))


def counters(p) -> str:
    lm = p.line_monitor
    return (
        f"scan_count={p.scan_count} match_count={p.match_count} "
        f"current_scan={p.current_scan_count} current_match={p.current_match_count} "
        f"physical={lm.physical_line_number} data_lines={lm.data_line_count} "
        f"data_line_number={lm.data_line_number}"
    )


def show_errors(p):
    try:
        errs = p.errors
    except Exception as e:  # pylint: disable=W0718
        out(f"   errors: <{type(e).__name__}: {exc(e)}>")
        return
    out(f"   errors: {len(errs) if errs else 0}")
    for e in errs or []:
        out(
            "     - "
            + norm(
                f"line={e.line_count} match={e.match_count} scan={e.scan_count} "
                f"type={type(e.error).__name__} msg={e.message!r}"
            )
        )


def after(p):
    out(f"   end vars: {show_vars(p)}")
    out(f"   end counters: {counters(p)}")
    out(
        f"   is_valid={p.is_valid} stopped={p.stopped} frozen={p.is_frozen} "
        f"has_errors={p.has_errors()} completed={p.completed}"
    )
    show_errors(p)
    out(f"   metadata: {norm(json.dumps(p.metadata, sort_keys=True, default=str))}")


CASE = 0


def run_next(title: str, path: str):
    """iterate with next(): observe variables and counters at every returned line"""
    global CASE
    CASE += 1
    out(f"=== [{CASE}] next: {title}")
    out(f"   path: {path}")
    p = CsvPath()
    try:
        p.parse(path)
        for line in p.next():
            out(f"   > {line!r}")
            out(f"     vars: {show_vars(p)}")
            out(f"     {counters(p)}")
    except Exception as e:  # pylint: disable=W0718
        out(f"   EXCEPTION {type(e).__name__}: {exc(e)}")
    try:
        after(p)
    except Exception as e:  # pylint: disable=W0718
        out(f"   AFTER-EXCEPTION {type(e).__name__}: {exc(e)}")
    return p


def run_collect(title: str, path: str, nexts: int = -1):
    global CASE
    CASE += 1
    out(f"=== [{CASE}] collect(nexts={nexts}): {title}")
    out(f"   path: {path}")
    p = CsvPath()
    try:
        p.parse(path)
        lines = p.collect(nexts=nexts) if nexts != -1 else p.collect()
        out(f"   lines: {list(lines)!r}")
    except Exception as e:  # pylint: disable=W0718
        out(f"   EXCEPTION {type(e).__name__}: {exc(e)}")
    try:
        after(p)
    except Exception as e:  # pylint: disable=W0718
        out(f"   AFTER-EXCEPTION {type(e).__name__}: {exc(e)}")
    return p


def run_ff(title: str, path: str):
    global CASE
    CASE += 1
    out(f"=== [{CASE}] fast_forward: {title}")
    out(f"   path: {path}")
    p = CsvPath()
    try:
        p.parse(path)
        p.fast_forward()
    except Exception as e:  # pylint: disable=W0718
        out(f"   EXCEPTION {type(e).__name__}: {exc(e)}")
    try:
        after(p)
    except Exception as e:  # pylint: disable=W0718
        out(f"   AFTER-EXCEPTION {type(e).__name__}: {exc(e)}")
    return p


# the per-line print used in most cases: local references to variables and
# to the run counters, evaluated on every line
PRINT_COUNTS = (
    'print("L$.csvpath.line_number: matches=$.csvpath.count_matches '
    'scans=$.csvpath.count_scans lines=$.csvpath.count_lines total=$.csvpath.total_lines")'
)
NORAISE = "~ validation-mode: no-raise, no-stop, print ~"

# --------------------------------------------------------------------------
# part 1: csvpaths that write variables, over all files
# --------------------------------------------------------------------------
MATCH_PARTS = [
    # ---- plain assignments, including same-line dependencies
    ("plain assignment", '@a = #n'),
    ("dependent assignments", '@a = #n @b = @a @c = add(int(@b), 1) @d = @c'),
    (
        "assignment then test on same line",
        '@a = #cat #cat == @a @hit = yes() print("a=$.variables.a hit=$.variables.hit")',
    ),
    ("assignment from functions of counters",
     '@ln = line_number() @cl = count_lines() @cs = count_scans() @cm = count() '
     + PRINT_COUNTS),
    ("assignment of literals", '@zero = 0 @empty = "" @s = "x" @f = 1.5 @none = none() @t = yes() @n = no()'),
    # ---- tracking values
    ("tracking assignment", '@t.x = #n @t.y = #cat @u.onmatch.k = #id'),
    ("tracking read back same line", '@t.x = #n @copy = @t.x print("t.x=$.variables.t.x copy=$.variables.copy")'),
    ("tracking bool-looking", '@e.True = #n @g = @e.True'),
    # ---- qualifiers on assignment
    ("onmatch assignment with selective match", '@om.onmatch = #id #cat == "a" @all = #id'),
    ("onmatch assignment never matching", '@never.onmatch = count_lines() @always = count_lines() no()'),
    ("onmatch assignment of count()", '@c = count() #cat == "a"'),
    ("onmatch assignment of has_matches()", '@h = has_matches() #cat == "b"'),
    ("two onmatch assignments of count()", '@c1.onmatch = count() @c2.onmatch = count() #cat == "a" @c3 = count()'),
    ("onchange assignment", '@oc.onchange = #cat'),
    ("onchange nocontrib", '@oc.onchange.nocontrib = #cat @cnt.onmatch = count()'),
    ("latch", '@l.latch = #n @m.latch.k = #cat'),
    ("latch onto none first", '@l.latch = #3'),
    ("notnone", '@nn.notnone = #n'),
    ("notnone nocontrib", '@nn.notnone.nocontrib = #3 @seen = count_lines()'),
    ("increase", '@up.increase = int(#n)'),
    ("increase nocontrib", '@up.increase.nocontrib = int(#n) @c.onmatch = count()'),
    ("decrease", '@down.decrease = int(#n)'),
    ("decrease on strings", '@down.decrease = #cat'),
    ("asbool", '@ab.asbool = #n'),
    ("asbool of equals", '@ab.asbool = equals(#cat, "a") @c.onmatch = count()'),
    ("asbool nocontrib", '@ab.asbool.nocontrib = #n @c.onmatch = count()'),
    ("latch + onchange + onmatch", '@x.latch.onchange.onmatch = #cat #cat == "a"'),
    ("onmatch + tracking + notnone", '@x.onmatch.notnone.k = #n not(#cat == "b")'),
    # ---- counting
    ("count() bare", 'count() == 2'),
    ("count named with contained", 'count.acount(#cat == "a") @last = @acount.True'),
    ("count onmatch contained", 'count.onmatch.oc(#cat == "a") #n == "0"'),
    ("count of header value", 'count.byn(#n)'),
    ("counter", 'counter.one() counter.two(2) counter.byn(int(#id))'),
    ("counter behind when", '#cat == "a" -> counter.as() #cat == "zzz" -> counter.never()'),
    ("increment", 'increment.inc(#cat == "a", 2) @i = @inc_increment'),
    ("every", 'every.ev(#cat, 2) @c.onmatch = count()'),
    ("every on equality", 'every.fish(#cat == "a", 2)'),
    ("tally one", 'tally(#cat)'),
    ("tally two named", 'tally.tt(#cat, #n)'),
    ("tally onmatch", 'tally.onmatch(#cat) #n == "0"'),
    ("sum", 'sum.total(#n)'),
    ("sum onmatch", 'sum.onmatch.tm(#n) #cat == "a"'),
    ("subtotal", 'subtotal.st(#cat, #n)'),
    ("subtotal default name onmatch", 'subtotal.onmatch(#cat, #id) above(int(#id), 2)'),
    ("first", 'first.f(#cat) @c.onmatch = count()'),
    ("first two headers onmatch", 'first.onmatch.g(#cat, #n) not(#n == "0")'),
    ("has_matches", '@before = has_matches() #cat == "a" @c.onmatch = count()'),
    # ---- stacks
    ("push", 'push("s", #n) push("ids", #id)'),
    ("push distinct / notnone / onmatch",
     'push.distinct("d", #cat) push_distinct("pd", #n) push.notnone("nn", #3) push.onmatch("om", #id) #cat == "a"'),
    ("push and pop", 'push("s", #id) #cat == "b" -> @popped = pop("s") @size = peek_size("s")'),
    ("peek and stack", 'push("s", #cat) @top = peek("s", -1) @zero = peek("s", 0) @st = stack("s")'),
    ("pop empty", '@p = pop("nothing") @q = peek("nothing", 0) @sz = peek_size("nothing")'),
    # ---- get / put / track
    ("put and get", 'put("pv", #n) put("pt", #cat, #id) @g = get("pv") @gt = get("pt", #cat)'),
    ("track", 'track.tr(#cat, #n) track.onmatch.tro(#cat, #id) #n == "0"'),
    # ---- when/do and lasts
    ("when/do assignment", '#cat == "a" -> @wa = #id  not(#cat == "a") -> @wn = #id'),
    ("last assignment", 'last() -> @final = count_lines() @c.onmatch = count() last.nocontrib() -> print("final=$.variables.final c=$.variables.c")'),
    ("firstline firstscan firstmatch", 'firstline.nocontrib() -> @fl = line_number() firstscan.nocontrib() -> @fs = line_number() firstmatch.nocontrib() -> @fm = line_number()'),
    # ---- control of the run
    ("stop", '@c.onmatch = count() #id == "3" -> stop() @ln = line_number()'),
    ("skip", 'tally.before(#cat) #cat == "a" -> skip() tally.after(#cat) @c.onmatch = count()'),
    ("advance", '@c.onmatch = count() #id == "2" -> advance(2) @ln = line_number() @cs = count_scans()'),
    ("fail", '#n == "0" -> fail() @c.onmatch = count() @v = valid()'),
    # ---- variables() and references
    ("print variables", 'tally(#cat) @a = #n print("$.variables.tally_cat.a / $.variables.a / $.variables")'),
    ("reference to stack index", 'push("s", #id) print("$.variables.s.0 $.variables.s.1 $.variables.s.length")'),
]

SCANS = ["[*]", "[1*]", "[2-4]", "[1+3+6]", "[0]"]


def part1():
    out("##### PART 1: generated csvpaths x files #####")
    files = ["basic.csv", "blank.csv", "ragged.csv", "empties.csv"]
    i = 0
    for title, match in MATCH_PARTS:
        for f in files:
            scan = SCANS[i % 2]  # alternate [*] and [1*]
            i += 1
            run_next(f"{title} / {f}", f"{NORAISE} ${f}{scan}[ {match} ]")
    # a subset over the unusual files and scans, in raise mode (config default)
    subset = [MATCH_PARTS[k] for k in (0, 1, 3, 10, 28, 32, 37, 40, 46, 53)]
    for title, match in subset:
        for f in ["header.csv", "empty.csv", "one.csv", "quoted.csv"]:
            run_collect(f"{title} / {f}", f"${f}[*][ {match} ]")
        for scan in SCANS[2:]:
            run_next(f"{title} / basic.csv {scan}", f"$basic.csv{scan}[ {match} ]")
            run_ff(f"{title} / blank.csv {scan}", f"$blank.csv{scan}[ {match} ]")


# --------------------------------------------------------------------------
# part 2: modes, OR logic, return-mode, collect limits, repeated runs
# --------------------------------------------------------------------------
def part2():
    out("##### PART 2: modes, logic, limits, repeated runs #####")
    OR = "~ logic-mode: OR validation-mode: no-raise, no-stop, print ~"
    run_next("OR: onmatch count", f'{OR} $basic.csv[*][ #cat == "a" #n == "5" @c.onmatch = count() @ln = line_number() ]')
    run_next("OR: assignments and onchange", f'{OR} $empties.csv[*][ @oc.onchange = #cat #n == "0" @k.onmatch = count_lines() ]')
    run_next("OR: when/do", f'{OR} $blank.csv[*][ #cat == "a" -> @a = count_lines() #cat == "b" -> @b = count_scans() ]')
    run_next("OR: latch increase", f'{OR} $basic.csv[*][ @l.latch = #n @u.increase = int(#n) ]')
    run_next("OR: tally counter", f'{OR} $ragged.csv[*][ tally(#cat) counter.c(1) #id == "3" ]')
    NM = "~ return-mode: no-matches ~"
    run_next("no-matches: counts", f'{NM} $basic.csv[*][ #cat == "a" @c.onmatch = count() @all = count_lines() ]')
    run_collect("no-matches: collect", f'{NM} $blank.csv[*][ #cat == "a" tally(#cat) @c.onmatch = count() ]')
    run_collect("collect nexts=2", '$basic.csv[*][ @c.onmatch = count() tally(#cat) ]', nexts=2)
    run_collect("collect nexts=0", '$basic.csv[*][ @c.onmatch = count() ]', nexts=0)
    run_collect("collect with collect()", '$basic.csv[*][ collect("n", "id") @c.onmatch = count() push("s", #n) ]')
    run_collect("no match part", "$basic.csv[1-3][]")
    run_collect("no matches at all", '$basic.csv[*][ no() @a = count_lines() @b.onmatch = count_lines() ]')
    run_ff("explain mode", '~ explain-mode: explain ~ $basic.csv[1-2][ @a.onmatch = #n #cat == "a" ]')

    out("--- repeated runs of the same path text: new instances")
    path = '$blank.csv[*][ tally(#cat) @c.onmatch = count() push("s", #n) counter.k(1) #cat == "a" ]'
    for _ in range(3):
        run_collect("repeat", path)

    out("--- repeated run on the same instance")
    global CASE
    CASE += 1
    out(f"=== [{CASE}] same instance twice")
    p = CsvPath()
    p.parse(path)
    for n in range(2):
        try:
            lines = p.collect()
            out(f"   run {n}: lines={list(lines)!r}")
        except Exception as e:  # pylint: disable=W0718
            out(f"   run {n}: EXCEPTION {type(e).__name__}: {exc(e)}")
        out(f"   run {n}: vars={show_vars(p)} {counters(p)}")

    out("--- next() abandoned half way, then inspected")
    CASE += 1
    out(f"=== [{CASE}] partial next")
    p = CsvPath()
    p.parse('$basic.csv[1*][ @c.onmatch = count() @ln = line_number() sum.s(#n) ]')
    gen = p.next()
    for _ in range(3):
        line = next(gen)
        out(f"   > {line!r} vars={show_vars(p)} {counters(p)}")
    out(f"   frozen={p.is_frozen} stopped={p.stopped}")
    gen.close()
    out(f"   after close: vars={show_vars(p)} {counters(p)} frozen={p.is_frozen}")

    out("--- error cases")
    run_collect("unknown function", "$basic.csv[*][ @a = nosuchfunction(#n) ]")
    run_collect("bad syntax", "$basic.csv[*][ @a = = #n ]")
    run_collect("missing file", "$nosuchfile.csv[*][ @a = #n ]")
    run_collect("variable named with dot-leading qualifier only", "$basic.csv[*][ @.a = #n ]")
    run_collect("bad arg to counter (raise)", '$basic.csv[*][ counter.c("x") @after = count_lines() ]')
    run_collect("bad arg to counter (no-raise)", f'{NORAISE} $basic.csv[*][ counter.c(#cat) @after = count_lines() ]')
    run_collect("sum of non-number (no-raise)", f'{NORAISE} $basic.csv[*][ sum.s(#cat) @after.onmatch = count() ]')
    run_collect("increase of mixed types (no-raise)", f'{NORAISE} $ragged.csv[*][ @up.increase = #n @k = count_lines() ]')
    run_collect("increase int vs str (raise)", '$basic.csv[*][ @up = 1 @up.increase = #cat ]')
    run_collect("unknown header name", '$basic.csv[*][ @a = #nosuch @b.notnone = #nosuch @c.onmatch = count() ]')


# --------------------------------------------------------------------------
# part 3: the variable API called directly
# --------------------------------------------------------------------------
def call(label, fn):
    try:
        r = fn()
        out(f"   {label} -> {r!r}")
    except Exception as e:  # pylint: disable=W0718
        out(f"   {label} -> EXCEPTION {type(e).__name__}: {exc(e)}")


def part3():
    out("##### PART 3: set_variable / get_variable / raise_match_count_if directly #####")
    p = CsvPath()
    names = [None, "", " ", "a", "a b", 0, "0"]
    trackings = [None, "", " ", "k", 0, False, True, 1.5, "None"]
    values = [None, 0, "", [], "v", 1.5, [1, 2], {"x": 1}, False]
    for n in names:
        for t in trackings:
            for v in values[:4]:
                call(f"set_variable({n!r}, value={v!r}, tracking={t!r})",
                     lambda n=n, t=t, v=v: p.set_variable(n, value=v, tracking=t))
        out(f"   vars: {show_vars(p)}")
    p = CsvPath()
    for v in values:
        call(f"set a={v!r}", lambda v=v: p.set_variable("a", value=v))
        call("get a", lambda: p.get_variable("a"))
        call("get a set_if_none=9", lambda: p.get_variable("a", set_if_none=9))
        call("get a tracking=k", lambda: p.get_variable("a", tracking="k"))
        call("get a tracking=k set_if_none=0", lambda: p.get_variable("a", tracking="k", set_if_none=0))
        call("get a tracking=k set_if_none=7", lambda: p.get_variable("a", tracking="k", set_if_none=7))
        out(f"   vars: {show_vars(p)}")
    p = CsvPath()
    for s in [None, 0, "", [], 5, "x", False, [1]]:
        for t in [None, "k", 0, False]:
            call(f"get fresh{s!r}{t!r} tracking={t!r} set_if_none={s!r}",
                 lambda s=s, t=t: p.get_variable(f"fresh{s!r}{t!r}", tracking=t, set_if_none=s))
            call(f"get again tracking={t!r}",
                 lambda s=s, t=t: p.get_variable(f"fresh{s!r}{t!r}", tracking=t))
    out(f"   vars: {show_vars(p)}")
    for n in [None, "", 0]:
        call(f"get_variable({n!r})", lambda n=n: p.get_variable(n))
    out("--- falsy tracked values are overwritten by set_if_none, truthy are kept")
    p = CsvPath()
    p.set_variable("d", value=0, tracking="z")
    p.set_variable("d", value=3, tracking="t")
    p.set_variable("d", value="", tracking="e")
    for k in ["z", "t", "e", "missing"]:
        call(f"get d.{k} set_if_none=5", lambda k=k: p.get_variable("d", tracking=k, set_if_none=5))
    out(f"   vars: {show_vars(p)}")
    out("--- aliasing: lists are returned by reference until frozen")
    p = CsvPath()
    lst = p.get_variable("stack", set_if_none=[])
    lst.append(1)
    out(f"   vars: {show_vars(p)} same={p.get_variable('stack') is lst}")
    p.set_variable("tr", value=[1], tracking="k")
    out("--- frozen")
    p.is_frozen = True
    call("set while frozen", lambda: p.set_variable("x", value=1))
    call("set tracking while frozen", lambda: p.set_variable("tr", value=2, tracking="k"))
    call("get list while frozen", lambda: p.get_variable("stack"))
    call("get list while frozen set_if_none", lambda: p.get_variable("newlist", set_if_none=[]))
    call("get tracked list while frozen", lambda: p.get_variable("tr", tracking="k"))
    call("get missing tracked while frozen", lambda: p.get_variable("tr2", tracking="k", set_if_none=4))
    call("get None name while frozen", lambda: p.get_variable(None))
    call("set None name while frozen", lambda: p.set_variable(None, value=1))
    out(f"   vars: {show_vars(p)}")
    p.is_frozen = False
    call("set after unfreeze", lambda: p.set_variable("x", value=1))
    out(f"   vars: {show_vars(p)}")

    out("--- raise_match_count_if")
    p = CsvPath()
    out(f"   start: match_count={p.match_count} _current={p._current_match_count}")
    for step in range(3):
        p.raise_match_count_if()
        out(f"   raise #{step}: match_count={p.match_count} _current={p._current_match_count}")
    p._current_match_count = p.match_count
    p.raise_match_count_if()
    p.raise_match_count_if()
    out(f"   new line: match_count={p.match_count} _current={p._current_match_count}")
    p.match_count = 0
    p.raise_match_count_if()
    out(f"   lowered: match_count={p.match_count} _current={p._current_match_count}")

    out("--- Equality._do_assignment_new_impl decision table")
    path = CsvPath()
    matcher = Matcher(csvpath=path, data="[yes()]")
    quals = ["onchange", "latch", "onmatch", "asbool", "nocontrib", "notnone", "increase", "decrease"]
    pairs = [(None, None), (None, "y"), ("x", "y"), ("x", "x"), ("x", None), (1, 2), (2, 1),
             (0, 0), (None, 0), (0, 1), (1, 0), ("", ""), (None, ""), (None, "false"), ("true", "false")]
    for mask in range(0, 256, 1):
        flags = {q: bool(mask & (1 << i)) for i, q in enumerate(quals)}
        # keep the table readable: at most 3 qualifiers at a time
        if sum(flags.values()) > 3:
            continue
        for AND in (True, False):
            matcher.AND = AND
            row = []
            for cur, new in pairs:
                for lm in (True, False):
                    path.variables.clear()
                    if cur is not None:
                        path.variables["v"] = cur
                    eq = Equality(matcher=matcher)
                    args = dict(flags)
                    args.update({"noqualifiers": mask == 0, "count": False,
                                 "current_value": cur, "new_value": new, "line_matches": lm})
                    try:
                        ret = eq._do_assignment_new_impl(name="v", tracking=None, args=args)
                    except Exception as e:  # pylint: disable=W0718
                        ret = type(e).__name__
                    row.append(f"{ret}:{path.variables.get('v', '<unset>')!r}")
            on = "+".join(q for q in quals if flags[q]) or "none"
            out(f"   {on} AND={AND}: " + " ".join(row))


# --------------------------------------------------------------------------
# part 4: named-paths group runs, with the archive
# --------------------------------------------------------------------------
def dump_archive():
    for root, dirs, files in sorted(os.walk("archive")):
        dirs.sort()
        for f in sorted(files):
            full = os.path.join(root, f)
            out(f"   FILE {norm(full)}")
            if f in ("vars.json", "errors.json", "printouts.txt", "data.csv", "unmatched.csv"):
                with open(full, "r", encoding="utf-8") as fh:
                    text = fh.read()
                if f == "errors.json" and text.strip() not in ("", "[]"):
                    errs = json.loads(text)
                    for e in errs:
                        keep = {k: e.get(k) for k in ("line_count", "match_count", "scan_count", "message", "filename") if k in e}
                        out("      | " + norm(json.dumps(keep, sort_keys=True)))
                else:
                    for ln in text.splitlines():
                        out("      | " + norm(ln))
            elif f == "meta.json":
                with open(full, "r", encoding="utf-8") as fh:
                    meta = json.load(fh)
                rd = meta.get("runtime_data", {})
                keep = {k: rd.get(k) for k in ("total_lines", "count_lines", "line_number", "count_matches",
                                               "count_scans", "valid", "stopped", "lines_collected", "identity")}
                out("      | " + norm(json.dumps(keep, sort_keys=True)))
                out("      | metadata " + norm(json.dumps(meta.get("metadata"), sort_keys=True)))
            elif f == "manifest.json" and root != "archive":
                with open(full, "r", encoding="utf-8") as fh:
                    man = json.load(fh)
                keep = {k: man.get(k) for k in ("valid", "completed", "file_count", "files_expected", "all_valid",
                                                "all_completed", "error_count", "status", "instance_identity") if k in man}
                fps = man.get("file_fingerprints") or {}
                keep["fingerprints"] = {k: v for k, v in sorted(fps.items()) if k in ("vars.json", "data.csv", "printouts.txt", "unmatched.csv")}
                out("      | " + norm(json.dumps(keep, sort_keys=True)))


def show_results(cp, name):
    try:
        results = cp.results_manager.get_named_results(name)
    except Exception as e:  # pylint: disable=W0718
        out(f"   results EXCEPTION {type(e).__name__}: {exc(e)}")
        return
    for r in results:
        p = r.csvpath
        out(f"   result {p.identity!r}: lines={len(r)} valid={r.is_valid} errors={r.errors_count} "
            f"printouts={r.get_printouts()!r}")
        out(f"      vars={norm(repr(r.variables))}")
        out(f"      {counters(p)}")
        try:
            out(f"      data={list(r.lines.next())!r}" if hasattr(r.lines, "next") else f"      data={list(r.lines)!r}")
        except Exception as e:  # pylint: disable=W0718
            out(f"      data EXCEPTION {type(e).__name__}: {exc(e)}")


def part4():
    out("##### PART 4: CsvPaths group runs and the archive #####")
    group = [
        '~ id: counts ~ $[1*][ tally(#cat) @c.onmatch = count() @ln = line_number() sum.s(#n) '
        'print("$.csvpath.line_number $.csvpath.count_matches $.variables.c") ]',
        '~ id: sel validation-mode: no-raise, no-stop, print ~ $[1*][ #cat == "a" @x.onmatch = count_lines() push("s", #id) counter.k(2) '
        'subtotal.st(#cat, #n) every.e(#cat, 2) first.f(#cat) ]',
        '~ id: tracked ~ $[1*][ @t.a = #n @t.b = #id @l.latch = #cat @up.increase.nocontrib = int(#id) '
        'last() -> @done = count_scans() ]',
        '~ id: none ~ $[*][ no() @never.onmatch = count() @always = count_scans() ]',
    ]
    methods = ["collect_paths", "fast_forward_paths", "collect_by_line", "fast_forward_by_line", "next_paths", "next_by_line"]
    fno = 0
    for fname in ["basic.csv", "blank.csv", "ragged.csv"]:
        for m in methods[fno % 2::2] if fname != "basic.csv" else methods:
            if os.path.exists("archive"):
                shutil.rmtree("archive")
            cp = CsvPaths()
            cp.file_manager.add_named_file(name="f", path=fname)
            cp.paths_manager.add_named_paths(name="g", paths=group)
            out(f"=== group {m} over {fname}")
            try:
                if m.startswith("next"):
                    for line in getattr(cp, m)(filename="f", pathsname="g"):
                        out(f"   > {line!r}")
                else:
                    getattr(cp, m)(filename="f", pathsname="g")
            except Exception as e:  # pylint: disable=W0718
                out(f"   EXCEPTION {type(e).__name__}: {exc(e)}")
            show_results(cp, "g")
            dump_archive()
        fno += 1
    out("=== two runs into the same archive (run dirs listed)")
    if os.path.exists("archive"):
        shutil.rmtree("archive")
    cp = CsvPaths()
    cp.file_manager.add_named_file(name="f", path="empties.csv")
    cp.paths_manager.add_named_paths(name="g2", paths=group[:2])
    try:
        cp.collect_paths(filename="f", pathsname="g2")
    except Exception as e:  # pylint: disable=W0718
        out(f"   EXCEPTION {type(e).__name__}: {exc(e)}")
    show_results(cp, "g2")
    cp2 = CsvPaths()
    try:
        cp2.fast_forward_paths(filename="f", pathsname="g2")
    except Exception as e:  # pylint: disable=W0718
        out(f"   EXCEPTION {type(e).__name__}: {exc(e)}")
    show_results(cp2, "g2")
    out("=== a group whose first path raises on the header line (config policy: raise)")
    cp3 = CsvPaths()
    cp3.paths_manager.add_named_paths(name="g3", paths=['~ id: boom ~ $[*][ @before = count_lines() sum.s(#n) @after = count_lines() ]', group[3]])
    try:
        cp3.collect_paths(filename="f", pathsname="g3")
    except Exception as e:  # pylint: disable=W0718
        out(f"   EXCEPTION {type(e).__name__}: {exc(e)}")
    show_results(cp3, "g3")
    runs = sorted(os.listdir(os.path.join("archive", "g2")))
    out(f"   run dirs: {len(runs)}")
    # only the content of vars.json per run and instance; names normalised
    for i, run in enumerate(runs):
        for inst in sorted(os.listdir(os.path.join("archive", "g2", run))):
            vp = os.path.join("archive", "g2", run, inst, "vars.json")
            if os.path.exists(vp):
                with open(vp, "r", encoding="utf-8") as fh:
                    out(f"   run#{i}/{inst}/vars.json: {json.dumps(json.load(fh))}")


def main():
    try:
        part1()
        part2()
        part3()
        part4()
    except Exception as e:  # pylint: disable=W0718
        # no traceback in the transcript: source line numbers are not observable behaviour
        out(f"DEMO FAILED {type(e).__name__}: {exc(e)}")
        traceback.print_exc(file=sys.stderr)
    finally:
        os.chdir("/")
        shutil.rmtree(WORK, ignore_errors=True)


if __name__ == "__main__":
    main()
