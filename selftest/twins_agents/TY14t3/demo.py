#!/usr/bin/env python
"""
Differential demonstration for property C14 (assignment qualifiers decide the
vote and the write).

Run it twice -- once with PYTHONPATH pointing at unmodified HEAD, once with the
change applied -- and diff the two transcripts. Everything observable goes to
stdout: returned lines, variables (incl. a per-line history of the assigned
variable), validity, errors, printouts, the explanation records of the
assignment, the log messages emitted by equality.py / qualified.py and, for
the CsvPaths part, the archive listing and contents with run directories
normalised.

The script is self contained: it creates its own scratch directory, writes
its own config/config.ini and its own data files, and never touches the
source tree.

usage: demo.py [workdir]      (workdir is wiped and recreated; default is a
                               fresh tempfile.mkdtemp directory)
"""
import hashlib
import itertools
import json
import logging
import os
import re
import shutil
import sys
import tempfile

# --------------------------------------------------------------------------
# scratch dir + offline config. must happen before csvpath is imported/used
# --------------------------------------------------------------------------
if len(sys.argv) > 1:
    WORK = os.path.abspath(sys.argv[1])
    if os.path.exists(WORK):
        shutil.rmtree(WORK)
    os.makedirs(WORK)
else:
    WORK = tempfile.mkdtemp(prefix="demo_TYC14_")
os.chdir(WORK)
os.makedirs("config")

CONFIG = """[csvpath_files]
extensions = txt, csvpath, csvpaths
[csv_files]
extensions = txt, csv, tsv, dat, tab, psv, ssv
[errors]
csvpath = collect, fail, print
csvpaths = collect, print
[logging]
csvpath = debug
csvpaths = info
log_file = logs/csvpath.log
log_files_to_keep = 100
log_file_size = 52428800
[config]
path =
[functions]
imports =
[cache]
path =
[results]
archive = archive
transfers = transfers
[inputs]
files = inputs/named_files
csvpaths = inputs/named_paths
on_unmatched_file_fingerprints = halt
"""
with open("config/config.ini", "w", encoding="utf-8") as f:
    f.write(CONFIG)

from csvpath import CsvPath, CsvPaths  # noqa: E402 pylint: disable=C0413
from csvpath.matching.matcher import Matcher  # noqa: E402 pylint: disable=C0413
from csvpath.matching.productions.equality import (  # noqa: E402 pylint: disable=C0413
    Equality,
)

QUALS = [
    "onmatch",
    "latch",
    "onchange",
    "increase",
    "decrease",
    "notnone",
    "asbool",
    "nocontrib",
]


def quals_of(mask: int) -> list:
    return [q for i, q in enumerate(QUALS) if mask & (1 << i)]


# --------------------------------------------------------------------------
# log capture: the messages (text only) that the code under study logs
# --------------------------------------------------------------------------
class Capture(logging.Handler):
    FILES = ("equality.py", "qualified.py")

    def __init__(self):
        super().__init__(level=logging.DEBUG)
        self.messages = []

    def emit(self, record):
        base = os.path.basename(record.pathname)
        msg = record.getMessage()
        if base in Capture.FILES:
            self.messages.append(f"{record.levelname}:{msg}")
        elif base == "matcher.py" and (
            msg.startswith("  ") or msg.startswith("Dumping")
        ):
            # the explain-mode dump
            self.messages.append(f"{record.levelname}:{msg}")

    def take(self) -> list:
        m = self.messages
        self.messages = []
        return m


CAPTURE = Capture()
_warm = CsvPath()  # creates the shared "csvpath" logger
_lg = logging.getLogger("csvpath")
for h in _lg.handlers[:]:
    # no need to write tens of MB of debug log to disk
    _lg.removeHandler(h)
    h.close()
_lg.addHandler(CAPTURE)
_lg.propagate = False


def digest(items) -> str:
    h = hashlib.sha256()
    for i in items:
        h.update(f"{i}".encode("utf-8"))
        h.update(b"\n")
    return f"{len(items)}:{h.hexdigest()[:12]}"


def errs(p) -> list:
    out = []
    for e in p.errors or []:
        out.append(
            (
                e.line_count,
                e.match_count,
                e.scan_count,
                type(e.error).__name__,
                f"{e.message}",
                f"{e.source}",
            )
        )
    return out


def explain_of(p, only_assign=True) -> list:
    if p.matcher is None:
        return []
    ws = [f"{w}" for w in p.matcher.explaination]
    if only_assign:
        ws = [w for w in ws if " did assign " in w or " did matching " in w]
    return ws


def run(pathstr: str, *, verbose=False, tag="") -> None:
    """one real csvpath run; prints one (or a few) transcript lines"""
    CAPTURE.take()
    p = CsvPath()
    exc = None
    lines = None
    try:
        p.parse(pathstr)
        lines = p.collect()
    except Exception as e:  # pylint: disable=W0718
        # first line only: lark lists the expected tokens in set order
        exc = f"{type(e).__name__}: {e}".split("\n", 1)[0]
    logs = CAPTURE.take()
    ys = None if lines is None else [list(_) for _ in lines]
    print(
        f"{tag}{pathstr} => lines={ys} vars={p.variables!r} valid={p.is_valid} "
        f"stopped={p.stopped} counts={p.line_monitor.physical_line_count},"
        f"{p.scan_count},{p.match_count} errors={errs(p)} exc={exc} "
        f"explain={digest(explain_of(p, False))} log={digest(logs)}"
    )
    if verbose:
        for w in explain_of(p):
            print(f"      what: {w}")
        for m in logs:
            print(f"      log: {m}")


def write(name: str, rows: list) -> str:
    with open(name, "w", encoding="utf-8") as file:
        for r in rows:
            file.write(r)
            file.write("\n")
    return name


# --------------------------------------------------------------------------
# PART A: all 256 qualifier subsets x value sequences x rest-of-line
#         matches / does not match; real csvpaths over 3-line files
# --------------------------------------------------------------------------
ABSENT = None
SEQS = [
    (1, 2, 3),
    (3, 2, 1),
    (1, 1, 2),
    (2, ABSENT, 2),
    (ABSENT, 1, 1),
    (ABSENT, ABSENT, ABSENT),
    (2, 3, 1),
]
BOOL_SEQS = [
    ("true", "false", "true"),
    ("false", ABSENT, "true"),
]


def seq_file(seq, flag) -> str:
    name = "s_" + "_".join("x" if v is None else f"{v}" for v in seq) + f"_{flag}.csv"
    if not os.path.exists(name):
        # an absent value is a ragged row: the y column is simply not there
        write(name, [flag if v is None else f"{flag},{v}" for v in seq])
    return name


def part_a(seqs=None, masks=None, mode_comment="", label="A") -> None:
    print(f"===== PART {label}: qualifier subsets x sequences x rest-of-line =====")
    for mask in masks if masks is not None else range(256):
        qs = quals_of(mask)
        var = ".".join(["x"] + qs)
        myseqs = list(seqs if seqs is not None else SEQS)
        if seqs is None and "increase" not in qs and "decrease" not in qs:
            myseqs += BOOL_SEQS
        for seq in myseqs:
            for flag in ("m", "q"):
                fname = seq_file(seq, flag)
                run(
                    f'{mode_comment}${fname}[*][ @{var} = #1 #0 == "m" push("h", @x) ]',
                    tag=f"{label}{mask:03d} ",
                )


# --------------------------------------------------------------------------
# PART B: the decision table itself, exhaustively, at the unit level (the
#         same entry point tests/productions/test_assignment.py uses)
# --------------------------------------------------------------------------
CURRENTS = [None, 0, 1, 2, "2", ""]
NEWS = [None, 0, 1, 2, 3, "", "true", "false", "nan", 2.5]


def part_b() -> None:
    print("===== PART B: _do_assignment_new_impl decision table =====")
    for AND in (True, False):
        path = CsvPath()
        matcher = Matcher(csvpath=path, data="[yes()]")
        matcher.AND = AND
        eq = Equality(matcher=matcher)
        for tracking in (None, "k"):
            for mask in range(256):
                qs = quals_of(mask)
                toks = []
                whats = []
                for cv, nv, lm in itertools.product(CURRENTS, NEWS, (True, False)):
                    path.variables.clear()
                    if cv is not None:
                        if tracking is None:
                            path.variables["a"] = cv
                        else:
                            path.variables["a"] = {tracking: cv}
                    matcher.explaination = []
                    args = {q: (q in qs) for q in QUALS}
                    args.update(
                        {
                            "noqualifiers": len(qs) == 0,
                            "count": False,
                            "current_value": cv,
                            "new_value": nv,
                            "line_matches": lm,
                        }
                    )
                    try:
                        ret = eq._do_assignment_new_impl(
                            name="a", tracking=tracking, args=args
                        )
                        r = repr(ret)[0] if isinstance(ret, bool) else repr(ret)
                    except Exception as e:  # pylint: disable=W0718
                        r = f"!{type(e).__name__}"
                    toks.append(f"{r}{path.variables!r}")
                    whats += [f"{w}" for w in matcher.explaination]
                CAPTURE.take()
                compact = "".join(t[0] for t in toks)
                print(
                    f"B AND={AND} tracking={tracking} {mask:03d} {'.'.join(qs) or '-'} "
                    f"votes={compact} state={digest(toks)} explain={digest(whats)}"
                )


# --------------------------------------------------------------------------
# PART C: varied real csvpaths around the assignment code path
# --------------------------------------------------------------------------
def part_c() -> None:
    print("===== PART C: varied csvpaths and edge cases =====")
    write("nums.csv", ["m,0", "m,1", "q,2", "m,2", "m,1", "m,0", "m,-1", "m,3"])
    write(
        "edge.csv",
        ["flag,val,other", "m,1,a", "", "m", "m,,b", "q,2,c", "m,0,d", "m, 3 ,e", "", "m,3,f", "m,true", "m,false,g,extra", ""],
    )
    write("one.csv", ["m,5"])
    write("empty.csv", [])
    write("hdr.csv", ["flag,val"])
    rhs = [
        "#1",
        "#val",
        "int(#1)",
        "count()",
        "has_matches()",
        "count_lines()",
        '"const"',
        "5",
        "0",
        "none()",
        "@y",
        "yes()",
        "no()",
        'concat(#0, "-", #1)',
        "add(@x, 1)",
        "line_number()",
    ]
    quals = [
        "",
        ".onmatch",
        ".latch",
        ".onchange",
        ".increase",
        ".decrease",
        ".notnone",
        ".asbool",
        ".nocontrib",
        ".onmatch.asbool",
        ".latch.onchange",
        ".onmatch.increase.notnone",
        ".decrease.nocontrib",
        ".notnone.latch.asbool",
        ".trk",
        ".trk.onmatch.increase",
        ".onchange.trk.asbool",
    ]
    for fname in ("nums.csv", "edge.csv"):
        for r in rhs:
            for q in quals:
                rr = r.replace("#val", "#1") if fname == "nums.csv" else r
                run(f'${fname}[*][ @y = #1 @x{q} = {rr} #0 == "m" ]', tag="C1 ")
    print("----- scan ranges, tiny files -----")
    for fname in ("one.csv", "empty.csv", "hdr.csv", "edge.csv"):
        for scan in ("*", "0", "1*", "1-3", "2+4+8"):
            for q in ("", ".onmatch", ".latch.notnone", ".increase.onmatch.asbool"):
                run(f'${fname}[{scan}][ @x{q} = #1 #0 == "m" ]', tag="C2 ")
    print("----- OR logic mode, all subsets -----")
    part_a(seqs=[(1, 2, 2), (ABSENT, 3, 1)], mode_comment="~ logic-mode: OR ~ ", label="C3")
    print("----- assignments inside when/do, several onmatch, functions sharing line_matches -----")
    many = [
        '#0 == "m" -> @x.latch = #1',
        '#0 == "m" -> @x.onchange = #1 @z = @x',
        '@x.onmatch = #1 @z.onmatch = count() #0 == "m"',
        '@x.onmatch = #1 @z.onmatch.increase = int(#1) #0 == "m"',
        '@z.onmatch.increase = int(#1) @x.onmatch = #1 #0 == "m" above(int(#1), 0)',
        '@x.onmatch = count() @z = count.onmatch() #0 == "m"',
        '@x = first.onmatch(#1) @z.onmatch = #1 #0 == "m"',
        '@x.onmatch = increment.onmatch(#0 == "m", 2) #0 == "m"',
        '@x.onmatch = min.onmatch(int(#1)) #0 == "m" @z.notnone = @x',
        '@x.onmatch.nocontrib = #1 @z.onmatch.asbool = #1 #0 == "m" or(yes(), no())',
        '@x.asbool = @x @z.latch.onchange = #0',
        '@x.onmatch = not(#1) #0 == "m"',
        '@x.increase = int(#1) or(#0 == "q", @x) @z.onmatch = @x',
        '@x.onmatch = #1 #0 == "m" print("line $.csvpath.line_number x=$.variables.x")',
        '@x.onchange.onmatch = #1 #0 == "m" last() -> print("done x=$.variables.x")',
        '@x.increase = #1 @x.decrease = int(#1)',
        '@x = 5 @x.increase = #1',
        '@x.notnone.asbool = #2 stop(line_number() == 6)',
        '@x.latch.onmatch = #1 skip(#0 == "q")',
        '@x.onmatch = #1 fail(#0 == "q")',
    ]
    for fname in ("nums.csv", "edge.csv"):
        for m in many:
            for mode in ("", "~ logic-mode: OR ~ ", "~ explain-mode: explain ~ "):
                run(f"{mode}${fname}[*][ {m} ]", verbose=(mode != "" and fname == "nums.csv"), tag="C4 ")
    print("----- stepping with next(): variables and explanation line by line -----")
    for q in (".onmatch", ".latch", ".onchange.increase", ".notnone.asbool", ".onmatch.decrease.nocontrib"):
        CAPTURE.take()
        p = CsvPath()
        p.parse(f'$edge.csv[*][ @x{q} = #1 or(#0 == "m", #0 == "flag") ]')
        for line in p.next():
            print(f"C5 {q} line {p.line_monitor.physical_line_number} {line} vars={p.variables!r}")
            for w in explain_of(p):
                print(f"      what: {w}")
        print(f"C5 {q} end vars={p.variables!r} valid={p.is_valid} errors={errs(p)} log={digest(CAPTURE.take())}")
    print("----- repeated runs, same instance and fresh instances -----")
    for i in range(3):
        run('$nums.csv[*][ @x.onmatch.increase = int(#1) #0 == "m" ]', tag=f"C6 fresh{i} ")
    p = CsvPath()
    p.parse('$nums.csv[*][ @x.onmatch.increase = int(#1) #0 == "m" ]')
    for i in range(3):
        try:
            lines = p.collect()
            print(f"C6 same{i} lines={lines} vars={p.variables!r} valid={p.is_valid}")
        except Exception as e:  # pylint: disable=W0718
            first = f"{e}".split("\n", 1)[0]
            print(f"C6 same{i} exc={type(e).__name__}: {first} vars={p.variables!r}")
    p = CsvPath()
    p.parse('$nums.csv[*][ @x.onmatch.increase = int(#1) #0 == "m" ]')
    p.fast_forward()
    print(f"C6 fast_forward vars={p.variables!r} valid={p.is_valid} counts={p.scan_count},{p.match_count}")
    print("----- malformed -----")
    for bad in (
        "@x. = #1",
        "@x.onmatch. = #1",
        "@.onmatch = #1",
        "@x.onmatch = ",
        '@x."quoted.qual".onmatch = #1 #0 == "m"',
        "@x.onmatch.onmatch = #1 #0 == \"m\"",
        "@x.ONMATCH = #1 #0 == \"m\"",
    ):
        run(f"$nums.csv[*][ {bad} ]", tag="C7 ")


# --------------------------------------------------------------------------
# PART D: a CsvPaths group run; the variables land in the archive
# --------------------------------------------------------------------------
RUN_DIR = re.compile(r"\d{4}-\d{2}-\d{2}_\d{2}-\d{2}-\d{2}([._]\d+)?")
VOLATILE = (
    "time",
    "uuid",
    "hostname",
    "username",
    "ip_address",
    "_home",
    "fingerprint",
    "_path",
    "run_dir",
    "named_file_",
    "_file",
    "cwd",
    "pid",
)


def scrub(o):
    if isinstance(o, dict):
        return {
            k: ("<volatile>" if any(v in k for v in VOLATILE) else scrub(o[k]))
            for k in o
        }
    if isinstance(o, list):
        return [scrub(_) for _ in o]
    if isinstance(o, str):
        return RUN_DIR.sub("<run>", o.replace(WORK, "<work>"))
    return o


def part_d() -> None:
    print("===== PART D: CsvPaths group run and archive =====")
    cp = CsvPaths()
    cp.file_manager.add_named_file(name="nums", path="nums.csv")
    cp.paths_manager.add_named_paths(
        name="assign",
        paths=[
            '~id:plain~ $[*][ @x = #1 #0 == "m" ]',
            '~id:onmatch~ $[*][ @x.onmatch.increase = int(#1) #0 == "m" ]',
            '~id:latch~ $[*][ @x.latch = #1 @c.onmatch = count() #0 == "m" ]',
            '~id:asbool~ $[*][ @x.notnone.asbool = int(#1) ]',
        ],
    )
    for method in ("collect_paths", "fast_forward_paths", "collect_by_line"):
        getattr(cp, method)(filename="nums", pathsname="assign")
        for r in cp.results_manager.get_named_results("assign"):
            try:
                lines = [list(_) for _ in r.lines.next()]
            except Exception as e:  # pylint: disable=W0718
                lines = f"{type(e).__name__}"
            print(
                f"D {method} {r.csvpath.identity}: lines={lines} vars={r.csvpath.variables!r} "
                f"valid={r.csvpath.is_valid} errors={r.errors and len(r.errors)}"
            )
    for root, dirs, files in os.walk("archive"):
        dirs.sort()
        for name in sorted(files):
            full = os.path.join(root, name)
            print(f"D file {RUN_DIR.sub('<run>', full)}")
            if name in ("vars.json", "data.csv", "unmatched.csv", "printouts.txt", "errors.json"):
                with open(full, "r", encoding="utf-8") as file:
                    txt = file.read()
                if name.endswith(".json"):
                    try:
                        txt = json.dumps(scrub(json.loads(txt)), sort_keys=False)
                    except ValueError:
                        pass
                for ln in txt.splitlines():
                    print(f"      | {ln}")


def main(extra=None) -> None:
    part_b()
    part_a()
    part_c()
    if extra:
        extra()
    part_d()
    print("===== done =====")



def extra() -> None:
    """t3: the spots the tidy-up touched: the names that imply onmatch, the
    asbool overlay, has_known_qualifiers(), and the look-ahead's bookkeeping
    of which expressions are already decided."""
    print("===== PART E: names that imply onmatch =====")
    rhs = [
        "count()",
        "has_matches()",
        'count(#0 == "m")',
        "count.onmatch()",
        "count.nocontrib()",
        "has_matches.onmatch()",
        "count_lines()",
        "count_scans()",
        "@count",
        '"count"',
        "#count",
        "count_headers()",
    ]
    lhs = [
        "@x",
        "@x.asbool",
        "@x.latch",
        "@x.onchange",
        "@x.increase",
        "@x.decrease.notnone",
        "@x.nocontrib",
        "@x.onmatch",
        "@x.trk",
        "@x.trk.latch.onchange",
        "@x.asbool.onmatch.nocontrib.notnone.decrease.increase.onchange.latch",
        "@x.latch.latch",
        "@x.once",
        "@x.distinct.onmatch",
        "@count.onmatch",
    ]
    write("cnt.csv", ["count,v", "m,1", "q,2", "", "m,3", "m"])
    for r in rhs:
        for l in lhs:
            for mode in ("", "~ logic-mode: OR ~ "):
                run(f'{mode}$cnt.csv[*][ {l} = {r} #0 == "m" ]', tag="E ")

    print("----- has_known_qualifiers and friends on parsed productions -----")
    from csvpath.matching.productions.qualified import Qualified

    names = Qualified.QUALIFIERS + ["trk", "Onmatch", "", "count"]
    path = CsvPath()
    for n in range(0, 4):
        for combo in itertools.combinations(names, n):
            if "" in combo:
                continue
            q = ".".join(("x",) + combo)
            for comp in (f"@{q} = #0", f"@{q}", f"count.{'.'.join(combo) or 'z'}()"):
                try:
                    matcher = Matcher(csvpath=path, data=f"[ {comp} ]")
                    top = matcher.expressions[0][0].children[0]
                    subject = top.left if isinstance(top, Equality) else top
                    print(
                        f"E2 {comp}: eq_known={top.has_known_qualifiers()} "
                        f"known={subject.has_known_qualifiers()} quals={subject.qualifiers} "
                        f"first={subject.first_non_term_qualifier()} second={subject.second_non_term_qualifier()}"
                    )
                except Exception as e:  # pylint: disable=W0718
                    first = f"{e}".split("\n", 1)[0]
                    print(f"E2 {comp}: {type(e).__name__}: {first}")
    CAPTURE.take()
    print("----- the look-ahead marks decided expressions -----")
    write("look.csv", ["f,a,b", "m,1,5", "q,2,4", "m,3,3", "", "m,,2", "m,5", "q", "m,7,0"])
    others = ['#0 == "m"', "above(int(#1), 2)", "@w.onmatch = #2", "@n.notnone = #2", "no()", "yes()"]
    for a in ("@x.onmatch = #1", "@x.onmatch.asbool = int(#2)", "@x.asbool.nocontrib = #2"):
        for o1, o2 in itertools.permutations(others, 2):
            for pos in range(3):
                comps = [o1, o2]
                comps.insert(pos, a)
                for mode in ("", "~ logic-mode: OR ~ "):
                    run(f"{mode}$look.csv[*][ {' '.join(comps)} ]", tag=f"E3.{pos} ")


if __name__ == "__main__":
    main(extra)
