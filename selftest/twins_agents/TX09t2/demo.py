#!/venv/bin/python
"""Differential demonstration for property C09 ("the archived results of a run
say what the run did").

Run with cwd = an empty temp directory and PYTHONPATH = the csvpath tree under
test. Prints a deterministic transcript: for many named-paths groups x files x
the six CsvPaths run methods it prints the in-memory results and the complete
contents of ./archive (run dir timestamps, uuids, wall-clock times, memory
addresses, absolute paths and traceback line numbers normalised).
"""
import os
import sys
import re
import json
import hashlib
import shutil
import datetime
import traceback

CONFIG = """[csvpath_files]
extensions = txt, csvpath, csvpaths

[csv_files]
extensions = txt, csv, tsv, dat, tab, psv, ssv

[errors]
csvpath = collect, fail, print
csvpaths = collect

[logging]
csvpath = info
csvpaths = info
log_file = logs/csvpath.log
log_files_to_keep = 100
log_file_size = 52428800

[config]
path = config/config.ini

[cache]
path = cache

[listeners]
[marquez]
base_url = http://localhost:5000

[functions]
imports = config/functions.imports

[results]
archive = archive
transfers = transfers

[inputs]
files = inputs/named_files
csvpaths = inputs/named_paths
on_unmatched_file_fingerprints = halt
"""

CWD = os.getcwd()
if os.path.exists(os.path.join(CWD, "csvpath")) or CWD.startswith("/tmp/wt/"):
    print("refusing to run inside a source tree; use an empty temp dir")
    sys.exit(2)

for d in ["archive", "cache", "logs", "inputs", "transfers", "config", "data"]:
    if os.path.exists(d):
        shutil.rmtree(d)
os.makedirs("config")
os.makedirs("data")
with open("config/config.ini", "w") as f:
    f.write(CONFIG)
with open("config/functions.imports", "w") as f:
    f.write("")

FILES = {
    "plain": "a,b,c\n1,x,0\n2,,zero\n3,y,\n0,0,0\n3,z,last\n",
    "quotes": 'a,b,c\n1,"he said ""hi""",x\n2,"comma, inside","multi\nline cell"\n3,"","""q"""\n4,\'single\',"a,""b"",c"\n',
    "blank": "a,b,c\n\n1,2\n\n\n3,4,5,6,7\n,,\n3\n   \n9,9,9\n",
    "header_only": "a,b,c\n",
    "one_col": "a\n3\n\n3\n4\n",
}
for name, content in FILES.items():
    with open(f"data/{name}.csv", "w", newline="") as f:
        f.write(content)

from csvpath import CsvPaths  # noqa: E402
from csvpath.managers.results.result_registrar import ResultRegistrar  # noqa: E402
from csvpath.managers.results.results_registrar import ResultsRegistrar  # noqa: E402
from csvpath.managers.results.result_serializer import ResultSerializer  # noqa: E402
from csvpath.util.line_spooler import LineSpooler  # noqa: E402

GROUPS = {
    "basic": ["$[*][yes()]", '~id:two~ $[*][#a=="3"]'],
    "vars": [
        '~ id: counters ~ $[*][ @n = count() @z = 0 @e = "" @last_a = #a push("xs", #a) tally(#b) ]',
        '~ name: floats ~ $[1*][ @f = 1.5 @t = yes() @none = none() @ln = line_number() #a == "3" ]',
    ],
    "printing": [
        '~ id: pr ~ $[*][ print("line $.csvpath.line_number: $.headers.a|$.headers.b") ]',
        '~ id: pr2 print-mode: no-default ~ $[1-2][ print("only two: $.headers.a") print("second statement") ]',
        "$[*][ no() print(\"never\") ]",
    ],
    "stops": [
        '~ id: stopper ~ $[*][ @c = count_lines() stop(#a=="3") ]',
        '~ id: failer ~ $[*][ #a=="3" -> fail() ]',
        '~ id: both ~ $[*][ #a=="2" -> fail_and_stop() ]',
        '~ id: skipper ~ $[*][ skip(#a=="2") @seen = count() ]',
    ],
    "unmatched": [
        '~ id: keep unmatched-mode: keep ~ $[*][ #a=="3" ]',
        '~ id: keepnot unmatched-mode: keep return-mode: no-matches ~ $[*][ #a=="3" ]',
        '~ id: nokeep unmatched-mode: no-keep ~ $[*][ #a=="3" ]',
    ],
    "filesmode": [
        '~ id: fm_all files-mode: all unmatched-mode: keep ~ $[*][ #a=="3" print("x") ]',
        '~ id: fm_all_short files-mode: all ~ $[*][ #a=="3" ]',
        '~ id: fm_data files-mode: data ~ $[*][ #a=="nope" ]',
        '~ id: fm_data_unm files-mode: data, unmatched ~ $[*][ #a=="3" ]',
        '~ id: fm_print files-mode: printouts ~ $[*][ print("p") ]',
        '~ id: fm_print_none files-mode: printouts, data ~ $[*][ yes() ]',
        '~ id: fm_vars files-mode: vars, meta, errors ~ $[*][ yes() ]',
    ],
    "errors": [
        '~ id: divzero ~ $[*][ @d = divide(1, 0) ]',
        '~ id: badint validation-mode: no-raise, no-stop, collect, print ~ $[*][ @i = int(#b) ]',
        '~ id: badint_fail validation-mode: no-raise, fail, collect ~ $[*][ @i = int(#b) yes() ]',
        '~ id: fine ~ $[*][ yes() ]',
    ],
    "preceding": [
        '~ id: first ~ $[*][ #a=="3" ]',
        '~ id: second source-mode: preceding ~ $[*][ @n = count() yes() ]',
        '~ id: third source-mode: preceding ~ $[*][ no() ]',
        '~ id: fourth source-mode: preceding ~ $[*][ yes() ]',
    ],
    "scans": ["$[1-2][yes()]", "$[3*][yes()]", "$[0][yes()]", "~ id: norun run-mode: no-run ~ $[*][yes()]"],
    "transfer": [
        '~ id: tr transfer-mode: data > dest, unmatched > udest unmatched-mode: keep ~ $[*][ @dest = "out/d.csv" @udest = "out/u.csv" #a=="3" ]',
    ],
    "badtransfer": [
        '~ id: trbad transfer-mode: data > nosuchvar ~ $[*][ #a=="3" ]',
        '~ id: after ~ $[*][ yes() ]',
    ],
    "unparsable": ["$[*][ this is not a csvpath ", '~ id: ok ~ $[*][yes()]'],
    "noident": ["$[*][ #a ]", '~ id: ~ $[*][ #b ]', '~ description: no id here ~ $[*][ #c ]'],
}

SHA = re.compile(r"\b[0-9a-f]{64}\b")
UUID = re.compile(r"\b[0-9a-f]{8}-[0-9a-f]{4}-[0-9a-f]{4}-[0-9a-f]{4}-[0-9a-f]{12}\b")
RUNDIR = re.compile(r"\d{4}-\d\d-\d\d_\d\d-\d\d-\d\d(\.\d+)?")
STAMP = re.compile(r"\d{4}-\d\d-\d\d[ T]\d\d:\d\d:\d\d(\.\d+)?(\+\d\d:\d\d)?")
CTIME = re.compile(r"(Mon|Tue|Wed|Thu|Fri|Sat|Sun) [A-Z][a-z]{2} [ \d]\d \d\d:\d\d:\d\d \d{4}")
ADDR = re.compile(r"0x[0-9a-f]+")
TBLINE = re.compile(r'File "([^"]+)", line \d+')
SITE = re.compile(r'File "[^"]*?/(csvpath/[^"]+)"')


def run_key(x):
    t, dot, n = x.partition(".")
    return (datetime.datetime.strptime(t, "%Y-%m-%d_%H-%M-%S"), int(n) if dot else -1)


def norm(text: str, rundirs: dict, shas: dict) -> str:
    for rd in sorted(rundirs, key=len, reverse=True):
        text = text.replace(rd, rundirs[rd])
    text = text.replace(CWD, "<CWD>")
    for s, label in shas.items():
        text = text.replace(s, label)
    text = SITE.sub(lambda m: f'File "<SRC>/{m.group(1)}"', text)
    text = TBLINE.sub(lambda m: f'File "{m.group(1)}", line N', text)
    text = UUID.sub("<UUID>", text)
    text = RUNDIR.sub("<RUNDIR?>", text)
    text = STAMP.sub("<TIME>", text)
    text = CTIME.sub("<CTIME>", text)
    text = ADDR.sub("0xADDR", text)
    return text


def scrub_json(o):
    if isinstance(o, dict):
        r = {}
        for k, v in o.items():
            if k in ("lines_time", "last_line_time"):
                r[k] = "<SECS>"
            elif k == "trace" and isinstance(v, str):
                # keep the frames' function names, drop source-text lines whose
                # content is incidental
                r[k] = v
            else:
                r[k] = scrub_json(v)
        return r
    if isinstance(o, list):
        return [scrub_json(_) for _ in o]
    return o


def sha_of(path):
    with open(path, "rb") as f:
        return hashlib.sha256(f.read()).hexdigest()


def dump_archive(pathsname):
    base = os.path.join("archive", pathsname)
    print(f"  == archive/{pathsname}")
    if not os.path.exists(base):
        print("     (no archive dir)")
        return
    runs = [d for d in os.listdir(base) if not d.startswith(".")]
    try:
        runs = sorted(runs, key=run_key)
    except ValueError:
        runs = sorted(runs)
    rundirs = {rd: f"<RUN{i+1}>" for i, rd in enumerate(runs)}
    # sha -> label for every file on disk
    shas = {}
    allfiles = []
    for root, dirs, files in os.walk(base):
        dirs.sort()
        for fn in sorted(files):
            p = os.path.join(root, fn)
            allfiles.append(p)
    for p in allfiles:
        label = "<sha256 of " + norm(os.path.relpath(p, base), rundirs, {}) + ">"
        s = sha_of(p)
        if s not in shas:
            shas[s] = label
    for p in allfiles:
        rel = norm(os.path.relpath(p, base), rundirs, {})
        with open(p, "rb") as f:
            raw = f.read()
        print(f"  -- {rel} ({'empty' if len(raw) == 0 else 'non-empty'})")
        text = raw.decode("utf-8")
        if p.endswith(".json"):
            try:
                j = json.loads(text)
            except Exception as e:  # pragma: no cover
                print(f"     !! unparsable json: {type(e).__name__}")
                j = None
            if j is not None:
                if os.path.basename(p) == "manifest.json" and isinstance(j, dict):
                    fps = j.get("file_fingerprints")
                    if isinstance(fps, dict):
                        for k, v in fps.items():
                            fp = os.path.join(os.path.dirname(p), k)
                            ok = os.path.exists(fp) and sha_of(fp) == v
                            print(f"     fingerprint[{k}] matches bytes on disk: {ok}")
                    own = os.path.relpath(p, base).split(os.sep)[0]
                    if "run" in j and os.path.dirname(os.path.relpath(p, base)) != own:
                        # member manifest: "run" is the run dir name without any .N
                        # same-second counter; which <RUNn> label that text maps to
                        # depends on the wall clock, so report the relation instead
                        j["run"] = f"<own run dir minus .N: {j['run'] == own.partition('.')[0]}>"
                text = json.dumps(scrub_json(j), indent=2)
        else:
            text = repr(text)
        for line in norm(text, rundirs, shas).split("\n"):
            print(f"     {line}")


def lines_of(result):
    ls = result.lines
    if isinstance(ls, LineSpooler):
        return ("spooler", len(ls), ls.closed, ls.bytes_written(), [l for l in ls.next()])
    return ("list", len(ls) if ls is not None else None, None, None, ls)


def safe(fn, *args):
    try:
        return fn(*args)
    except Exception as e:
        return f"<{type(e).__name__}: {e}>"


def dump_result(cp, rm, pathsname, r):
    kind, n, closed, nbytes, ls = lines_of(r)
    print(f"  result[{r.run_index}] identity_or_index={r.identity_or_index!r} identity={r.csvpath.identity!r}")
    print(f"     valid={r.is_valid} csvpath.valid={r.csvpath.is_valid} completed={r.csvpath.completed} stopped={r.csvpath.stopped}")
    print(f"     lines: kind={kind} len={n} closed={closed} bytes={nbytes} len(result)={len(r)}")
    for l in ls or []:
        print(f"       {l!r}")
    print(f"     unmatched={r.unmatched!r}")
    print(f"     variables={json.dumps(r.variables, sort_keys=True, default=str)}")
    print(f"     errors_count={r.errors_count} has_errors={r.has_errors()}")
    for e in r.errors:
        print(f"       error line={e.line_count} msg={norm(str(e.message), {}, {})!r} exc={type(e.error).__name__}")
    print(f"     printouts={r.get_printouts()!r} lines_printed={r.lines_printed} last_line={r.last_line!r}")
    print(f"     all_expected_files(csvpath)={r.csvpath.all_expected_files!r} transfers={r.csvpath.transfers!r}")
    m = rm.get_specific_named_result_manifest(pathsname, r.csvpath.identity)
    if m is None:
        print("     specific manifest: None")
    else:
        print(
            f"     specific manifest: valid={m.get('valid')} completed={m.get('completed')} "
            f"files_expected={m.get('files_expected')} file_count={m.get('file_count')} "
            f"files={sorted((m.get('file_fingerprints') or {}).keys())} order={list((m.get('file_fingerprints') or {}).keys())}"
        )
    rr = ResultRegistrar(
        csvpaths=cp, result=r, result_serializer=ResultSerializer(cp.config.archive_path)
    )
    fps = rr.file_fingerprints
    ok = all(sha_of(os.path.join(r.instance_dir, k)) == v for k, v in fps.items())
    print(
        f"     registrar: completed={rr.completed} all_expected_files={rr.all_expected_files} "
        f"fingerprint keys={list(fps.keys())} agree_with_disk={ok} archive_name={rr.archive_name!r}"
    )


def dump_memory(cp, pathsname):
    try:
        results = cp.results_manager.get_named_results(pathsname)
    except Exception as e:
        print(f"  results: {type(e).__name__}")
        return
    rm = cp.results_manager
    print(
        f"  manager: n={safe(rm.get_number_of_results, pathsname)} valid={safe(rm.is_valid, pathsname)} "
        f"has_errors={safe(rm.has_errors, pathsname)} errors={safe(rm.get_number_of_errors, pathsname)} "
        f"has_lines={safe(rm.has_lines, pathsname)}"
    )
    print(f"  manager variables: {safe(lambda: json.dumps(rm.get_variables(pathsname), sort_keys=True, default=str))}")
    for r in results:
        try:
            dump_result(cp, rm, pathsname, r)
        except Exception as e:
            print(f"     !! {type(e).__name__}: {norm(str(e), {}, {})}")
    try:
        print(f"  metadata keys: {sorted(rm.get_metadata(pathsname).keys())}")
    except Exception as e:
        print(f"  metadata: {type(e).__name__}: {norm(str(e), {}, {})}")


def run(method, pathsname, filename, fresh=True, cp=None):
    print("=" * 100)
    print(f"RUN method={method} paths={pathsname} file={filename}")
    if cp is None:
        cp = CsvPaths()
        cp.file_manager.add_named_file(name=filename, path=f"data/{filename}.csv")
        cp.paths_manager.add_named_paths(name=pathsname, paths=GROUPS[pathsname])
    returned = None
    try:
        if method == "collect_paths":
            returned = cp.collect_paths(filename=filename, pathsname=pathsname)
        elif method == "fast_forward_paths":
            returned = cp.fast_forward_paths(filename=filename, pathsname=pathsname)
        elif method == "next_paths":
            returned = [l for l in cp.next_paths(filename=filename, pathsname=pathsname)]
        elif method == "next_paths_collect":
            returned = [l for l in cp.next_paths(filename=filename, pathsname=pathsname, collect=True)]
        elif method == "collect_by_line":
            returned = cp.collect_by_line(filename=filename, pathsname=pathsname)
        elif method == "collect_by_line_agree":
            returned = cp.collect_by_line(filename=filename, pathsname=pathsname, if_all_agree=True)
        elif method == "collect_by_line_notmatched":
            returned = cp.collect_by_line(filename=filename, pathsname=pathsname, collect_when_not_matched=True)
        elif method == "fast_forward_by_line":
            returned = cp.fast_forward_by_line(filename=filename, pathsname=pathsname)
        elif method == "next_by_line":
            returned = [l for l in cp.next_by_line(filename=filename, pathsname=pathsname)]
        elif method == "next_by_line_collect":
            returned = [l for l in cp.next_by_line(filename=filename, pathsname=pathsname, collect=True)]
        else:
            raise ValueError(method)
        print(f"  returned: {returned!r}")
    except Exception as e:
        print(f"  EXCEPTION {type(e).__name__}: {norm(str(e), {}, {})}")
    dump_memory(cp, pathsname)
    if fresh:
        dump_archive(pathsname)
        shutil.rmtree(os.path.join("archive", pathsname), ignore_errors=True)
        shutil.rmtree("transfers", ignore_errors=True)
    return cp


METHODS = [
    "collect_paths",
    "fast_forward_paths",
    "next_paths",
    "collect_by_line",
    "fast_forward_by_line",
    "next_by_line",
]


def stdout_quiet():
    pass


def main():
    # 1. every group x all six methods on the plain file
    for g in GROUPS:
        for m in METHODS:
            run(m, g, "plain")
    # 2. awkward files x a few groups x all methods (+ collecting variants)
    for fn in ["quotes", "blank", "header_only", "one_col"]:
        for g in ["basic", "vars", "unmatched", "preceding", "printing", "stops"]:
            extra = ["next_paths_collect", "next_by_line_collect", "collect_by_line_agree", "collect_by_line_notmatched"]
            for m in METHODS + (extra if g in ("basic", "unmatched") else []):
                run(m, g, fn)
    # 3. repeated runs on the same CsvPaths and the same archive (same-second
    #    run dirs get .N suffixes); archive dumped once at the end
    print("#" * 100)
    print("REPEATED RUNS")
    cp = None
    for m in ["collect_paths", "collect_paths", "fast_forward_paths", "collect_by_line", "next_by_line", "collect_paths"]:
        cp = run(m, "basic", "plain", fresh=False, cp=cp)
    dump_archive("basic")
    print(f"  list_named_results={cp.results_manager.list_named_results()}")
    for ref in ["$basic.results.2:last.two", "$basic.results.2:first.two", "$basic.results.2:last.0", "$basic.results.2:last.nope", "$nope.results.2:last.two"]:
        try:
            p = cp.results_manager.data_file_for_reference(ref)
            rel = os.path.relpath(p, "archive/basic")
            runs = sorted([d for d in os.listdir("archive/basic")], key=run_key)
            print(f"  ref {ref} -> run #{runs.index(rel.split(os.sep)[0]) + 1} {os.sep.join(rel.split(os.sep)[1:])}")
        except Exception as e:
            print(f"  ref {ref} -> {type(e).__name__}: {norm(str(e), {}, {})}")
    shutil.rmtree("archive/basic", ignore_errors=True)
    # 4. a changed input file (fingerprint mismatch halts the run at start_run)
    print("#" * 100)
    print("CHANGED INPUT FILE")
    cp = CsvPaths()
    cp.file_manager.add_named_file(name="plain", path="data/plain.csv")
    cp.paths_manager.add_named_paths(name="basic", paths=GROUPS["basic"])
    run("collect_paths", "basic", "plain", fresh=False, cp=cp)
    registered = cp.file_manager.get_named_file("plain")
    print(f"  registered copy: {norm(registered, {}, {})}")
    with open(registered, "a") as f:
        f.write("7,7,7\n")
    for m in ["collect_paths", "fast_forward_by_line"]:
        run(m, "basic", "plain", fresh=False, cp=cp)
    dump_archive("basic")
    shutil.rmtree("archive/basic", ignore_errors=True)
    # 5. unit-level: registrars against hand-made instance directories
    print("#" * 100)
    print("REGISTRAR UNIT CASES")
    cp = CsvPaths()
    cp.file_manager.add_named_file(name="one_col", path="data/one_col.csv")
    cp.paths_manager.add_named_paths(name="unit", paths=['~id:u~ $[*][yes()]'])
    cp.fast_forward_paths(filename="one_col", pathsname="unit")
    r = cp.results_manager.get_named_results("unit")[0]
    rs = ResultSerializer(cp.config.archive_path)
    rr = ResultRegistrar(csvpaths=cp, result=r, result_serializer=rs)
    idir = r.instance_dir
    names = ["data.csv", "unmatched.csv", "printouts.txt", "meta.json", "errors.json", "vars.json"]
    tokens = [
        None, [], ["all"], [" all "], ["data"], ["unmatched"], ["printouts"], ["no-data"], ["no-unmatched"],
        ["no-printouts"], ["vars"], ["meta", "errors"], ["data", "no-unmatched"], ["no-data", "printouts"],
        ["database", "allsorts"], ["unknown"], ["  data  ", "unmatched"], ["no-data", "no-unmatched", "no-printouts"],
        ["vars", "errors", "meta", "data", "unmatched", "printouts"], [""], ["no-"], ["data", "data"],
    ]
    import itertools
    for present in itertools.chain.from_iterable(itertools.combinations(names, k) for k in range(len(names) + 1)):
        for n in names:
            p = os.path.join(idir, n)
            if n in present:
                with open(p, "w") as f:
                    f.write(f"content of {n}\n" if n != "data.csv" else "")
            elif os.path.exists(p):
                os.remove(p)
        verdicts = []
        for t in tokens:
            r.csvpath.all_expected_files = t
            verdicts.append("T" if rr.all_expected_files is True else ("F" if rr.all_expected_files is False else "?"))
        fps = rr.file_fingerprints
        ok = all(sha_of(os.path.join(idir, k)) == v for k, v in fps.items())
        has = "".join("1" if rr.has_file(n) else "0" for n in names)
        print(f"  present={has} expected={''.join(verdicts)} fingerprint_keys={list(fps.keys())} ok={ok}")
    print(f"  _fingerprint(dir missing file)={rr._fingerprint(os.path.join(idir, 'nope.csv'))!r}")
    try:
        rr._fingerprint(idir)
    except Exception as e:
        print(f"  _fingerprint(directory) -> {type(e).__name__}")
    with open(os.path.join(idir, "vars.json"), "wb") as f:
        f.write(b"")
    print(f"  _fingerprint(empty file)={rr._fingerprint(os.path.join(idir, 'vars.json'))}")
    rsr = ResultsRegistrar(csvpaths=cp, run_dir=r.run_dir, pathsname="unit", results=[r])
    print(f"  results registrar: _fingerprint_file={rsr._fingerprint_file('data/one_col.csv')} size={rsr._size('data/one_col.csv')} missing size={rsr._size('data/nope.csv')} missing change={rsr._last_change('data/nope.csv')}")
    try:
        rsr._fingerprint_file("data/nope.csv")
    except Exception as e:
        print(f"  results registrar _fingerprint_file(missing) -> {type(e).__name__}")
    print(f"  results registrar: all_valid={rsr.all_valid()} all_completed={rsr.all_completed()} error_count={rsr.error_count()} all_expected_files={rsr.all_expected_files()}")
    # serializer unit cases: _save straight to an instance dir
    print("#" * 100)
    print("SERIALIZER UNIT CASES")
    cases = [
        dict(lines=None, unmatched=None, printouts=None),
        dict(lines=[], unmatched=[], printouts={}),
        dict(lines=[["a", "b"], ["1", 'q"uote'], ["2", "new\nline"], [], ["", ""]], unmatched=[["u", "v,w"]], printouts={"default": ["one", "two"], "other": [], "third": None, "x": ["last"]}),
        dict(lines=[[0, None, 1.5, True]], unmatched=[[]], printouts={"default": []}),
        dict(lines=r.lines, unmatched=None, printouts={"default": None}),
    ]
    for i, c in enumerate(cases):
        rs2 = ResultSerializer(cp.config.archive_path)
        rd = os.path.join("archive", "serial", f"case{i}")
        try:
            if isinstance(c["lines"], LineSpooler):
                _save_with_result(rs2, r, rd, c, i)
            else:
                rs2._save(
                    metadata={"id": f"case{i}"}, runtime_data={"k": 0}, errors=[{"e": i}], variables={"v": [i, None, "", 0]},
                    lines=c["lines"], printouts=c["printouts"], paths_name="serial", file_name="one_col",
                    identity="inst", run_time=None, run_dir=rd, run_index=i, unmatched=c["unmatched"],
                )
            print(f"  case{i}: saved")
        except Exception as e:
            print(f"  case{i}: {type(e).__name__}: {e}")
    dump_archive("serial")
    print(f"  _has_printouts: {[ResultSerializer('x')._has_printouts(p) for p in [None, {}, {'a': None}, {'a': []}, {'a': ['']}, {'a': [], 'b': ['x']}]]}")


def _save_with_result(rs2, r, rd, c, i):
    rs2.result = r
    rs2._save(
        metadata={"id": f"case{i}"}, runtime_data={"k": 0}, errors=[], variables={},
        lines=c["lines"], printouts=c["printouts"], paths_name="serial", file_name="one_col",
        identity="inst", run_time=None, run_dir=rd, run_index=i, unmatched=c["unmatched"],
    )
    rs2.result = None


main()
print("DONE")
