"""Differential demonstration for property C12 (named-paths groups round-trip
and select by identity).

Standalone: creates its own temp working directory with an offline
config/config.ini, exercises PathsManager (add / get / '#id' / '$n.csvpaths.id'
/ ':from' / ':to' / re-add / replace / remove / new instance / from file, dir,
json / hand edits / error cases) plus a couple of CsvPaths runs, and prints a
deterministic transcript of everything observable: return values, exceptions,
group files, manifests (time/uuid normalised), directory listings, results,
archive listing (run-dir timestamps normalised) and the debug log (timestamps
normalised).

usage:  PYTHONPATH=<tree> /venv/bin/python demo.py > transcript.txt
"""
import os
import sys
import re
import json
import shutil
import hashlib
import tempfile
import contextlib
import io

CONFIG = """[csvpath_files]
extensions = txt, csvpath, csvpaths

[csv_files]
extensions = txt, csv, tsv, dat, tab, psv, ssv

[errors]
csvpath = raise, collect, stop, fail, print
csvpaths = raise, collect

[logging]
csvpath = debug
csvpaths = debug
log_file = logs/csvpath.log
log_files_to_keep = 100
log_file_size = 52428800

[config]
path = config/config.ini

[cache]
path = cache

[listeners]
[marquez]
base_url = http://localhost:5000

[functions]
imports = config/functions.imports

[results]
archive = archive
transfers = transfers

[inputs]
files = inputs/named_files
csvpaths = inputs/named_paths
on_unmatched_file_fingerprints = halt
"""

WORK = tempfile.mkdtemp(prefix="demo_TYC12_")
os.chdir(WORK)
os.makedirs("config")
with open("config/config.ini", "w", encoding="utf-8") as _f:
    _f.write(CONFIG)
with open("config/functions.imports", "w", encoding="utf-8") as _f:
    _f.write("")

from csvpath import CsvPaths  # noqa: E402  pylint: disable=C0413

NP = os.path.join("inputs", "named_paths")

TS = re.compile(r"\d{4}-\d{2}-\d{2}[T ]\d{2}:\d{2}:\d{2}([.,]\d+)?(\+00:00)?")
RUN = re.compile(r"\d{4}-\d{2}-\d{2}_\d{2}-\d{2}-\d{2}(_\d+)?")
UUID = re.compile(r"[0-9a-f]{8}-[0-9a-f]{4}-[0-9a-f]{4}-[0-9a-f]{4}-[0-9a-f]{12}")
ADDR = re.compile(r"0x[0-9a-f]+")
CACHE = re.compile(r"cache/[0-9a-f]{64}")


def norm(s: str) -> str:
    s = s.replace(WORK, "<WORK>")
    s = TS.sub("<TS>", s)
    s = RUN.sub("<RUN>", s)
    s = UUID.sub("<UUID>", s)
    s = ADDR.sub("<ADDR>", s)
    s = CACHE.sub("cache/<KEY>", s)
    return s


def out(*a) -> None:
    print(norm(" ".join(str(_) for _ in a)))


def call(label, fn, *args, **kwargs):
    """calls fn, prints the outcome (value or exception incl. cause), returns value"""
    buf = io.StringIO()
    try:
        with contextlib.redirect_stdout(buf):
            r = fn(*args, **kwargs)
        if buf.getvalue():
            out(f"{label} printed: {buf.getvalue()!r}")
        out(f"{label} -> {r!r}")
        return r
    except Exception as ex:  # pylint: disable=W0718
        if buf.getvalue():
            out(f"{label} printed: {buf.getvalue()!r}")
        cause = ex.__cause__
        out(
            f"{label} !! {type(ex).__name__}: {ex}"
            + (f" <- {type(cause).__name__}: {cause}" if cause else "")
        )
        return None


def sha(path):
    if not os.path.exists(path):
        return None
    with open(path, "rb") as f:
        return hashlib.sha256(f.read()).hexdigest()


def listing(root):
    if not os.path.exists(root):
        out(f"  [{root} does not exist]")
        return
    for base, dirs, files in os.walk(root):
        dirs.sort()
        for f in sorted(files):
            p = os.path.join(base, f)
            # json files carry timestamps whose text length varies; no sizes for them
            size = "" if f.endswith(".json") else f" ({os.path.getsize(p)} bytes)"
            out(f"  {p}{size}")
        if not dirs and not files:
            out(f"  {base}/ (empty)")


def group_file(name):
    p = os.path.join(NP, name, "group.csvpaths")
    if not os.path.exists(p):
        out(f"  group file {p}: missing")
        return
    with open(p, "r", encoding="utf-8") as f:
        s = f.read()
    out(f"  group file {p}: sha256={sha(p)} content={s!r}")


def manifest(name):
    p = os.path.join(NP, name, "manifest.json")
    if not os.path.exists(p):
        out(f"  manifest {p}: missing")
        return
    with open(p, "r", encoding="utf-8") as f:
        j = json.load(f)
    out(f"  manifest {p}: {len(j)} entries")
    gf = sha(os.path.join(NP, name, "group.csvpaths"))
    for i, m in enumerate(j):
        out(f"   [{i}] keys={list(m.keys())}")
        for k, v in m.items():
            if k in ("time", "uuid", "time_started", "time_completed"):
                v = f"<{k}:{type(v).__name__}>"
            out(f"   [{i}] {k}={v!r}")
        if i == len(j) - 1:
            out(f"   [{i}] fingerprint == sha256(current group file): {m['fingerprint'] == gf}")


def state(name):
    group_file(name)
    manifest(name)


def roundtrip(cp, name, paths):
    got = cp.paths_manager.get_named_paths(name)
    ok = (
        got is not None
        and isinstance(paths, list)
        and len(got) == len(paths)
        and all(str(a).strip() == str(b).strip() for a, b in zip(got, paths))
    )
    out(f"  round trip equal up to whitespace, same order: {ok}")


def selections(cp, name, identities):
    pm = cp.paths_manager
    for ident in identities:
        call(f"  get({name}#{ident})", pm.get_named_paths, f"{name}#{ident}")
        call(f"  get(${name}.csvpaths.{ident})", pm.get_named_paths, f"${name}.csvpaths.{ident}")
        call(f"  get({name}#{ident}:from)", pm.get_named_paths, f"{name}#{ident}:from")
        call(f"  get({name}#{ident}:to)", pm.get_named_paths, f"{name}#{ident}:to")
        call(f"  get(${name}.csvpaths.{ident}:from)", pm.get_named_paths, f"${name}.csvpaths.{ident}:from")
        call(f"  get(${name}.csvpaths.{ident}:to)", pm.get_named_paths, f"${name}.csvpaths.{ident}:to")


# ---------------------------------------------------------------- inputs

MULTI = """
   ~ ID: upper
     test: multi
     line ~
$[*][
    ~ inner comment with id: notanid ~
    #b == "x" -> print("hi $.csvpath.line_number")
]
   """

LISTS = {
    "single": ["$[*][yes()]"],
    "three": [
        "~id:one~ $[*][yes()]",
        '~ name: two ~ $[*][#a=="3"]',
        "~Id:three description: third~$[1][no()]",
    ],
    "multiline": [MULTI, "~ name: after ~\n\n$[1*][ #a ]\n\n", "\t$[*][ ~only inner~ yes() ]  "],
    "precedence": [
        "~ name: n1 id: i1 ~ $[*][yes()]",
        "~ NAME: N2 Name: n2 ~ $[*][yes()]",
        "~ ID: I3 Id: i3 ~ $[*][yes()]",
        "~ NAME: N4 ~ $[*][yes()]",
        "~ name: n5 Id: i5 ID: I5 ~ $[*][yes()]",
    ],
    "dups": [
        "~id:dup~ $[*][yes()]",
        "~id:~ $[*][no()]",
        "~ just a comment ~ $[*][yes()]",
        "~id:dup~ $[2][yes()]",
        "~id: 0 ~ $[0][yes()]",
    ],
    "empty": [],
    "zero_ids": ["~id:0~ $[*][yes()]", "$[1][yes()]", "~id:1~ $[2][yes()]"],
    "marker_inside": ["~id:m description: has ---- CSVPATH ---- inside ~ $[*][yes()]", "~id:n~ $[*][no()]"],
    "blank_member": ["~id:a~ $[*][yes()]", "   ", "~id:c~ $[*][yes()]"],
    "not_a_csvpath": ["hello world"],
    "non_str": ["~id:a~ $[*][yes()]", 5],
    "colon_id": ["~id: a:b ~ $[*][yes()]", "~ id: x-1_y ~ $[*][no()]"],
    "large": [
        (f"~ id: p{i} ~ " if i % 3 else ("~ name:  ~ " if i % 2 else "")) + f"$[{i}*][ #a == \"{i}\" ]" + "\n" * (i % 4)
        for i in range(40)
    ],
}

PROBES = {
    "single": ["0"],
    "three": ["one", "two", "three", "third"],
    "multiline": ["upper", "after", "notanid", "2"],
    "precedence": ["i1", "n1", "n2", "N2", "I3", "i3", "N4", "i5", "I5", "n5"],
    "dups": ["dup", "0", "1", "2"],
    "empty": ["0"],
    "zero_ids": ["0", "1", "2"],
    "marker_inside": ["m", "n"],
    "blank_member": ["a", "c", "1"],
    "not_a_csvpath": ["0"],
    "non_str": ["a", "1"],
    "colon_id": ["a", "b", "a:b", "x-1_y"],
    "large": ["p1", "p38", "p39", "0", "3"],
}
ALWAYS = ["", "missing"]


def section(t):
    out("")
    out(f"==== {t} ====")


def part_a():
    section("A. add / get / select for varied lists")
    cp = CsvPaths()
    pm = cp.paths_manager
    for name, paths in LISTS.items():
        out("")
        out(f"--- list {name}: {paths!r}")
        call(f"  add({name})", pm.add_named_paths, name=name, paths=paths)
        state(name)
        call(f"  has({name})", pm.has_named_paths, name)
        got = call(f"  get({name})", pm.get_named_paths, name)
        if got is not None:
            call("  roundtrip", roundtrip, cp, name, paths)
        call(f"  number_of({name})", pm.number_of_named_paths, name)
        call(f"  identified({name})", pm.get_identified_paths_in, name)
        call(f"  identified({name}, paths=)", pm.get_identified_paths_in, name, paths)
        selections(cp, name, PROBES[name] + ALWAYS)
        call(f"  get({name}#one:upto)", pm.get_named_paths, f"{name}#one:upto")
        call(f"  get(${name}.csvpaths.one:upto)", pm.get_named_paths, f"${name}.csvpaths.one:upto")
        call(f"  get(${name}.variables.one)", pm.get_named_paths, f"${name}.variables.one")
        call(f"  get(${name}.nonsense.one)", pm.get_named_paths, f"${name}.nonsense.one")
        call(f"  get(${name}#q.csvpaths.one)", pm.get_named_paths, f"${name}#q.csvpaths.one")
        call(f"  get(#{name})", pm.get_named_paths, f"#{name}")
        state(name)
    call("  names", lambda: sorted(pm.named_paths_names))
    call("  total", pm.total_named_paths)
    call("  get(nope)", pm.get_named_paths, "nope")
    call("  get(nope#x)", pm.get_named_paths, "nope#x")
    call("  get($nope.csvpaths.x)", pm.get_named_paths, "$nope.csvpaths.x")
    call("  get(nope#x:from)", pm.get_named_paths, "nope#x:from")
    call("  number_of(nope)", pm.number_of_named_paths, "nope")
    call("  get(None)", pm.get_named_paths, None)
    call("  get('')", pm.get_named_paths, "")
    listing(NP)
    stray = os.path.join(NP, "manifest.json")
    if os.path.isfile(stray):
        # get_named_paths('') leaves a stray manifest in the named-paths root that
        # would make remove_all_named_paths() fail; drop it so the demo can go on
        os.remove(stray)
        out(f"  removed stray {stray}")
    out("--- bad arguments")
    for bad in ("$[*][yes()]", None, ("$[*][yes()]",), {"a": "$[*][yes()]"}, 0):
        call(f"  add(bad, paths={bad!r})", pm.add_named_paths, name="bad", paths=bad)
    call("  has(bad)", pm.has_named_paths, "bad")
    call("  set({ok:[..], ko:str})", pm.set_named_paths, {"ok": ["$[*][yes()]"], "ko": "$[*][no()]"})
    call("  has(ok)", pm.has_named_paths, "ok")
    call("  set({s1:[..], s2:[..]})", pm.set_named_paths,
         {"s1": ["~id:x~$[*][yes()]"], "s2": ["~id:y~$[*][no()]", "~id:z~$[*][yes()]"]})
    state("s1")
    state("s2")
    call("  remove_all", pm.remove_all_named_paths)
    listing(NP)


def part_b():
    section("B. operation sequences on two group names")
    v1 = ["~id:a~ $[*][yes()]", "~id:b~ $[*][no()]"]
    v2 = ["~id:a~ $[*][yes()]", "~id:b~ $[*][no()]", "~id:c~ $[1][yes()]"]
    v3 = ["~id:b~ $[*][no()]", "~id:a~ $[*][yes()]"]
    seqs = [
        [("add", "g", v1), ("add", "g", v1), ("get", "g"), ("add", "g", v2), ("add", "h", v1), ("add", "g", v1)],
        [("add", "g", v3), ("new",), ("add", "g", v3), ("get", "g#a:from"), ("remove", "g"), ("add", "g", v3)],
        [("add", "h", v2), ("remove", "h"), ("remove", "h"), ("remove_strict", "h"), ("get", "h"), ("add", "h", list(v2))],
        [("add", "g", []), ("add", "g", []), ("get", "g"), ("add", "g", v1), ("new",), ("get", "$g.csvpaths.b:to")],
        [("add", "g", [p + "  " for p in v1]), ("add", "g", v1), ("add", "g", ["  " + p for p in v1]), ("get", "g"),
         ("new",), ("add", "h", v3)],
    ]
    cp = CsvPaths()
    for n, seq in enumerate(seqs):
        out("")
        out(f"--- sequence {n}")
        for op in seq:
            pm = cp.paths_manager
            if op[0] == "add":
                call(f"  add({op[1]}, {op[2]!r})", pm.add_named_paths, name=op[1], paths=op[2])
            elif op[0] == "get":
                call(f"  get({op[1]})", pm.get_named_paths, op[1])
            elif op[0] == "remove":
                call(f"  remove({op[1]})", pm.remove_named_paths, op[1])
            elif op[0] == "remove_strict":
                call(f"  remove({op[1]}, strict=True)", pm.remove_named_paths, op[1], strict=True)
            elif op[0] == "new":
                cp = CsvPaths()
                out("  new CsvPaths instance")
            for g in ("g", "h"):
                state(g)
        call("  names", lambda: sorted(cp.paths_manager.named_paths_names))
    listing(NP)
    cp.paths_manager.remove_all_named_paths()


def part_c():
    section("C. from file / dir / json, hand edits")
    os.makedirs("src/dir", exist_ok=True)
    files = {
        "src/dir/food.csvpaths": "~id:candy~ $[*][#type==\"candy\"]\n\n---- CSVPATH ----\n\n~ name: first ~\n$[*][ #a ]\n---- CSVPATH ----\n   \n",
        "src/dir/solo.csvpath": "$[*][yes()]",
        "src/dir/notes.md": "not a csvpath file",
        "src/dir/.hidden.csvpaths": "$[*][no()]",
        "src/dir/noext": "$[*][no()]",
        "src/dir/UPPER.TXT": "\n\n~ID:t~ $[1][yes()]\n\n---- CSVPATH ----\n",
        "src/empty.csvpaths": "",
    }
    for p, s in files.items():
        with open(p, "w", encoding="utf-8") as f:
            f.write(s)
    with open("src/groups.json", "w", encoding="utf-8") as f:
        json.dump({"j1": ["src/dir/food.csvpaths", "src/dir/solo.csvpath"], "j2": ["src/dir/UPPER.TXT"]}, f)
    with open("src/bad.json", "w", encoding="utf-8") as f:
        f.write("{ not json")
    cp = CsvPaths()
    pm = cp.paths_manager
    call("  from_file(food)", pm.add_named_paths_from_file, name="food", file_path="src/dir/food.csvpaths")
    state("food")
    call("  get(food)", pm.get_named_paths, "food")
    selections(cp, "food", ["candy", "first", "2"])
    call("  add(from_file=)", pm.add_named_paths, name="food2", from_file="src/dir/food.csvpaths")
    state("food2")
    call("  from_file(empty)", pm.add_named_paths_from_file, name="empty", file_path="src/empty.csvpaths")
    state("empty")
    call("  get(empty)", pm.get_named_paths, "empty")
    call("  from_file(missing)", pm.add_named_paths_from_file, name="missing", file_path="src/nope.csvpaths")
    call("  from_dir(no name)", pm.add_named_paths_from_dir, directory="src/dir")
    call("  names", lambda: sorted(pm.named_paths_names))
    for n in ("food", "solo", "UPPER"):
        state(n)
        call(f"  get({n})", pm.get_named_paths, n)
    call("  add(from_dir=, name=all)", pm.add_named_paths, name="all", from_dir="src/dir")
    state("all")
    call("  from_dir(not a dir)", pm.add_named_paths_from_dir, directory="src/groups.json")
    call("  from_dir(None)", pm.add_named_paths_from_dir, directory=None)
    call("  from_json", pm.add_named_paths_from_json, "src/groups.json")
    for n in ("j1", "j2"):
        state(n)
        call(f"  get({n})", pm.get_named_paths, n)
    call("  add(from_json=)", pm.add_named_paths, name="ignored", from_json="src/groups.json")
    manifest("j1")
    call("  from_json(bad)", pm.add_named_paths_from_json, "src/bad.json")
    call("  from_json(missing)", pm.add_named_paths_from_json, "src/nope.json")
    listing(NP)
    out("--- hand edit of a stored group file")
    call("  add(edit)", pm.add_named_paths, name="edit", paths=["~id:a~ $[*][yes()]", "~id:b~ $[*][no()]"])
    with open(os.path.join(NP, "edit", "group.csvpaths"), "a", encoding="utf-8") as f:
        f.write("\n\n---- CSVPATH ----\n\n~id:c~ $[2][yes()]")
    call("  get(edit) after hand edit", pm.get_named_paths, "edit")
    call("  get(edit#c) after hand edit", pm.get_named_paths, "edit#c")
    state("edit")
    out("--- group directory without a group file")
    os.makedirs(os.path.join(NP, "bare"))
    call("  get(bare)", pm.get_named_paths, "bare")
    call("  get(bare#x)", pm.get_named_paths, "bare#x")
    call("  number_of(bare)", pm.number_of_named_paths, "bare")
    state("bare")
    pm.remove_all_named_paths()


def lines_of(res):
    ls = res.lines
    if ls is None:
        return None
    if hasattr(ls, "next"):
        return list(ls.next())
    return list(ls)


def archive():
    """prints, then drops, the archive so that every run gets a run dir of its own
    however many runs fit into one second"""
    out("  archive:")
    listing("archive")
    for base, dirs, files in os.walk("archive"):
        dirs.sort()
        for fn in sorted(files):
            if fn in ("data.csv", "printouts.txt", "unmatched.csv"):
                with open(os.path.join(base, fn), "r", encoding="utf-8") as f:
                    out(f"  {os.path.join(base, fn)}: {f.read()!r}")
    shutil.rmtree("archive", ignore_errors=True)


def part_d():
    section("D. runs that select by identity")
    with open("f.csv", "w", encoding="utf-8") as f:
        f.write("a,b,c\n1,x,\n\n3,,z\n4,x\n0,y,0,extra\n")
    cp = CsvPaths()
    cp.file_manager.add_named_file(name="f", path="f.csv")
    paths = [
        "$[*][yes()]",
        '~id:two~ $[*][#a=="3"]',
        '~ name: three ~ $[1*][ ~ inner ~ #b=="x" -> print("line $.csvpath.line_number: $.headers.a")]',
        "~id:four~ $[*][ @n = count_lines() no() ]",
    ]
    cp.paths_manager.add_named_paths(name="p", paths=paths)
    for pathsname in ("p", "p#two", "$p.csvpaths.three", "p#two:from", "$p.csvpaths.three:to", "p#nope"):
        for method in ("collect_paths", "fast_forward_paths", "collect_by_line"):
            out("")
            out(f"--- {method}(pathsname={pathsname!r})")
            cp = CsvPaths()
            r = call(f"  {method}", getattr(cp, method), filename="f", pathsname=pathsname)
            if r is not None:
                out(f"  returned {r!r}")
            try:
                results = cp.results_manager.get_named_results(pathsname)
            except Exception as ex:  # pylint: disable=W0718
                out(f"  get_named_results !! {type(ex).__name__}: {ex}")
                results = None
            for res in results or []:
                out(f"  result identity={res.csvpath.identity!r} valid={res.is_valid} "
                    f"lines={lines_of(res)!r} "
                    f"vars={dict(res.csvpath.variables)!r} errors={len(res.errors or [])} "
                    f"printouts={res.get_printouts()!r}")
            archive()
    state("p")


def part_log():
    section("E. debug log (csvpaths logger lines only, timestamps normalised)")
    p = os.path.join("logs", "csvpath.log")
    if not os.path.exists(p):
        out("  no log")
        return
    with open(p, "r", encoding="utf-8") as f:
        for line in f:
            if " - csvpaths - " in line or not TS.match(line):
                out("  " + line.rstrip("\n"))


try:
    part_a()
    part_b()
    part_c()
    part_d()
    part_log()
finally:
    os.chdir("/")
    shutil.rmtree(WORK, ignore_errors=True)
