#!/usr/bin/env python
"""Differential demonstration for property C10 (every run gets its own run
directory and never touches an earlier run's results).

Run with cwd = an empty scratch directory and PYTHONPATH = the csvpath tree
under test.  Prints a deterministic transcript of everything observable.

    mkdir /tmp/demo_x && cd /tmp/demo_x && PYTHONPATH=<tree> python demo.py > out.txt
"""
import os
import io
import contextlib
import sys
import re
import json
import random
import shutil
import hashlib
import traceback
from datetime import datetime, timezone, timedelta

CONFIG = """[csvpath_files]
extensions = txt, csvpath, csvpaths

[csv_files]
extensions = txt, csv, tsv, dat, tab, psv, ssv

[errors]
csvpath = raise, collect, stop, fail, print
csvpaths = raise, collect

[logging]
csvpath = info
csvpaths = info
log_file = logs/csvpath.log
log_files_to_keep = 100
log_file_size = 52428800

[config]
path = config/config.ini

[cache]
path = cache

[listeners]
[marquez]
base_url = http://localhost:5000

[functions]
imports = config/functions.imports

[results]
archive = archive
transfers = transfers

[inputs]
files = inputs/named_files
csvpaths = inputs/named_paths
on_unmatched_file_fingerprints = halt
"""

FILE_F = """a,b,c
1,2,3

4,5
7,,9
0,0,0
"x,y",3,"q""r"
8,9,10,11
"""

FILE_G = """id,amount
1,0
2,
3,15

,7
"""

GROUP_P = [
    "$[*][yes()]",
    '~id:two~ $[*][ or(#a=="3", #c=="3") ]',
    '~id:three~ $[1*][ @n = count() print("line $.csvpath.line_number n=$.variables.n") ]',
]

GROUP_Q = [
    "~id:ints unmatched-mode:keep~ $[1*][ @z.onmatch = #1 not(empty(#0)) ]",
    "~id:empties~ $[*][ empty(#1) ]",
]

GROUP_SRC = [
    "~id:source1~ $[*][ yes() ]",
    "~id:source2 source-mode:preceding~ $[*][ gt(line_number(), 1) ]",
    "~id:source3 source-mode:preceding~ $[*][ @seen = count() yes() ]",
]

GROUP_BAD = [
    "~id:ok~ $[*][yes()]",
    "~id:boom~ $[*][ nosuchfunction(#0) ]",
]


def out(*args):
    print(*args)
    sys.stdout.flush()


# ---------------------------------------------------------------------------
# environment
# ---------------------------------------------------------------------------
def setup_env():
    os.makedirs("config", exist_ok=True)
    with open("config/config.ini", "w") as f:
        f.write(CONFIG)
    with open("config/functions.imports", "w") as f:
        f.write("")
    with open("f.csv", "w") as f:
        f.write(FILE_F)
    with open("g.csv", "w") as f:
        f.write(FILE_G)


setup_env()

import csvpath.csvpaths as csvpaths_module  # noqa: E402
from csvpath import CsvPaths  # noqa: E402
from csvpath.managers.results.result_serializer import ResultSerializer  # noqa: E402


class Clock:
    now = datetime(2025, 3, 8, 9, 15, 20, tzinfo=timezone.utc)


class FakeDatetime(datetime):
    @classmethod
    def now(cls, tz=None):
        return Clock.now


# CsvPaths.current_run_time calls datetime.now(timezone.utc) through the name
# `datetime` of the csvpaths module. we control the clock there.
csvpaths_module.datetime = FakeDatetime


def next_at(t, h, m, s):
    """the next wall-clock h:m:s strictly after t"""
    c = t.replace(hour=h, minute=m, second=s, microsecond=0)
    if c <= t:
        c = c + timedelta(days=1)
    return c


STEPS = {
    "same": lambda t: t,
    "+1s": lambda t: t + timedelta(seconds=1),
    "pre13": lambda t: next_at(t, 12, 59, 59),
    "13h": lambda t: next_at(t, 13, 0, 0),
    "premid": lambda t: next_at(t, 23, 59, 59),
    "midnight": lambda t: next_at(t, 0, 0, 0),
}

METHODS = [
    "collect_paths",
    "fast_forward_paths",
    "next_paths",
    "collect_by_line",
    "fast_forward_by_line",
    "next_by_line",
]


# ---------------------------------------------------------------------------
# normalisation + archive inspection
# ---------------------------------------------------------------------------
UUID = re.compile(r"[0-9a-f]{8}-[0-9a-f]{4}-[0-9a-f]{4}-[0-9a-f]{4}-[0-9a-f]{12}")
TS_FRAC = re.compile(r"\d{4}-\d\d-\d\d[T ]\d\d:\d\d:\d\d\.\d+(\+00:00)?")
TS_KEY = re.compile(
    r'"(time|time_completed|run_started_at|named_file_last_change|at)": "[^"]*"'
)
ADDR = re.compile(r" at 0x[0-9a-fA-F]+")
# tracebacks (also JSON-escaped ones) carry source line numbers
TRACE_LINE = re.compile(r'File (\\?")([^"\\]+)(\\?"), line \d+')
NUM_KEY = re.compile(r'"(lines_time|last_line_time)": [-+0-9.e]+')
VOLATILE_FP = re.compile(r'"(meta\.json|manifest\.json|errors\.json)": "[0-9a-f]{64}"')


def normalise(text: str) -> str:
    text = UUID.sub("<UUID>", text)
    text = ADDR.sub(" at 0x<ADDR>", text)
    text = TRACE_LINE.sub(
        lambda m: f"File {m.group(1)}{os.path.basename(m.group(2))}{m.group(3)}, line <N>",
        text,
    )
    text = TS_KEY.sub(lambda m: f'"{m.group(1)}": "<TS>"', text)
    text = TS_FRAC.sub("<TS>", text)
    text = NUM_KEY.sub(lambda m: f'"{m.group(1)}": <N>', text)
    text = VOLATILE_FP.sub(lambda m: f'"{m.group(1)}": "<HASH>"', text)
    return text


def all_files(root):
    ret = []
    for base, dirs, files in os.walk(root):
        dirs.sort()
        for f in sorted(files):
            ret.append(os.path.join(base, f))
    return sorted(ret)


def raw_snapshot(root):
    """path -> sha256 of the raw bytes, for every file under root"""
    snap = {}
    for p in all_files(root):
        with open(p, "rb") as f:
            snap[p] = hashlib.sha256(f.read()).hexdigest()
    return snap


def run_dirs():
    """every archive/<name>/<run dir>"""
    ret = []
    if not os.path.exists("archive"):
        return ret
    for name in sorted(os.listdir("archive")):
        d = os.path.join("archive", name)
        if os.path.isdir(d):
            for r in sorted(os.listdir(d)):
                ret.append(os.path.join(d, r))
    return ret


def dump_archive(full: bool):
    out("  -- archive dump (normalised) --")
    for p in all_files("archive"):
        with open(p, "r", encoding="utf-8") as f:
            text = normalise(f.read())
        h = hashlib.sha256(text.encode("utf-8")).hexdigest()[0:16]
        out(f"  FILE {p} [{len(text)} chars, sha {h}]")
        if full:
            for line in text.split("\n"):
                out(f"      | {line}")


def describe(ex) -> str:
    return normalise(f"{type(ex).__name__}: {ex}")


# ---------------------------------------------------------------------------
# references
# ---------------------------------------------------------------------------
def show_reference(cp, ref):
    try:
        path = cp.results_manager.data_file_for_reference(ref)
        with open(path, "r", encoding="utf-8") as f:
            data = f.read()
        h = hashlib.sha256(data.encode("utf-8")).hexdigest()[0:12]
        out(f"    ref {ref} -> {path} [{len(data)} chars, sha {h}]")
    except Exception as ex:  # pylint: disable=W0718
        out(f"    ref {ref} -> ERROR {describe(ex)}")


def show_references(cp, names_and_ids):
    prefixes = ["", "2025-", "2025-03-08_", "2025-03-08_12-", "2025-03-09_00-00-00"]
    for name, ids in names_and_ids:
        for ident in ids:
            for pre in prefixes:
                for var in [":last", ":first"]:
                    show_reference(cp, f"${name}.results.{pre}{var}.{ident}")


# ---------------------------------------------------------------------------
# runs
# ---------------------------------------------------------------------------
def new_csvpaths():
    cp = CsvPaths()
    cp.file_manager.add_named_file(name="f", path="f.csv")
    cp.file_manager.add_named_file(name="g", path="g.csv")
    cp.paths_manager.add_named_paths(name="p", paths=GROUP_P)
    cp.paths_manager.add_named_paths(name="q", paths=GROUP_Q)
    cp.paths_manager.add_named_paths(name="src", paths=GROUP_SRC)
    cp.paths_manager.add_named_paths(name="bad", paths=GROUP_BAD)
    return cp


def do_run(cp, method, pathsname, filename):
    """returns a printable description of what the caller of the run method sees.
    whatever the library prints to stdout during the run is captured and
    re-emitted normalised (error printouts can include object addresses)."""
    buf = io.StringIO()
    try:
        with contextlib.redirect_stdout(buf):
            return _do_run(cp, method, pathsname, filename)
    finally:
        for line in normalise(buf.getvalue()).split("\n"):
            out(f"    stdout| {line}")


def _do_run(cp, method, pathsname, filename):
    m = getattr(cp, method)
    if method in ("collect_paths", "fast_forward_paths", "fast_forward_by_line"):
        ret = m(pathsname=pathsname, filename=filename)
        return f"returned {ret!r}"
    if method == "collect_by_line":
        ret = m(pathsname=pathsname, filename=filename)
        return f"returned {ret!r}"
    if method == "next_paths":
        lines = []
        for line in m(pathsname=pathsname, filename=filename, collect=True):
            lines.append(list(line))
        return f"yielded {lines!r}"
    if method == "next_by_line":
        lines = []
        for line in m(
            pathsname=pathsname, filename=filename, collect=True, if_all_agree=True
        ):
            lines.append(list(line))
        return f"yielded {lines!r}"
    raise ValueError(method)


def show_results(cp, pathsname):
    try:
        results = cp.results_manager.get_named_results(pathsname)
    except Exception as ex:  # pylint: disable=W0718
        out(f"    named results {pathsname}: ERROR {type(ex).__name__}")
        return
    for r in results:
        lines = r.lines
        try:
            n = len(lines) if lines is not None else None
        except Exception:  # pylint: disable=W0718
            n = "?"
        out(
            f"    result {r.identity_or_index}: run_dir={r.run_dir} instance_dir={r.instance_dir} "
            f"run_time={r.run_time} valid={r.is_valid} errors={r.errors_count} "
            f"lines={n} unmatched={None if r.unmatched is None else len(r.unmatched)} "
            f"vars={json.dumps(r.variables, sort_keys=True, default=str)} "
            f"printouts={r.get_printouts()}"
        )
    for label, fn in [
        ("is_valid", lambda: cp.results_manager.is_valid(pathsname)),
        ("has_errors", lambda: cp.results_manager.has_errors(pathsname)),
        ("number_of_errors", lambda: cp.results_manager.get_number_of_errors(pathsname)),
        ("number_of_results", lambda: cp.results_manager.get_number_of_results(pathsname)),
        ("has_lines", lambda: cp.results_manager.has_lines(pathsname)),
        (
            "variables",
            lambda: json.dumps(
                cp.results_manager.get_variables(pathsname), sort_keys=True, default=str
            ),
        ),
    ]:
        try:
            out(f"    manager.{label} -> {fn()}")
        except Exception as ex:  # pylint: disable=W0718
            out(f"    manager.{label} -> ERROR {describe(ex)}")


class Sequence:
    def __init__(self, title):
        self.title = title
        self.shared = None
        self.history = {}  # run dir -> raw snapshot
        self.count = 0

    def start(self):
        out("")
        out("=" * 78)
        out(f"SEQUENCE {self.title}")
        out("=" * 78)
        if os.path.exists("archive"):
            shutil.rmtree("archive")
        Clock.now = datetime(2025, 3, 8, 9, 15, 20, tzinfo=timezone.utc)
        self.shared = new_csvpaths()

    def run(self, step, instance, method, pathsname, filename):
        self.count += 1
        Clock.now = STEPS[step](Clock.now)
        out("")
        out(
            f"--- run {self.count}: clock={Clock.now} step={step} instance={instance} "
            f"{method}(pathsname={pathsname!r}, filename={filename!r})"
        )
        cp = self.shared if instance == "reused" else new_csvpaths()
        before_dirs = run_dirs()
        try:
            desc = do_run(cp, method, pathsname, filename)
            out(f"    {desc}")
        except Exception as ex:  # pylint: disable=W0718
            out(f"    RAISED {describe(ex)}")
        after_dirs = run_dirs()
        new_dirs = [d for d in after_dirs if d not in before_dirs]
        gone_dirs = [d for d in before_dirs if d not in after_dirs]
        out(f"    new run dirs: {new_dirs}  removed run dirs: {gone_dirs}")
        # every earlier run dir must be byte-identical
        for d, snap in self.history.items():
            now = raw_snapshot(d)
            out(f"    earlier {d} unchanged: {now == snap} ({len(snap)} files)")
        for d in new_dirs:
            self.history[d] = raw_snapshot(d)
            out(f"    files in {d}:")
            for p in all_files(d):
                out(f"        {p}")
        out(f"    all run dirs now: {after_dirs}")
        out(f"    chronological == lexical order per name: {self._ordered(after_dirs)}")
        show_results(cp, pathsname)
        # after a run completes the next run on the same instance gets fresh state.
        # we look only through the public API.
        show_references(
            cp, [("p", ["0", "three"]), ("q", ["ints"]), ("src", ["source1"])]
        )

    def _ordered(self, dirs):
        # informational only: do names sort like their creation order?
        return sorted(dirs) == dirs

    def end(self, full=False):
        dump_archive(full)


def fixed_sequences():
    s = Sequence("A: same group, reused instance, every method, same second")
    s.start()
    for m in METHODS:
        s.run("same", "reused", m, "p", "f")
    s.end(full=True)

    s = Sequence("B: two groups, new instances, crossing 12:59->13:00 and midnight")
    s.start()
    s.run("pre13", "new", "collect_paths", "p", "f")
    s.run("13h", "new", "collect_paths", "q", "g")
    s.run("same", "new", "collect_paths", "p", "f")
    s.run("premid", "new", "next_paths", "p", "f")
    s.run("midnight", "new", "collect_by_line", "p", "f")
    s.run("same", "reused", "collect_paths", "q", "g")
    s.run("+1s", "reused", "collect_paths", "q", "g")
    s.end(full=True)

    s = Sequence("C: errors abort a run; the next run still gets its own dir")
    s.start()
    s.run("same", "reused", "collect_paths", "bad", "f")
    s.run("same", "reused", "collect_paths", "bad", "f")
    s.run("same", "reused", "collect_paths", "p", "f")
    s.run("+1s", "reused", "fast_forward_paths", "bad", "f")
    s.run("same", "reused", "next_paths", "bad", "f")
    s.run("same", "reused", "collect_by_line", "bad", "f")
    s.run("same", "reused", "collect_paths", "nosuch", "f")
    s.run("same", "reused", "collect_paths", "p", "nosuch")
    s.run("same", "reused", "fast_forward_paths", "p", "f")
    s.end(full=False)

    s = Sequence("D: source-mode preceding and replay through :last / :first references")
    s.start()
    s.run("same", "reused", "collect_paths", "src", "f")
    s.run("+1s", "reused", "collect_paths", "src", "g")
    s.run(
        "same",
        "reused",
        "collect_paths",
        "$src.csvpaths.source2:from",
        "$src.results.2025-03:last.source1",
    )
    s.run(
        "pre13",
        "new",
        "collect_paths",
        "$src.csvpaths.source2:from",
        "$src.results.2025-03:first.source1",
    )
    s.run(
        "13h",
        "new",
        "fast_forward_paths",
        "$src.csvpaths.source3",
        "$src.results.2025-03-08_09:last.source1",
    )
    s.run("same", "new", "collect_paths", "src#source1", "f")
    # a replay whose reference cannot match the replay's own (in-progress) run dir
    s.run(
        "+1s",
        "reused",
        "collect_paths",
        "$src.csvpaths.source2:from",
        "$src.results.2025-03-08_09-15-20:last.source1",
    )
    s.run(
        "same",
        "new",
        "collect_paths",
        "$src.csvpaths.source2:from",
        "$src.results.2025-03-08_09-15-2:first.source1",
    )
    s.run(
        "same",
        "new",
        "next_paths",
        "$src.csvpaths.source2:to",
        "$src.results.2025-03-08_09-15-21.source1",
    )
    s.run("same", "new", "collect_paths", "p", "$src.results.:middle.source1")
    s.run("same", "new", "collect_paths", "p", "$src.results.1999:last.source1")
    s.run("same", "new", "collect_paths", "p", "$src.variables.x")
    s.run("same", "new", "collect_paths", "p", "$nosuch.results.:last.source1")
    s.end(full=True)


def tamper_sequence():
    s = Sequence("E: the named file changes after registration; the run halts while starting")
    s.start()
    s.run("same", "reused", "collect_paths", "p", "f")
    path = s.shared.file_manager.get_named_file("f")
    with open(path, "r", encoding="utf-8") as f:
        original = f.read()
    with open(path, "w", encoding="utf-8") as f:
        f.write(original + "9,9,9\n")
    out("")
    out(f"  tampered with {path}")
    for m in ["collect_paths", "fast_forward_paths", "next_paths", "collect_by_line"]:
        s.run("same", "reused", m, "p", "f")
    s.run("+1s", "new", "collect_paths", "p", "f")
    with open(path, "w", encoding="utf-8") as f:
        f.write(original)
    out("")
    out(f"  restored {path}")
    s.run("same", "reused", "collect_paths", "p", "f")
    s.run("same", "new", "next_by_line", "p", "f")
    s.end(full=False)


def random_sequences():
    rnd = random.Random(20250308)
    for k in range(6):
        n = 5 if k < 4 else 9
        s = Sequence(f"R{k}: random sequence of {n} runs")
        s.start()
        for _ in range(n):
            name, file = rnd.choice([("p", "f"), ("q", "g")])
            s.run(
                rnd.choice(["same", "same", "+1s", "+1s", "pre13", "13h", "premid", "midnight"]),
                rnd.choice(["new", "reused"]),
                rnd.choice(METHODS),
                name,
                file,
            )
        s.end(full=False)


# ---------------------------------------------------------------------------
# direct calls into the helpers
# ---------------------------------------------------------------------------
def direct_find():
    out("")
    out("=" * 78)
    out("DIRECT: ResultsManager._find_in_dir_names / _find_instance / data_file_for_reference")
    out("=" * 78)
    rm = CsvPaths().results_manager
    names = [
        "2024-03-03_01-01-03",
        "2024-03-04_01-05-01",
        "2024-03-04_03-51-07.0",
        "2024-03-04_03-51-07",
        "2024-03-04_03-51-07.10",
        "2024-03-04_03-51-07.2",
        "2024-03-04_03-51-07.1",
        "2024-03-04_12-59-59",
        "2024-03-04_13-00-00",
        "2024-03-04_01-00-00",
        "2024-03-04_23-59-59.0",
        "2024-03-04_23-59-59",
        "2024-03-05_00-00-00",
        "2024-3-05_00-00-00",
        "2024-03-05_00-00-00.00",
        "2024-03-05_00-00-00.0",
    ]
    lasts = [True, False, 1, 0, None, "yes", ""]
    for instance in [
        "",
        "2024-",
        "2024-03-03_01-",
        "2024-03-04_",
        "2024-03-04_03-51-07",
        "2024-03-04_03-51-07.",
        "2024-03-04_03-51-07.1",
        "2024-03-04_1",
        "2024-03-04_23",
        "2024-03-05",
        "2024-3",
        "2023",
        "zzz",
    ]:
        for last in lasts:
            try:
                r = rm._find_in_dir_names(instance, names, last)
            except Exception as ex:  # pylint: disable=W0718
                r = f"ERROR {describe(ex)}"
            out(f"  _find_in_dir_names({instance!r}, names, {last!r}) -> {r!r}")
    for nm in [[], ["junk"], ["2024-03-04_01-00-00.x"], ["2024-03-04_01-00-00", ".DS_Store"]]:
        for instance in ["", "2024", "j", "."]:
            for last in [True, False]:
                try:
                    r = rm._find_in_dir_names(instance, list(nm), last)
                except Exception as ex:  # pylint: disable=W0718
                    r = f"ERROR {describe(ex)}"
                out(f"  _find_in_dir_names({instance!r}, {nm!r}, {last!r}) -> {r!r}")
    # default for last
    out(f"  default last: {rm._find_in_dir_names('2024-03-04_', names)!r}")
    # the list passed in is not modified
    copy = list(names)
    rm._find_in_dir_names("2024-", names, True)
    out(f"  names untouched: {copy == names}")

    # _find_instance against a real directory
    base = os.path.join("scratch", "grp")
    if os.path.exists("scratch"):
        shutil.rmtree("scratch")
    for n in names[0:13]:
        os.makedirs(os.path.join(base, n))
    for instance in [
        "2024-03-04_01-05-01",
        "not-there",
        "",
        ":last",
        ":first",
        "2024-03-04_:last",
        "2024-03-04_:first",
        "2024-03-04_03-51-07:last",
        "2024-03-04_03-51-07:first",
        "2024-03-04_12:last",
        "2024-03-04_13:first",
        "2024-03-04_23-:last",
        "2025:last",
        "2025:first",
        "2024:0",
        "2024:LAST",
        "2024:last:first",
        "2024:",
        "2024:first ",
    ]:
        for filename in [base, os.path.join("scratch", "missing")]:
            try:
                r = rm._find_instance(filename, instance)
            except Exception as ex:  # pylint: disable=W0718
                r = f"ERROR {describe(ex)}"
            out(f"  _find_instance({filename!r}, {instance!r}) -> {r!r}")
    shutil.rmtree("scratch")


def direct_serializer():
    out("")
    out("=" * 78)
    out("DIRECT: ResultSerializer.get_run_dir and friends")
    out("=" * 78)
    if os.path.exists("scratch"):
        shutil.rmtree("scratch")
    rs = ResultSerializer(os.path.join("scratch", "arch"))
    t1 = datetime(2025, 3, 8, 12, 59, 59, tzinfo=timezone.utc)
    t2 = datetime(2025, 3, 8, 13, 0, 0, 999999, tzinfo=timezone.utc)
    t3 = datetime(2025, 3, 9, 0, 0, 0)
    cases = [
        ("p", t1),
        ("p", t2),
        ("p", t3),
        ("p", "2025-03-08_12-59-59"),
        ("p", "anything at all"),
        ("p", ""),
        ("p", None),
        ("p", 0),
        ("p", 12.5),
        ("$p.csvpaths.two:from", t1),
        ("$p#two.results.2025:last.two", t1),
        ("p#two", t1),
        ("p.q#r", t1),
        ("p#q.r", t1),
        ("$$p", t1),
        ("$.csvpaths.x", t1),
        ("", t1),
        ("a/b", t1),
    ]
    for paths_name, run_time in cases:
        for attempt in range(4):
            try:
                d = rs.get_run_dir(paths_name=paths_name, run_time=run_time)
                out(f"  get_run_dir({paths_name!r}, {run_time!r}) #{attempt} -> {d!r}")
                # get_run_dir only picks the name. the run creates it.
                if attempt == 2:
                    # a plain file squatting on the name counts as used too
                    with open(d, "w") as f:
                        f.write("x")
                else:
                    os.makedirs(d)
            except Exception as ex:  # pylint: disable=W0718
                out(
                    f"  get_run_dir({paths_name!r}, {run_time!r}) #{attempt} -> ERROR {describe(ex)}"
                )
    # a gap in the numbering is filled first
    d = rs.get_run_dir(paths_name="gap", run_time="T")
    os.makedirs(d)
    os.makedirs(d + ".0")
    os.makedirs(d + ".2")
    out(f"  gap -> {rs.get_run_dir(paths_name='gap', run_time='T')!r}")
    os.makedirs(d + ".1")
    out(f"  gap -> {rs.get_run_dir(paths_name='gap', run_time='T')!r}")
    for bad in [None, 7]:
        try:
            out(f"  get_run_dir({bad!r}) -> {rs.get_run_dir(paths_name=bad, run_time='T')!r}")
        except Exception as ex:  # pylint: disable=W0718
            out(f"  get_run_dir({bad!r}) -> ERROR {describe(ex)}")
    for dt in [None, t1, t2, t3]:
        out(f"  get_run_dir_name_from_datetime({dt!r}) -> {rs.get_run_dir_name_from_datetime(dt)!r}")
    for n in ["p", "$p", "$p.results.x", "p#a", "$p#a.b", "p.a#b", "", "$", "#", ".", "$$x.y"]:
        out(f"  _deref_paths_name({n!r}) -> {rs._deref_paths_name(n)!r}")
    out(f"  get_instance_dir -> {rs.get_instance_dir(run_dir=os.path.join('scratch', 'arch', 'p', 'X'), identity='idy')!r}")
    out("  scratch tree:")
    for base, dirs, files in os.walk("scratch"):
        dirs.sort()
        out(f"      {base}/ files={sorted(files)}")
    shutil.rmtree("scratch")


def direct_csvpaths():
    out("")
    out("=" * 78)
    out("DIRECT: CsvPaths run coordination through its public API")
    out("=" * 78)
    if os.path.exists("archive"):
        shutil.rmtree("archive")
    Clock.now = datetime(2025, 3, 8, 9, 15, 20, tzinfo=timezone.utc)
    cp = new_csvpaths()
    try:
        out(f"  run_time_str() -> {cp.run_time_str()!r}")
    except Exception as ex:  # pylint: disable=W0718
        out(f"  run_time_str() -> ERROR {describe(ex)}")
    out(f"  current_run_time -> {cp.current_run_time}")
    Clock.now = Clock.now + timedelta(seconds=5)
    out(f"  current_run_time (clock moved, cached) -> {cp.current_run_time}")
    out(f"  run_time_str('p') -> {cp.run_time_str('p')!r}")
    out(f"  run_time_str('q') (cached) -> {cp.run_time_str('q')!r}")
    out(f"  run_time_str() (cached) -> {cp.run_time_str()!r}")
    out(f"  run dirs (picking a name creates nothing but the parent): {run_dirs()} {sorted(os.listdir('archive'))}")
    cp.clear_run_coordination()
    out(f"  after clear: current_run_time -> {cp.current_run_time}")
    out(f"  after clear: run_time_str('q') -> {cp.run_time_str('q')!r}")
    cp.stop_all()
    cp.fail_all()
    cp.skip_all()
    cp.advance_all(3)
    out(f"  next_paths with all signals set -> {do_run(cp, 'next_paths', 'p', 'f')}")
    show_results(cp, "p")
    cp.stop_all()
    out(f"  next_paths after stop_all (cleared by the run itself) -> {do_run(cp, 'next_paths', 'p', 'f')}")
    out(f"  run dirs: {run_dirs()}")
    cp.fail_all()
    cp.advance_all(2)
    out(f"  collect_by_line after fail_all+advance_all (cleared by the run itself) -> {do_run(cp, 'collect_by_line', 'p', 'f')}")
    show_results(cp, "p")
    out(f"  run dirs: {run_dirs()}")
    # an abandoned generator leaves the run open; the next run is still separate
    gen = cp.next_paths(pathsname="p", filename="f")
    out(f"  first line of abandoned next_paths: {next(gen)}")
    out(f"  run_time_str() during the open run -> {cp.run_time_str()!r}")
    gen.close()
    out(f"  run_time_str() after closing the generator -> {cp.run_time_str()!r}")
    out(f"  collect_paths -> {do_run(cp, 'collect_paths', 'p', 'f')}")
    out(f"  run dirs: {run_dirs()}")
    try:
        out(f"  run_time_str() after a completed run -> {cp.run_time_str()!r}")
    except Exception as ex:  # pylint: disable=W0718
        out(f"  run_time_str() after a completed run -> ERROR {describe(ex)}")
    out(f"  errors on csvpaths: {len(cp.errors)} has_errors={cp.has_errors()}")
    dump_archive(False)


if __name__ == "__main__":
    try:
        direct_find()
        direct_serializer()
        direct_csvpaths()
        fixed_sequences()
        tamper_sequence()
        random_sequences()
        out("")
        out("DONE")
    except Exception:  # pylint: disable=W0718
        out("DEMO FAILED")
        out(traceback.format_exc())
        sys.exit(1)
