#!/usr/bin/env python
"""Differential demonstration for property C02 (the scan part selects exactly
the lines it denotes).

Run in an EMPTY temp directory (it writes ./config, ./logs, ./cache, ./archive,
./inputs and its own csv files there):

    mkdir /tmp/demo && cd /tmp/demo && PYTHONPATH=<tree> /venv/bin/python demo.py > out.txt

The transcript is deterministic: no timings, run-directory timestamps are
normalised, uuids/times in archive files are not printed.
"""
import io
import os
import re
import sys
import shutil
import contextlib

CONFIG = """[csvpath_files]
extensions = txt, csvpath, csvpaths
[csv_files]
extensions = txt, csv, tsv, dat, tab, psv, ssv
[errors]
csvpath = collect, fail, print
csvpaths = collect
[logging]
csvpath = info
csvpaths = info
log_file = logs/csvpath.log
log_files_to_keep = 100
log_file_size = 52428800
[config]
path =
[functions]
imports =
[cache]
path =
[results]
archive = archive
transfers = transfers
[inputs]
files = inputs/named_files
csvpaths = inputs/named_paths
on_unmatched_file_fingerprints = halt
"""

for d in ("config", "logs", "cache", "archive", "inputs", "transfers", "data"):
    if os.path.exists(d):
        shutil.rmtree(d)
os.makedirs("config")
os.makedirs("data")
with open("config/config.ini", "w", encoding="utf-8") as f:
    f.write(CONFIG)

from csvpath import CsvPath, CsvPaths  # noqa: E402
from csvpath.scanning.scanner import Scanner  # noqa: E402
from csvpath.util.line_monitor import LineMonitor  # noqa: E402

TS = re.compile(r"\d{4}-\d{2}-\d{2}_\d{2}-\d{2}-\d{2}([._]\d+)?")
RUNMAP = {}


def norm(text):
    """run directories are named for the second they were made in, with a
    .N suffix when the second is taken: label them by order of creation"""
    for name in sorted(RUNMAP, key=len, reverse=True):
        text = text.replace(name, RUNMAP[name])
    return TS.sub("<TS>", text)


def out(*a):
    print(*a)
    sys.stdout.flush()


def section(name):
    out("")
    out("=" * 8, name, "=" * 8)


# ----------------------------------------------------------------------
# files: N<=10 records, blanks in any position, ragged rows, empty values
# ----------------------------------------------------------------------
FILES = {
    "empty": "",
    "one": "a,b,c\n",
    "one_nonl": "a,b,c",
    "only_blank": "\n",
    "two_blanks": "\n\n",
    "plain5": "a,b,c\n1,2,3\n4,5,6\n7,8,9\n10,11,12\n",
    "blank_first": "\na,b,c\n1,2,3\n4,5,6\n",
    "blank_mid": "a,b,c\n1,2,3\n\n4,5,6\n\n\n7,8,9\n",
    "blank_last": "a,b,c\n1,2,3\n4,5,6\n\n",
    "blank_last2": "a,b,c\n1,2,3\n\n\n",
    "ragged": "a,b,c\n1\n1,2\n1,2,3,4,5\n,,\n,\n0,0,0\n",
    "empties": 'a,b,c\n,,\n"","",""\n0,,0\n , ,\n',
    "ten": "".join(f"r{i},{i},{i * i}\n" for i in range(10)),
    "ten_blanks": "h1,h2\n\n1,a\n\n\n2,b\n3,c\n\n4,d\n\n",
    "spaces_line": "a,b\n   \n1,2\n\t\n3,4\n",
    "quoted": 'a,b\n"x\ny",2\n"",""\n3,"4,5"\n',
}
for name, content in FILES.items():
    with open(f"data/{name}.csv", "w", encoding="utf-8", newline="") as f:
        f.write(content)
with open("data/pipe.csv", "w", encoding="utf-8", newline="") as f:
    f.write("a|b|c\n1|2|3\n\n'x|y'|5|6\n7|8|9\n")

SCANS = [
    "*",
    "0*",
    "1*",
    "2*",
    "5*",
    "9*",
    "12*",
    "0",
    "1",
    "3",
    "6",
    "11",
    "0-0",
    "0-2",
    "2-0",
    "1-3",
    "3-1",
    "2-6",
    "6-2",
    "3-12",
    "12-3",
    "11-12",
    "0+1",
    "0+2+4",
    "1+3+5+7+9",
    "2+11",
    "0-1+3-4",
    "1-2+4",
    "1+3-5",
    "0+2-3+5+7-9",
    "1-2+4-5+7-8+10-12",
    "3+3",
    "1-3+2-4",
    "4+2+0",
    "5-3+1",
    "1+2*",
    "1-3*",
    "*+3",
    "3+*",
    "1-*",
    "0-1-2",
    "1-2-3+5",
    "0+1-2-3",
]

BAD_SCANS = ["", "-", "+", "1-", "-1", "1+", "+1", "a", "1,2", "1 2", "**", "1**", "1-2+"]
# a third bound after a complete range, with and without a star on it
BAD_SCANS += ["0-1-*", "0-1-2*", "2-4-6+8", "1+2-3-*", "0-0-0", "3-1-2", "1-*+2"]


def run_guarded(label, fn):
    """runs fn capturing stdout so that prints of the library are part of the
    transcript at a deterministic position"""
    buf = io.StringIO()
    err = None
    ret = None
    with contextlib.redirect_stdout(buf):
        try:
            ret = fn()
        except Exception as ex:  # pylint: disable=W0718
            err = f"{type(ex).__name__}: {ex}"
    text = buf.getvalue()
    out(f"--- {label}")
    if text:
        for ln in text.splitlines():
            out("   | " + norm(ln))
    if err is not None:
        out("   ! " + norm(err).replace("\n", "\\n"))
    return ret


def lm_state(p):
    lm = p._line_monitor  # pylint: disable=W0212
    return lm.dump() if lm is not None else None


def describe(p):
    sc = p.scanner
    scs = None
    if sc is not None:
        scs = (sc.from_line, sc.to_line, sc.all_lines, list(sc.these), sc.filename)
    errs = [
        (e.line_count, e.match_count, e.scan_count, type(e.error).__name__, f"{e.message}")
        for e in (p.errors or [])
    ]
    return {
        "scanner": scs,
        "scan_count": p.scan_count,
        "match_count": p.match_count,
        "is_valid": p.is_valid,
        "stopped": p.stopped,
        "completed": p.completed,
        "advance": p.advance_count,
        "vars": repr(p.variables),
        "errors": errs,
        "unmatched": p.unmatched,
        "lm": lm_state(p),
    }


def show(p, lines=None):
    if lines is not None:
        out("   lines:", lines)
    for k, v in describe(p).items():
        out(f"   {k}: {v}")


# ----------------------------------------------------------------------
section("1. Scanner.parse state for every scan expression")
# ----------------------------------------------------------------------
class FakeLM:
    physical_end_line_number = 7


class FakeCsvPath:
    """what Scanner needs of a csvpath: a logger and a line monitor"""

    class _L:
        def info(self, *a, **k):
            pass

        debug = warning = error = info

    logger = _L()
    line_monitor = FakeLM()


def scanner_state(expr, scanner=None):
    s = scanner if scanner is not None else Scanner(csvpath=FakeCsvPath())
    s.parse(f"$data/x.csv[{expr}]")
    print(
        "state:",
        s.filename,
        s.from_line,
        s.to_line,
        s.all_lines,
        s.these,
        s.path,
    )
    inc = [i for i in range(0, 16) if s.includes(i)]
    last = [i for i in range(0, 16) if s.is_last(i)]
    print("includes 0..15:", inc)
    print("is_last  0..15:", last)
    print("includes(None):", s.includes(None), "is_last(None):", s.is_last(None))
    return s


for expr in SCANS + BAD_SCANS:
    run_guarded(f"parse [{expr}]", lambda e=expr: scanner_state(e))

section("1b. big and overlapping ranges, one scanner parsed twice")
BIG = [
    "0-300+500-900",
    "0-200+100-400+50-60",
    "10+0-20+15-30",
    "0-50+25+60-40",
    "7-3+9-12",
    "1-400+2-3+4-5+6-7",
    "0+0-0+0",
]


def big(expr):
    s = Scanner(csvpath=FakeCsvPath())
    s.parse(f"$big.csv[{expr}]")
    t = s.these
    print(
        "from/to/all:",
        s.from_line,
        s.to_line,
        s.all_lines,
        "len(these):",
        len(t),
        "dups:",
        len(t) - len(set(t)),
        "head:",
        t[:12],
        "tail:",
        t[-12:],
        "sum:",
        sum(x for x in t if x is not None),
    )
    print("is_last:", [i for i in range(0, 1000) if s.is_last(i)])
    print("n included of 0..999:", sum(1 for i in range(1000) if s.includes(i)))


for expr in BIG:
    run_guarded(f"big [{expr}]", lambda e=expr: big(e))


def twice():
    s = Scanner(csvpath=FakeCsvPath())
    for e in ("1-3+5", "2-6", "8", "0-1+10-12", "*"):
        try:
            scanner_state(e, s)
        except Exception as ex:  # pylint: disable=W0718
            print("ERR", type(ex).__name__, ex)


run_guarded("one Scanner instance, parse() five times", twice)


def seeded():
    s = Scanner(csvpath=FakeCsvPath())
    s.these = [4, 2, 2, 9]
    s.from_line = 1
    s.to_line = 5
    s._move_range_to_these()  # pylint: disable=W0212
    print("after move:", s.from_line, s.to_line, s.these)
    s._move_range_to_these()  # pylint: disable=W0212
    print("move again (no range):", s.from_line, s.to_line, s.these)
    s._add_range_to_these(8, 11)  # pylint: disable=W0212
    print("after add 8-11:", s.these)
    s._add_range_to_these(5, 3)  # pylint: disable=W0212
    print("after add 5-3 (empty range):", s.these)
    s.from_line = 0
    s.to_line = None
    s._move_range_to_these()  # pylint: disable=W0212
    print("from only:", s.from_line, s.to_line, s.these)
    s.these = [None, 3]
    s._add_range_to_these(2, 4)  # pylint: disable=W0212
    print("with None:", s.these)
    try:
        s._add_range_to_these(2, None)  # pylint: disable=W0212
    except Exception as ex:  # pylint: disable=W0718
        print("ERR", type(ex).__name__, ex, s.these)
    try:
        s._add_range_to_these(None, 2)  # pylint: disable=W0212
    except Exception as ex:  # pylint: disable=W0718
        print("ERR", type(ex).__name__, ex, s.these)
    alias = s.these
    s._add_range_to_these(10, 11)  # pylint: disable=W0212
    print("same list object extended in place:", alias is s.these, alias)


run_guarded("range helpers called directly on seeded state", seeded)

# ----------------------------------------------------------------------
section("2. Scanner.includes / is_last keyword tables")
# ----------------------------------------------------------------------
def tables():
    s = Scanner(csvpath=FakeCsvPath())
    s.parse("$data/x.csv[2-4]")
    vals = [None, 0, 1, 3, 5]
    theses = [None, [], [0], [1, 3], [5, 3, 1]]
    alls = [None, False, True]
    lines = [None, 0, 1, 2, 3, 4, 5, 6, 7]
    n = 0
    for fl in vals + [-1]:
        for tl in vals + [-1]:
            for al in alls:
                for th in theses:
                    inc = []
                    last = []
                    for ln in lines:
                        try:
                            r = s.includes(ln, from_line=fl, to_line=tl, all_lines=al, these=th)
                        except Exception as ex:  # pylint: disable=W0718
                            r = type(ex).__name__
                        inc.append(r)
                        try:
                            r = s.is_last(ln, from_line=fl, to_line=tl, all_lines=al, these=th)
                        except Exception as ex:  # pylint: disable=W0718
                            r = type(ex).__name__
                        last.append(r)
                    n += 1
                    print(
                        f"f={fl} t={tl} a={al} th={th} inc={''.join(_c(x) for x in inc)} last={''.join(_c(x) for x in last)}"
                    )
    print("combinations:", n)
    # result types
    print(type(s.includes(3)), type(s.is_last(4)), type(s.includes(3, to_line=None, from_line=None)))
    print(type(s.includes(3, from_line=1, all_lines=True)), type(s.includes(3, from_line=None, to_line=9)))
    # these passed by the caller are not modified
    th = [5, 3, 1]
    s.includes(3, these=th), s.is_last(5, these=th, to_line=None, from_line=None)
    print("caller's list untouched:", th)
    # odd types
    for args in (
        dict(line="3"),
        dict(line=3.0),
        dict(line=True),
        dict(line=3, from_line="a", to_line=None),
        dict(line=3, from_line=None, to_line="9"),
        dict(line=3, from_line=2.5, to_line=3.5),
        dict(line=3, from_line=None, to_line=None, these=(1, 3)),
        dict(line=3, from_line=None, to_line=None, these={3: 1}),
        dict(line=3, from_line=None, to_line=None, these="123"),
        dict(line=3, from_line=None, to_line=None, these=[None, 3]),
        dict(line=2, from_line=None, to_line=None, these=[None, 3]),
        dict(line=3, from_line=None, to_line=None, these=0),
    ):
        a = dict(args)
        ln = a.pop("line")
        for fn in (s.includes, s.is_last):
            try:
                r = repr(fn(ln, **a))
            except Exception as ex:  # pylint: disable=W0718
                r = f"{type(ex).__name__}: {ex}"
            print(fn.__name__, args, "->", r)


def _c(x):
    if x is True:
        return "1"
    if x is False:
        return "0"
    return f"<{x}>"


run_guarded("tables", tables)

# ----------------------------------------------------------------------
section("3. LineMonitor.is_last_line_and_blank / is_last_line table")
# ----------------------------------------------------------------------
def lm_table():
    class L0:
        def __len__(self):
            return 0

    for end in (None, 0, 3):
        for num in (None, 0, 2, 3):
            for line in (None, [], [""], ["a"], (), "", "x", L0()):
                lm = LineMonitor()
                lm._physical_end_line_number = end  # pylint: disable=W0212
                lm._physical_line_number = num  # pylint: disable=W0212
                r = lm.is_last_line_and_blank(line)
                ln = "L0()" if isinstance(line, L0) else repr(line)
                print(f"end={end} num={num} line={ln}: {r!r} last_line={lm.is_last_line()!r}")
    lm = LineMonitor()
    try:
        print(lm.is_last_line_and_blank(5))
    except Exception as ex:  # pylint: disable=W0718
        print("ERR", type(ex).__name__, ex)
    lm._physical_end_line_number = 1  # pylint: disable=W0212
    print(lm.is_last_line_and_blank(5))


run_guarded("lm table", lm_table)

# ----------------------------------------------------------------------
section("4. CsvPath runs: every file x every scan, collect()")
# ----------------------------------------------------------------------
def collect_run(fname, expr, match="[yes()]", **kw):
    p = CsvPath(**kw)
    p.parse(f"$data/{fname}.csv[{expr}]{match}")
    lines = p.collect()
    show(p, lines)
    return p


RUN_SCANS = [s for s in SCANS if s not in ("1-3*", "0-1-2", "1-2-3+5", "0+1-2-3")]
for fname in FILES:
    for expr in RUN_SCANS:
        run_guarded(
            f"collect {fname} [{expr}]", lambda f=fname, e=expr: collect_run(f, e)
        )

section("4b. line numbers seen by the match part; counts; last()")
MATCH = '[ push("seen", line_number()) @sc = count_scans() @c = count() @t = total_lines() last() -> print("last at $.csvpath.line_number scans $.csvpath.scan_count matches $.csvpath.match_count") ]'
for fname in ("plain5", "blank_mid", "blank_last", "blank_last2", "ten_blanks", "ragged", "one", "only_blank", "blank_first"):
    for expr in ("*", "1*", "2", "1-3", "3-1", "0+2+4", "1-2+4-5", "2-12", "12-2", "9*", "1+3-5", "0+2-3+5+7-9"):
        run_guarded(
            f"watch {fname} [{expr}]",
            lambda f=fname, e=expr: collect_run(f, e, MATCH),
        )

section("4c. match parts that vote, fail, stop, skip, advance")
MATCHES = [
    "[no()]",
    '[#0 == "1"]',
    "[line_number() == 2]",
    "[mod(line_number(), 2) == 0]",
    '[@n = line_number() above(@n, 1) -> stop()]',
    '[line_number() == 1 -> skip() push("after", line_number())]',
    '[line_number() == 1 -> advance(2) push("seen", line_number())]',
    '[fail() push("seen", line_number())]',
    '[~ a comment ~ yes() print("line $.csvpath.line_number count $.csvpath.count_lines")]',
    "[@x.onmatch = count() no()]",
    "[count.nocontrib() == 2 -> fail_and_stop()]",
    '[firstline.nocontrib() -> push("first", line_number()) yes()]',
    "[#9]",
    "[above(int(#1), 1)]",
    "[]",
]
for fname in ("plain5", "blank_mid", "blank_last", "ragged", "ten_blanks"):
    for expr in ("*", "1*", "1-3", "0+2+4", "4-2", "2+5-6"):
        for m in MATCHES:
            run_guarded(
                f"vote {fname} [{expr}]{m}",
                lambda f=fname, e=expr, mm=m: collect_run(f, e, mm),
            )

section("4d. modes: return-mode no-matches, unmatched-mode keep, skip_blank_lines=False, collect limits")


def modes(fname, expr, comment, match, **kw):
    p = CsvPath(**kw)
    p.parse(f"~ {comment} ~ $data/{fname}.csv[{expr}]{match}")
    lines = p.collect()
    show(p, lines)


for fname in ("plain5", "blank_mid", "blank_last", "ragged", "ten_blanks", "only_blank", "spaces_line"):
    for expr in ("*", "1*", "1-3", "0+2+4", "3-12"):
        for comment, match, kw in (
            ("return-mode:no-matches", "[mod(line_number(), 2) == 0]", {}),
            ("unmatched-mode:keep", "[mod(line_number(), 2) == 0]", {}),
            ("unmatched-mode:keep", "[collect(0) mod(line_number(), 2) == 0]", {}),
            ("return-mode:no-matches unmatched-mode:keep", "[no()]", {}),
            ("id:raw", "[yes()]", {"skip_blank_lines": False}),
            ("id:raw2", '[push("seen", line_number()) last() -> @l = line_number()]', {"skip_blank_lines": False}),
            ("id:lim", "[collect(1)]", {}),
            ("run-mode:no-run", "[yes()]", {}),
            ("validation-mode:raise", "[above(int(#0), 0)]", {}),
            ("logic-mode:OR", '[#0 == "1" #1 == "5"]', {}),
        ):
            run_guarded(
                f"mode {fname} [{expr}] ~{comment}~ {match} {kw}",
                lambda f=fname, e=expr, c=comment, m=match, k=kw: modes(f, e, c, m, **k),
            )

section("4e. next(), fast_forward(), collect(nexts=k), advance(), stop(), repeated runs")


def iterate(fname, expr):
    p = CsvPath()
    p.parse(f"$data/{fname}.csv[{expr}][push(\"seen\", line_number())]")
    got = []
    for i, line in enumerate(p.next()):
        got.append((p.line_monitor.physical_line_number, list(line), p.scan_count, p.match_count, p.completed))
        if i == 1:
            p.advance(1)
        if i == 4:
            p.stop()
    show(p, got)


def ff(fname, expr):
    p = CsvPath()
    p.parse(f"$data/{fname}.csv[{expr}][push(\"seen\", line_number()) last() -> print(\"done $.csvpath.line_number\")]")
    p.fast_forward()
    show(p)
    # a second run on the same instance: counts and monitor carry on as HEAD does
    try:
        lines = p.collect()
    except Exception as ex:  # pylint: disable=W0718
        lines = f"{type(ex).__name__}: {ex}"
    show(p, lines)


def nexts(fname, expr, k):
    p = CsvPath()
    p.parse(f"$data/{fname}.csv[{expr}][yes()]")
    lines = p.collect(nexts=k)
    show(p, lines)


def adv_all(fname, expr):
    p = CsvPath()
    p.parse(f"$data/{fname}.csv[{expr}][push(\"seen\", line_number())]")
    got = []
    for line in p.next():
        got.append(list(line))
        if len(got) == 1:
            p.advance()
    show(p, got)


for fname in ("plain5", "blank_mid", "blank_last", "ten", "ten_blanks", "one", "empty"):
    for expr in ("*", "2*", "1-3", "5-2", "0+2+4+6", "1-2+6-8", "4"):
        run_guarded(f"next {fname} [{expr}]", lambda f=fname, e=expr: iterate(f, e))
        run_guarded(f"ff+collect {fname} [{expr}]", lambda f=fname, e=expr: ff(f, e))
        run_guarded(f"advance() to end {fname} [{expr}]", lambda f=fname, e=expr: adv_all(f, e))
        for k in (0, 1, 2, 5):
            run_guarded(
                f"collect(nexts={k}) {fname} [{expr}]",
                lambda f=fname, e=expr, kk=k: nexts(f, e, kk),
            )
run_guarded("collect(nexts=-2)", lambda: nexts("plain5", "*", -2))

section("4f. other delimiters / quotechars, quoted newlines, missing file, bad scan in a csvpath")


def delim():
    p = CsvPath(delimiter="|", quotechar="'")
    p.parse("$data/pipe.csv[1-3][yes()]")
    show(p, p.collect())
    p = CsvPath()
    p.parse("$data/pipe.csv[1-3][yes()]")
    show(p, p.collect())
    p = CsvPath()
    p.parse("$data/quoted.csv[1+3][push(\"seen\", line_number())]")
    show(p, p.collect())
    p = CsvPath()
    p.parse("$data/quoted.csv[2*][push(\"seen\", line_number())]")
    show(p, p.collect())


run_guarded("delimiters", delim)
for path in (
    "$data/nope.csv[*][yes()]",
    "$[*][yes()]",
    "$data/plain5.csv[1-][yes()]",
    "$data/plain5.csv[a][yes()]",
    "$data/plain5.csv[][yes()]",
    "$data/plain5.csv[*]",
    "$data/plain5.csv[1-2]",
    "data/plain5.csv[*][yes()]",
    "$data/plain5.csv[1*][yes()",
    "$data/plain5.csv[3-*][yes()]",
    "$data/plain5.csv[0-1-2][yes()]",
    "$data/plain5.csv[1-3*][yes()]",
    "$data/plain5.csv[0-1-*][yes()]",
    "$data/plain5.csv[0-1-3][yes()]",
    "$data/plain5.csv[1+2-3-*][yes()]",
):

    def bad(pp=path):
        p = CsvPath()
        try:
            p.parse(pp)
            lines = p.collect()
        except Exception as ex:  # pylint: disable=W0718
            lines = f"{type(ex).__name__}: {ex}"
        show(p, lines)
        try:
            print("collect_line_numbers:", p.collect_line_numbers())
        except Exception as ex:  # pylint: disable=W0718
            print("collect_line_numbers:", type(ex).__name__, ex)

    run_guarded(f"path {path}", bad)


def rewritten():
    with open("data/rw.csv", "w", encoding="utf-8") as f:
        f.write("a,b\n1,2\n3,4\n5,6\n")
    p = CsvPath()
    p.parse("$data/rw.csv[1-2+4][push(\"seen\", line_number())]")
    show(p, p.collect())
    with open("data/rw.csv", "w", encoding="utf-8") as f:
        f.write("a,b\n\n1,2\n\n3,4\n5,6\n7,8\n")
    q = CsvPath()
    q.parse("$data/rw.csv[1-2+4][push(\"seen\", line_number())]")
    show(q, q.collect())


run_guarded("same path, file rewritten between runs", rewritten)

# ----------------------------------------------------------------------
section("5. CsvPaths: paths run one by one and by line; archive")
# ----------------------------------------------------------------------
def tree(root):
    res = []
    for dp, dns, fns in os.walk(root):
        dns.sort()
        for fn in sorted(fns):
            res.append(os.path.join(dp, fn))
    return sorted(res)


def new_runs(root):
    """labels and returns the run directories made since the last call"""
    if not os.path.exists(root):
        return []
    fresh = [d for d in os.listdir(root) if d not in RUNMAP]

    def key(d):
        base, _, suffix = d.partition(".")
        return (base, int(suffix) if suffix else -1)

    fresh.sort(key=key)
    for d in fresh:
        RUNMAP[d] = f"<RUN-{len(RUNMAP) + 1:03d}>"
    return [os.path.join(root, d) for d in fresh]


def show_runs(root):
    for rd in new_runs(root):
        for full in tree(rd):
            print("archived:", full)
            if os.path.basename(full) in ("data.csv", "unmatched.csv", "printouts.txt", "vars.json"):
                for ln in read_norm(full).splitlines():
                    print("      >", ln)


def read_norm(path):
    with open(path, "r", encoding="utf-8") as f:
        return f.read()


def group():
    cp = CsvPaths()
    for name in ("plain5", "blank_mid", "blank_last", "ten_blanks", "ragged"):
        cp.file_manager.add_named_file(name=name, path=f"data/{name}.csv")
    cp.paths_manager.add_named_paths(
        name="scans",
        paths=[
            '~ id:all ~ $[*][push("seen", line_number()) print("all $.csvpath.line_number")]',
            '~ id:from2 ~ $[2*][push("seen", line_number())]',
            '~ id:range ~ $[1-3][push("seen", line_number()) last() -> print("range last $.csvpath.line_number")]',
            '~ id:rev ~ $[3-1][push("seen", line_number())]',
            '~ id:union ~ $[0+2-3+5][push("seen", line_number())]',
            "~ id:odd unmatched-mode:keep ~ $[1*][mod(line_number(), 2) == 1]",
            "~ id:nomatch return-mode:no-matches ~ $[0-4][mod(line_number(), 2) == 1]",
            "~ id:beyond ~ $[20-30][yes()]",
        ],
    )
    for method in ("collect_paths", "fast_forward_paths", "collect_by_line", "fast_forward_by_line"):
        for fname in ("plain5", "blank_mid", "blank_last", "ten_blanks", "ragged"):
            print(f"##### {method} {fname}")
            try:
                if method.endswith("by_line"):
                    r = getattr(cp, method)(filename=fname, pathsname="scans")
                    if r is not None:
                        print("returned:", list(r))
                else:
                    getattr(cp, method)(filename=fname, pathsname="scans")
            except Exception as ex:  # pylint: disable=W0718
                print("ERR", type(ex).__name__, ex)
            for r in cp.results_manager.get_named_results("scans"):
                p = r.csvpath
                try:
                    ln = len(r.lines) if r.lines is not None else None
                    lines = list(r.lines.next()) if hasattr(r.lines, "next") else r.lines
                except Exception as ex:  # pylint: disable=W0718
                    ln, lines = None, f"{type(ex).__name__}: {ex}"
                try:
                    um = list(r.unmatched.next()) if hasattr(r.unmatched, "next") else r.unmatched
                except Exception as ex:  # pylint: disable=W0718
                    um = f"{type(ex).__name__}: {ex}"
                print(
                    p.identity,
                    "scan", p.scan_count,
                    "match", p.match_count,
                    "valid", p.is_valid,
                    "stopped", p.stopped,
                    "completed", p.completed,
                    "vars", p.variables,
                    "nlines", ln,
                    "lines", lines,
                    "unmatched", um,
                    "printouts", r.get_printouts() if hasattr(r, "get_printouts") else None,
                    "errors", len(r.errors) if r.errors else 0,
                )
            show_runs("archive/scans")

    def next_by_line():
        for fname in ("blank_mid", "ten_blanks"):
            print(f"##### next_by_line {fname}")
            got = []
            for line in cp.next_by_line(filename=fname, pathsname="scans", if_all_agree=False, collect_when_not_matched=False):
                got.append(list(line))
            print("any agree:", got)
            got = []
            for line in cp.next_by_line(filename=fname, pathsname="scans", if_all_agree=True, collect_when_not_matched=False):
                got.append(list(line))
            print("all agree:", got)
            show_runs("archive/scans")

    try:
        next_by_line()
    except Exception as ex:  # pylint: disable=W0718
        print("ERR", type(ex).__name__, ex)
    print("##### anything else under archive")
    for full in tree("archive"):
        if not full.startswith("archive/scans/"):
            print(full)


run_guarded("CsvPaths", group)

out("")
out("demo complete")
