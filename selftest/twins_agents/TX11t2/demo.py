#!/usr/bin/env python
"""Differential demonstration for property C11 (named-files area is a versioned,
content-addressed, immutable store).

Run with cwd = an empty scratch directory and PYTHONPATH = the csvpath tree to test:

    mkdir /tmp/demo_x && cd /tmp/demo_x && PYTHONPATH=<tree> /venv/bin/python demo.py > out.txt

The script is self-contained: it creates ./config/config.ini (offline, no
listeners), all its source data files, and prints a deterministic transcript of
everything observable: returned values, exceptions, manifests (timestamps
normalised), the complete inputs/named_files tree with the sha256 of each file,
and the ./archive tree after CsvPaths runs (run-dir timestamps normalised).
"""
import hashlib
import itertools
import json
import os
import random
import re
import shutil
import sys

CONFIG = """[csvpath_files]
extensions = txt, csvpath, csvpaths

[csv_files]
extensions = txt, csv, tsv, dat, tab, psv, ssv

[errors]
csvpath = raise, collect, stop, fail, print
csvpaths = raise, collect

[logging]
csvpath = info
csvpaths = info
log_file = logs/csvpath.log
log_files_to_keep = 100
log_file_size = 52428800

[config]
path = config/config.ini

[cache]
path = cache

[listeners]
[marquez]
base_url = http://localhost:5000

[functions]
imports = config/functions.imports

[results]
archive = archive
transfers = transfers

[inputs]
files = inputs/named_files
csvpaths = inputs/named_paths
on_unmatched_file_fingerprints = halt
"""

CWD = os.getcwd()
if os.path.exists(os.path.join(CWD, "csvpath")) or os.path.exists(
    os.path.join(CWD, ".git")
):
    print("refusing to run inside a source tree; use an empty scratch dir")
    sys.exit(2)

for d in ["config", "inputs", "archive", "cache", "logs", "src", "transfers"]:
    if os.path.exists(d):
        shutil.rmtree(d)
os.makedirs("config")
with open("config/config.ini", "w", encoding="utf-8") as f:
    f.write(CONFIG)
with open("config/functions.imports", "w", encoding="utf-8") as f:
    f.write("")

from csvpath import CsvPaths  # noqa: E402
from csvpath.managers.files.file_metadata import FileMetadata  # noqa: E402

STAMP = re.compile(r"\d{4}-\d{2}-\d{2}_\d{2}-\d{2}-\d{2}(\.\d+)?")
UUID = re.compile(r"[0-9a-f]{8}-[0-9a-f]{4}-[0-9a-f]{4}-[0-9a-f]{4}-[0-9a-f]{12}")
ISO = re.compile(r"\d{4}-\d{2}-\d{2}[T ]\d{2}:\d{2}:\d{2}(\.\d+)?(\+\d{2}:\d{2})?")


def norm(s):
    s = str(s)
    s = s.replace(CWD, "<CWD>")
    s = ISO.sub("<ISO>", s)
    s = STAMP.sub("<RUN>", s)
    s = UUID.sub("<UUID>", s)
    return s


def out(*a):
    print(norm(" ".join(str(_) for _ in a)))


def sha(path):
    with open(path, "rb") as f:
        return hashlib.sha256(f.read()).hexdigest()


def write(path, content):
    d = os.path.dirname(path)
    if d and not os.path.exists(d):
        os.makedirs(d)
    with open(path, "wb") as f:
        f.write(content)


def attempt(label, fn):
    try:
        r = fn()
        out(f"  {label} -> {r!r}")
        return r
    except BaseException as e:  # noqa
        out(f"  {label} !! {type(e).__name__}: {e}")
        c = e.__cause__
        while c is not None:
            out(f"      caused by {type(c).__name__}: {c}")
            c = c.__cause__
        return None


def tree(root):
    if not os.path.exists(root):
        out(f"  [tree {root}: absent]")
        return
    out(f"  [tree {root}]")
    for base, dirs, files in os.walk(root):
        dirs.sort()
        for d in dirs:
            p = os.path.join(base, d)
            if not os.listdir(p):
                out(f"    {p}/ (empty dir)")
        for fn in sorted(files):
            p = os.path.join(base, fn)
            if fn == "manifest.json":
                out(f"    {p} manifest")
            else:
                out(f"    {p} size={os.path.getsize(p)} sha256={sha(p)}")


def archive_tree(root="archive"):
    """listing of the archive. run dirs are ordered by the time in their run
    manifest and renamed RUN#i; small deterministic files are printed whole,
    selected keys are printed from the json manifests"""
    if not os.path.exists(root):
        out(f"  [archive {root}: absent]")
        return
    out(f"  [archive {root}]")
    for fn in sorted(os.listdir(root)):
        if os.path.isfile(os.path.join(root, fn)):
            out(f"    {root}/{fn}")
    for results in sorted(os.listdir(root)):
        rhome = os.path.join(root, results)
        if os.path.isfile(rhome):
            continue
        runs = []
        for rd in os.listdir(rhome):
            with open(os.path.join(rhome, rd, "manifest.json"), "r", encoding="utf-8") as f:
                runs.append((json.load(f)["time"], rd))
        runs.sort()
        for i, (_, rd) in enumerate(runs):
            tag = f"{rhome}/RUN#{i}"
            with open(os.path.join(rhome, rd, "manifest.json"), "r", encoding="utf-8") as f:
                man = json.load(f)
            keys = [
                "status", "all_completed", "all_valid", "error_count", "all_expected_files",
                "named_results_name", "named_paths_name", "named_file_name", "named_file_path",
                "named_file_fingerprint", "named_file_fingerprint_on_file",
            ]
            out(f"    {tag}/manifest.json {json.dumps({k: man.get(k) for k in keys})}")
            for base, dirs, files in os.walk(os.path.join(rhome, rd)):
                dirs.sort()
                if base == os.path.join(rhome, rd):
                    continue
                for fn in sorted(files):
                    p = os.path.join(base, fn)
                    shown = p.replace(os.path.join(rhome, rd), tag)
                    if fn in ("data.csv", "unmatched.csv", "printouts.txt"):
                        with open(p, "r", encoding="utf-8") as f:
                            out(f"    {shown} :: {f.read()!r}")
                    elif fn == "manifest.json":
                        with open(p, "r", encoding="utf-8") as f:
                            im = json.load(f)
                        keys = ["instance_identity", "valid", "completed", "files_expected",
                                "file_count", "actual_data_file", "origin_data_file", "named_file_name"]
                        d = {k: im.get(k) for k in keys}
                        ff = im.get("file_fingerprints") or {}
                        d["file_fingerprints"] = {k: ff.get(k) for k in sorted(ff) if k in ("data.csv", "printouts.txt", "unmatched.csv")}
                        d["fingerprinted"] = sorted(ff)
                        out(f"    {shown} {json.dumps(d)}")
                    else:
                        out(f"    {shown}")


def manifest(name):
    p = os.path.join("inputs/named_files", name, "manifest.json")
    if not os.path.exists(p):
        out(f"  [manifest {name}: absent]")
        return []
    with open(p, "r", encoding="utf-8") as f:
        text = f.read()
    try:
        m = json.loads(text)
    except Exception as e:  # noqa
        out(f"  [manifest {name}: unparseable {type(e).__name__}] {text!r}")
        return []
    out(
        f"  [manifest {name}: {len(m)} entries;"
        f" text==json.dumps(m, indent=2): {text == json.dumps(m, indent=2)}]"
    )
    for i, e in enumerate(m):
        keys = list(e.keys())
        e2 = dict(e)
        if "time" in e2:
            e2["time"] = "<ISO>" if ISO.fullmatch(str(e2["time"])) else e2["time"]
        out(f"    {i}: keys={keys} {json.dumps(e2)}")
    return m


def state(cp, names):
    fm = cp.file_manager
    attempt("named_file_names(sorted)", lambda: sorted(fm.named_file_names))
    attempt("named_files_count", lambda: fm.named_files_count)
    for n in names:
        out(f"  -- name {n!r}")
        attempt("name_exists", lambda: fm.name_exists(n))
        p = attempt("get_named_file", lambda: fm.get_named_file(n))
        attempt("get_fingerprint_for_name", lambda: fm.get_fingerprint_for_name(n))
        attempt(
            "registrar.type_of_file",
            lambda: fm.registrar.type_of_file(fm.named_file_home(n)),
        )
        attempt(
            "registrar.get_fingerprint",
            lambda: fm.registrar.get_fingerprint(fm.named_file_home(n)),
        )
        if p is not None:
            real = p[0 : p.find("#")] if p.find("#") > -1 else p
            if os.path.exists(real):
                h = sha(real)
                bn = os.path.basename(real)
                out(f"  current bytes sha256={h} basename={bn} name_is_hash={bn.split('.')[0] == h}")
            else:
                out(f"  current file {real} does not exist")
        manifest(n)
    tree("inputs/named_files")


def read_all(cp, name):
    r = cp.file_manager.get_named_file_reader(name)
    return [line for line in r.next()]


# ----------------------------------------------------------------------
# source material
# ----------------------------------------------------------------------
CONTENTS = {
    "c0": b"a,b,c\n1,2,3\n4,5,6\n",
    "c1": b"a,b,c\n\n1,,3\n\n0,0,0\n7,8\n9,10,11,12\n",  # blank lines, empty values, zero, ragged
    "c2": b"",  # empty file
    "c3": b"a,b,c\r\n\"x,y\",2,\"\"\r\n",
}
SOURCES = {
    "s0": "src/one.csv",
    "s1": "src/deep/er/two.csv",
    "s2": "src/one.more.dots.csv",
    "s3": "src/noext",
    "s4": os.path.join(CWD, "src", "abs.tsv"),
    "s5": "top.csv",
}


def section(t):
    out("")
    out("=" * 72)
    out(t)
    out("=" * 72)


# ----------------------------------------------------------------------
section("1. basic versioning: add / re-add / new content / new source / mutate / new instance")
# ----------------------------------------------------------------------
cp = CsvPaths()
names = ["n0", "n1"]
write(SOURCES["s0"], CONTENTS["c0"])
out("add n0 <- s0(c0)")
attempt("add", lambda: cp.file_manager.add_named_file(name="n0", path=SOURCES["s0"]))
state(cp, names)
out("re-add n0 <- s0(c0)  (repeat: no new entry)")
attempt("add", lambda: cp.file_manager.add_named_file(name="n0", path=SOURCES["s0"]))
state(cp, names)
out("mutate s0 := c1 (not registered) -- registered content must not change")
write(SOURCES["s0"], CONTENTS["c1"])
state(cp, ["n0"])
out("add n0 <- s0(c1)")
attempt("add", lambda: cp.file_manager.add_named_file(name="n0", path=SOURCES["s0"]))
state(cp, names)
out("add n0 <- s1(c1)  (same bytes, different source file name: new entry)")
write(SOURCES["s1"], CONTENTS["c1"])
attempt("add", lambda: cp.file_manager.add_named_file(name="n0", path=SOURCES["s1"]))
state(cp, names)
out("add n0 <- s0(c0) again (back to an older version: new entry, no new file)")
write(SOURCES["s0"], CONTENTS["c0"])
attempt("add", lambda: cp.file_manager.add_named_file(name="n0", path=SOURCES["s0"]))
state(cp, names)
out("add n1 <- s0(c0)")
attempt("add", lambda: cp.file_manager.add_named_file(name="n1", path=SOURCES["s0"]))
out("add n1 <- s4(c2) absolute path, empty file, tsv")
write(SOURCES["s4"], CONTENTS["c2"])
attempt("add", lambda: cp.file_manager.add_named_file(name="n1", path=SOURCES["s4"]))
state(cp, names)
out("fresh CsvPaths instance sees the same state")
cp = CsvPaths()
state(cp, names)
out("readers")
attempt("read n0", lambda: read_all(cp, "n0"))
attempt("read n1", lambda: read_all(cp, "n1"))
out("remove n0")
attempt("remove", lambda: cp.file_manager.remove_named_file("n0"))
state(cp, names)
out("remove n0 again")
attempt("remove", lambda: cp.file_manager.remove_named_file("n0"))
out("add n0 <- s0(c0) after removal: manifest starts over")
attempt("add", lambda: cp.file_manager.add_named_file(name="n0", path=SOURCES["s0"]))
state(cp, names)
attempt("remove_all", lambda: cp.file_manager.remove_all_named_files())
state(cp, names)

# ----------------------------------------------------------------------
section("2. edge-case paths: marks, dots, no extension, missing, cwd-level, odd names")
# ----------------------------------------------------------------------
cp = CsvPaths()
write(SOURCES["s0"], CONTENTS["c0"])
write(SOURCES["s2"], CONTENTS["c3"])
write(SOURCES["s3"], CONTENTS["c0"])
write(SOURCES["s5"], CONTENTS["c1"])
cases = [
    ("m0", SOURCES["s0"] + "#sheet2"),
    ("m0", SOURCES["s0"] + "#sheet2"),
    ("m0", SOURCES["s0"] + "#other"),
    ("m0", SOURCES["s0"]),
    ("m1", SOURCES["s0"] + "#"),
    ("m2", SOURCES["s0"] + "#a#b"),
    ("dots", SOURCES["s2"]),
    ("dots", SOURCES["s2"] + "#mk"),
    ("noext", SOURCES["s3"]),
    ("missing", "src/not_there.csv"),
    ("missing", "src/not_there.csv"),
    ("top", SOURCES["s5"]),
    ("top", "./" + SOURCES["s5"]),
    ("sub/name", SOURCES["s0"]),
    ("ha#sh", SOURCES["s0"]),
    ("", SOURCES["s0"]),
    ("dir", "src"),
    ("dir2", "src/deep/"),
    ("nonepath", None),
    ("intpath", 5),
    (None, SOURCES["s0"]),
]
for name, path in cases:
    out(f"add {name!r} <- {path!r}")
    attempt("add", lambda: cp.file_manager.add_named_file(name=name, path=path))
    if isinstance(name, str) and name != "":
        state(cp, [name])
    else:
        tree("inputs/named_files")
out("readers on marked / dotted names")
attempt("read m0", lambda: read_all(cp, "m0"))
attempt("read dots", lambda: read_all(cp, "dots"))
attempt("read top", lambda: read_all(cp, "top"))
out("a name whose home exists but has never been registered (empty manifest)")
os.makedirs("inputs/named_files/hollow")
state(cp, ["hollow"])
out("unknown names and references")
attempt("get_named_file unknown", lambda: cp.file_manager.get_named_file("nope"))
attempt("get_fingerprint_for_name unknown", lambda: cp.file_manager.get_fingerprint_for_name("nope"))
attempt("get_fingerprint_for_name $ref", lambda: cp.file_manager.get_fingerprint_for_name("$x.results.y"))
attempt("get_named_file $x.csvpaths.y", lambda: cp.file_manager.get_named_file("$x.csvpaths.y"))
attempt("get_named_file $x.files.y", lambda: cp.file_manager.get_named_file("$x.files.y"))
attempt("get_named_file_reader unknown", lambda: cp.file_manager.get_named_file_reader("nope"))
attempt("registrar.manifest_path missing home", lambda: cp.file_manager.registrar.manifest_path("inputs/named_files/nope"))
attempt("registrar.registered_file missing home", lambda: cp.file_manager.registrar.registered_file("inputs/named_files/nope"))
tree("inputs/named_files")

# ----------------------------------------------------------------------
section("3. the private helpers the test-suite calls directly + registrar direct use")
# ----------------------------------------------------------------------
cp = CsvPaths()
cp.file_manager.remove_all_named_files()
fm = cp.file_manager
write(SOURCES["s0"], CONTENTS["c0"])
home = attempt("assure_file_home", lambda: fm.assure_file_home("h0", SOURCES["s0"] + "#mk"))
attempt("assure_file_home again", lambda: fm.assure_file_home("h0", SOURCES["s0"]))
attempt("assure_named_file_home", lambda: fm.assure_named_file_home("h1"))
attempt("named_file_home", lambda: fm.named_file_home("h0"))
attempt("named_files_dir", lambda: fm.named_files_dir)
attempt("csvpaths is cp", lambda: fm.csvpaths is cp)
d = attempt("_copy_in", lambda: fm._copy_in(SOURCES["s0"], home))
tree("inputs/named_files")
r = attempt("_fingerprint", lambda: fm._fingerprint(home))
attempt("type(_fingerprint result)", lambda: (isinstance(r, tuple), len(r), r[0] != d, r == (r[0], r[1])))
tree("inputs/named_files")
d = attempt("_copy_in (2nd)", lambda: fm._copy_in(SOURCES["s0"], home))
attempt("_fingerprint (2nd, file already there)", lambda: fm._fingerprint(home))
tree("inputs/named_files")
attempt("_fingerprint (nothing landed)", lambda: fm._fingerprint(home))
attempt("_copy_in missing source", lambda: fm._copy_in("src/zip.csv", home))
attempt("_copy_in missing home", lambda: fm._copy_in(SOURCES["s0"], "inputs/named_files/h0/zzz"))
tree("inputs/named_files")
attempt("registrar._type? via register: type_of_file h0 (empty manifest)", lambda: fm.registrar.type_of_file(fm.named_file_home("h0")))

out("registrar.register_complete with hand-made metadata")


def mk(origin, mark, fingerprint, file_home, name_home, file_path="x/y.csv"):
    m = FileMetadata(cp.config)
    m.named_file_name = "h0"
    m.origin_path = origin
    m.archive_name = cp.config.archive_name
    m.fingerprint = fingerprint
    m.file_path = file_path
    m.file_home = file_home
    m.file_name = "one.csv"
    m.name_home = name_home
    m.mark = mark
    return m


nh = fm.named_file_home("h0")
regs = [
    ("ok", mk(SOURCES["s0"], None, "f1", home, nh)),
    ("repeat", mk(SOURCES["s0"], None, "f1", home, nh)),
    ("new fingerprint", mk(SOURCES["s0"], None, "f2", home, nh)),
    ("new file_home", mk(SOURCES["s0"], None, "f2", home + "x", nh)),
    ("with mark", mk(SOURCES["s0"] + "#mm", "mm", "f2", home + "x", nh)),
    ("with mark repeat", mk(SOURCES["s0"] + "#mm", "mm", "f2", home + "x", nh)),
    ("mark mismatch", mk(SOURCES["s0"] + "#mm", "zz", "f3", home, nh)),
    ("mark missing in mdata", mk(SOURCES["s0"] + "#mm", None, "f3", home, nh)),
    ("mark missing in path", mk(SOURCES["s0"], "mm", "f3", home, nh)),
    ("empty mark", mk(SOURCES["s0"] + "#", "", "f3", home, nh)),
    ("source missing", mk("src/gone.csv", None, "f3", home, nh)),
    ("s3 source (no existence check)", mk("s3://bucket/key.csv", None, "f4", home, nh)),
    ("no extension source", mk(SOURCES["s3"], None, "f5", home, nh)),
    ("dotted dir no ext", mk("src/deep/er", None, "f6", home, nh)),
    ("name home missing", mk(SOURCES["s0"], None, "f7", home, "inputs/named_files/zilch")),
    ("origin None", mk(None, None, "f7", home, nh)),
    ("fingerprint None", mk(SOURCES["s0"], None, None, home, nh)),
]
for label, m in regs:
    out(f"register_complete: {label}")
    attempt("register", lambda: fm.registrar.register_complete(m))
    attempt("mdata after", lambda: (m.manifest_path, m.type, m.mark, m.origin_path))
attempt("register None", lambda: fm.registrar.register_complete(None))
state(cp, ["h0"])
out("a manifest whose last entry lacks keys (hand-edited) is re-registered")
with open(os.path.join(nh, "manifest.json"), "w", encoding="utf-8") as f:
    json.dump([{"fingerprint": "f1"}], f)
attempt("register", lambda: fm.registrar.register_complete(mk(SOURCES["s0"], None, "f1", home, nh)))
manifest("h0")
attempt("registered_file", lambda: fm.registrar.registered_file(nh))
with open(os.path.join(nh, "manifest.json"), "w", encoding="utf-8") as f:
    json.dump([{"file": "p/q.csv", "mark": None, "type": "csv"}], f)
attempt("registered_file mark None", lambda: fm.registrar.registered_file(nh))
attempt("get_fingerprint no key", lambda: fm.registrar.get_fingerprint(nh))
with open(os.path.join(nh, "manifest.json"), "w", encoding="utf-8") as f:
    json.dump([{"file": "p/q.csv", "mark": "", "type": "csv", "fingerprint": 0}], f)
attempt("registered_file mark ''", lambda: fm.registrar.registered_file(nh))
attempt("get_fingerprint 0", lambda: fm.registrar.get_fingerprint(nh))
attempt("register vs fingerprint 0", lambda: fm.registrar.register_complete(mk(SOURCES["s0"], None, 0, home, nh)))
manifest("h0")
with open(os.path.join(nh, "manifest.json"), "w", encoding="utf-8") as f:
    f.write("null")
attempt("registered_file null manifest", lambda: fm.registrar.registered_file(nh))
attempt("get_fingerprint null manifest", lambda: fm.registrar.get_fingerprint(nh))
attempt("type_of_file null manifest", lambda: fm.registrar.type_of_file(nh))
attempt("register on null manifest", lambda: fm.registrar.register_complete(mk(SOURCES["s0"], None, "f1", home, nh)))
with open(os.path.join(nh, "manifest.json"), "w", encoding="utf-8") as f:
    f.write("{not json")
attempt("registered_file bad json", lambda: fm.registrar.registered_file(nh))
attempt("register on bad json", lambda: fm.registrar.register_complete(mk(SOURCES["s0"], None, "f1", home, nh)))

out("FileMetadata time handling")
m = FileMetadata(cp.config)
attempt("time_string looks iso", lambda: norm(m.time_string))
attempt("time is aware utc", lambda: str(m.time.tzinfo))


def _set_ts(v):
    m.time_string = v
    return m.time_string


def _set_t(v):
    m.time = v
    return (m.time, m.time_string)


for v in ["2024-03-01T10:11:12+00:00", "2024-03-01", "junk", None, 5]:
    try:
        print(f"  time_string={v!r} -> {_set_ts(v)!r}")
    except Exception as e:  # noqa
        print(f"  time_string={v!r} !! {type(e).__name__}: {e}")
for v in [None, 0, "x", 5]:
    try:
        print(f"  time={v!r} -> {_set_t(v)!r}")
    except Exception as e:  # noqa
        print(f"  time={v!r} !! {type(e).__name__}: {e}")
attempt("from_manifest", lambda: (m.from_manifest({"time": "2020-02-02T02:02:02+00:00"}), m.time_string)[1])
attempt("set_time", lambda: (m.set_time(), norm(m.time_string))[1])
attempt("named_files_root", lambda: m.named_files_root)

# ----------------------------------------------------------------------
section("4. bulk loaders: dict, json, dir")
# ----------------------------------------------------------------------
cp = CsvPaths()
cp.file_manager.remove_all_named_files()
fm = cp.file_manager
write("bulk/alpha.csv", CONTENTS["c0"])
write("bulk/beta.txt", CONTENTS["c1"])
write("bulk/gamma.TSV", CONTENTS["c3"])
write("bulk/delta.xyz", CONTENTS["c0"])
write("bulk/README", CONTENTS["c0"])
write("bulk/eps.tar.csv", CONTENTS["c2"])
attempt("add_named_files_from_dir", lambda: fm.add_named_files_from_dir("bulk"))
state(cp, sorted(fm.named_file_names))
attempt("add_named_files_from_dir again", lambda: fm.add_named_files_from_dir("bulk"))
for n in sorted(fm.named_file_names):
    manifest(n)
attempt("add_named_files_from_dir missing", lambda: fm.add_named_files_from_dir("nodir"))
attempt("set_named_files", lambda: fm.set_named_files({"d1": "bulk/alpha.csv", "d2": "bulk/beta.txt#x"}))
attempt("set_named_files w/ failure midway", lambda: fm.set_named_files({"d3": "bulk/alpha.csv", "d4": "bulk/none.csv", "d5": "bulk/beta.txt"}))
write("named.json", json.dumps({"j1": "bulk/alpha.csv", "j2": "bulk/gamma.TSV"}).encode())
write("bad.json", b"{nope")
write("list.json", b"[1,2]")
attempt("set_named_files_from_json", lambda: fm.set_named_files_from_json("named.json"))
attempt("set_named_files_from_json bad", lambda: fm.set_named_files_from_json("bad.json"))
attempt("set_named_files_from_json list", lambda: fm.set_named_files_from_json("list.json"))
attempt("set_named_files_from_json missing", lambda: fm.set_named_files_from_json("none.json"))
out("same with a collect-only error policy")
cp.config.csvpaths_errors_policy = ["collect"]
attempt("set_named_files_from_json bad", lambda: fm.set_named_files_from_json("bad.json"))
attempt("set_named_files_from_json missing", lambda: fm.set_named_files_from_json("none.json"))
state(cp, sorted(fm.named_file_names))

# ----------------------------------------------------------------------
section("5. exhaustive short sequences against an abstract model (length <= 3) + random long ones")
# ----------------------------------------------------------------------
SEQ_NAMES = ["a", "b"]
SEQ_SRCS = ["seq/x.csv", "seq/y.csv"]
SEQ_CONTENT = [b"h\n1\n", b"h\n\n2,,\n", b""]
OPS = (
    [("add", n, s, c) for n in range(2) for s in range(2) for c in range(3)]
    + [("mutate", s, c) for s in range(2) for c in range(3)]
    + [("remove", n) for n in range(2)]
    + [("new",)]
)


def run_sequence(seq, verbose):
    """returns (ok, transcript-lines). model: per name a list of (fingerprint, srcfile)
    versions plus the set of all files ever registered"""
    cp = CsvPaths()
    cp.file_manager.remove_all_named_files()
    if os.path.exists("seq"):
        shutil.rmtree("seq")
    for s in SEQ_SRCS:
        write(s, b"initial\n")
    model = {}
    ondisk = {}
    lines = []
    ok = True
    for op in seq:
        if op[0] == "add":
            _, n, s, c = op
            write(SEQ_SRCS[s], SEQ_CONTENT[c])
            try:
                cp.file_manager.add_named_file(name=SEQ_NAMES[n], path=SEQ_SRCS[s])
            except Exception as e:  # noqa
                lines.append(f"add raised {type(e).__name__}: {e}")
            h = hashlib.sha256(SEQ_CONTENT[c]).hexdigest()
            vs = model.setdefault(SEQ_NAMES[n], [])
            if not vs or vs[-1] != (h, SEQ_SRCS[s]):
                vs.append((h, SEQ_SRCS[s]))
            ondisk.setdefault(SEQ_NAMES[n], set()).add((os.path.basename(SEQ_SRCS[s]), h))
        elif op[0] == "mutate":
            _, s, c = op
            write(SEQ_SRCS[s], SEQ_CONTENT[c] + b"mutated\n")
        elif op[0] == "remove":
            try:
                cp.file_manager.remove_named_file(SEQ_NAMES[op[1]])
                lines.append("remove ok")
            except Exception as e:  # noqa
                lines.append(f"remove raised {type(e).__name__}")
            model.pop(SEQ_NAMES[op[1]], None)
            ondisk.pop(SEQ_NAMES[op[1]], None)
        elif op[0] == "new":
            cp = CsvPaths()
        # compare
        for n in SEQ_NAMES:
            got = cp.file_manager.get_named_file(n)
            if n not in model:
                if got is not None:
                    ok = False
                    lines.append(f"MISMATCH {n}: expected None got {got}")
                continue
            h, src = model[n][-1]
            exp = os.path.join("inputs/named_files", n, os.path.basename(src), h + ".csv")
            if got != exp or sha(got) != h:
                ok = False
                lines.append(f"MISMATCH {n}: expected {exp} got {got}")
            with open(os.path.join("inputs/named_files", n, "manifest.json")) as f:
                man = json.load(f)
            if [(e["fingerprint"], e["from"]) for e in man] != model[n]:
                ok = False
                lines.append(f"MISMATCH manifest {n}: {[(e['fingerprint'], e['from']) for e in man]} vs {model[n]}")
            for bn, hh in ondisk[n]:
                p = os.path.join("inputs/named_files", n, bn, hh + ".csv")
                if not os.path.exists(p) or sha(p) != hh:
                    ok = False
                    lines.append(f"MISMATCH version lost {p}")
            listing = []
            for base, dirs, files in os.walk(os.path.join("inputs/named_files", n)):
                dirs.sort()
                listing += [os.path.join(base, fn) for fn in sorted(files)]
            if verbose:
                lines.append(f"{op} {n}: {got} entries={len(man)} files={listing}")
            if len(listing) != len(ondisk[n]) + 1:
                ok = False
                lines.append(f"MISMATCH stray files {listing}")
    return ok, lines


count = 0
bad = 0
digest = hashlib.sha256()
for length in (1, 2, 3):
    for seq in itertools.product(OPS, repeat=length):
        ok, lines = run_sequence(seq, verbose=True)
        count += 1
        digest.update(repr((seq, ok, lines)).encode())
        if not ok:
            bad += 1
            out(f"sequence {seq} FAILED: {lines}")
out(f"exhaustive: {count} sequences, {bad} mismatches vs model, transcript digest {digest.hexdigest()}")
rnd = random.Random(11)
for i in range(25):
    seq = [rnd.choice(OPS) for _ in range(rnd.randint(6, 14))]
    ok, lines = run_sequence(seq, verbose=True)
    out(f"random {i}: len={len(seq)} ok={ok}")
    for line in lines:
        out(f"    {line}")

# ----------------------------------------------------------------------
section("6. named files feeding runs: results, archive, fingerprint halt")
# ----------------------------------------------------------------------
cp = CsvPaths()
cp.file_manager.remove_all_named_files()
write("run/f.csv", CONTENTS["c1"])
attempt("add f", lambda: cp.file_manager.add_named_file(name="f", path="run/f.csv"))
attempt(
    "add paths",
    lambda: cp.paths_manager.add_named_paths(
        name="p",
        paths=[
            "~id:one~ $[*][yes() print(\"$.csvpath.line_number: $.headers.a\")]",
            "~id:two~ $[*][#a==\"0\"]",
            "~id:three~ $[1*][@c = count() #b]",
        ],
    ),
)


def run(method):
    getattr(cp, method)(filename="f", pathsname="p")
    rs = cp.results_manager.get_named_results("p")
    res = []
    for r in rs:
        res.append(
            (
                r.csvpath.identity,
                r.csvpath.is_valid,
                len(r.errors) if r.errors is not None else None,
                dict(r.csvpath.variables),
                [list(_) for _ in r.lines.next()] if r.lines is not None else None,
                list(r.printouts.get("default", [])) if hasattr(r.printouts, "get") else None,
                norm(r.file_name),
            )
        )
    return res


for row in attempt("collect_paths", lambda: run("collect_paths")) or []:
    out("   ", row)
for row in attempt("fast_forward_paths", lambda: run("fast_forward_paths")) or []:
    out("   ", row)
out("new version of f, run again (repeat run)")
write("run/f.csv", CONTENTS["c0"])
attempt("add f", lambda: cp.file_manager.add_named_file(name="f", path="run/f.csv"))
for row in attempt("collect_paths", lambda: run("collect_paths")) or []:
    out("   ", row)
out("tamper with the registered bytes: fingerprint mismatch must halt")
cur = cp.file_manager.get_named_file("f")
with open(cur, "ab") as fh:
    fh.write(b"9,9,9\n")
attempt("collect_paths", lambda: run("collect_paths"))
out("empty-file version")
write("run/f.csv", CONTENTS["c2"])
attempt("add f", lambda: cp.file_manager.add_named_file(name="f", path="run/f.csv"))
attempt("collect_paths", lambda: run("collect_paths"))
out("run against an unknown named file")
attempt("collect_paths", lambda: cp.collect_paths(filename="unknown", pathsname="p"))
state(cp, ["f"])
archive_tree()
out("")
out("done")
