#!/usr/bin/env python
"""Differential demonstration for property C08 (a csvpath gives the same results
alone, in a serial run and breadth-first).

Run it in an empty scratch directory (NOT in the csvpath worktree):

    mkdir -p /tmp/demo_TWC08_x && cd /tmp/demo_TWC08_x
    PYTHONPATH=<csvpath source tree> /venv/bin/python demo.py > out.txt

The script is self-contained: it writes its own offline ./config/config.ini for
every scenario (no OpenLineage listeners), its own CSV files and csvpaths. It
prints a deterministic transcript of everything observable: lines returned to
the caller, per-member result lines, variables, validity, counters, printouts,
errors, and a normalised dump of ./archive (listing + file contents). Run
directory timestamps, wall-clock times, uuids, object addresses and traceback
bodies (which contain source line numbers) are normalised.
"""
import os
import sys
import re
import json
import shutil

if os.environ.get("PYTHONHASHSEED") != "0":
    # the parser library (lark) lists "expected tokens" in set order; pin the hash
    # seed so that the transcript is reproducible run to run.
    os.environ["PYTHONHASHSEED"] = "0"
    os.execv(sys.executable, [sys.executable] + sys.argv)

from csvpath import CsvPath, CsvPaths  # noqa: E402  pylint: disable=C0413

BASE = os.path.abspath(os.getcwd())
WORK = os.path.join(BASE, "work")

CONFIG = """[csvpath_files]
extensions = txt, csvpath, csvpaths

[csv_files]
extensions = txt, csv, tsv, dat, tab, psv, ssv

[errors]
csvpath = %(csvpath_policy)s
csvpaths = %(csvpaths_policy)s

[logging]
csvpath = info
csvpaths = info
log_file = logs/csvpath.log
log_files_to_keep = 100
log_file_size = 52428800

[config]
path = config/config.ini

[cache]
path = cache

[listeners]
[marquez]
base_url = http://localhost:5000

[functions]
imports = config/functions.imports

[results]
archive = archive
transfers = transfers

[inputs]
files = inputs/named_files
csvpaths = inputs/named_paths
on_unmatched_file_fingerprints = halt
"""

POLICIES = {
    # the shipped policy: everything raises
    "raise": ("raise, collect, stop, fail, print", "raise, collect"),
    # a never-fail-during-a-run policy
    "quiet": ("collect, fail, print", "collect"),
}

FILES = {
    "plain": "a,b,c\n1,2,3\n4,5,6\n7,8,9\n0,0,0\n",
    "blanks": "a,b,c\n1,2,3\n\n4,,6\n\n\n7,8,9\n\n",
    "ragged": "a,b,c\n1,2,3\n4\n7,8\n0,0,0,9\n,,\n1,x\n",
    "empties": 'a,b,c\n,,\n0,0,0\n" ",  ,\n"1,5","",3\n1,2,3\n1,2,3\n',
    "header_only": "a,b,c\n",
    "nonl": "a,b,c\n1,2,3",
    "one_col": "a\n1\n\n0\n1\n",
    "empty": "",
}

POOL = {
    "yes": "$[*][yes()]",
    "cnt": '~id:cnt~ $[*][@n=count() @l=line_number() print("cnt $.csvpath.line_number: $.variables.n")]',
    "rng": "~id:rng~ $[1-3][#0]",
    "stp": "~id:stp~ $[*][line_number()==2 -> stop()]",
    "fl": '~id:fl~ $[*][#1=="" -> fail()]',
    "skp": '~id:skp~ $[*][skip(#0=="4") @s=count()]',
    "adv": "~id:adv~ $[*][line_number()==1 -> advance(2) @z=count_lines()]",
    "col": "~id:col~ $[*][collect(0) yes()]",
    "col2": "~id:col2~ $[*][collect(2) yes()]",
    "nm": '~id:nm return-mode:no-matches~ $[*][#0=="1"]',
    "um": '~id:um unmatched-mode:keep~ $[*][#0=="1"]',
    "last": '~id:last~ $[*][last() -> print("last line $.csvpath.line_number")]',
    "div": "~id:div~ $[1*][@x = divide(1, int(#0))]",
    "nr": "~id:nr run-mode:no-run~ $[*][yes()]",
    "bad": "~id:bad~ $[*][foo(]",
    "or": '~id:or logic-mode:OR~ $[*][#0=="1" #0=="7"]',
    "tot": "~id:tot~ $[1*][@t = sum(int(#0)) @e = empty(#1) @m=max(#0)]",
    "ev": "~id:ev~ $[*][mod(line_number(),2)==0 @odd.onmatch=count()]",
    "e1": "~id:e1~ $[*][@x=int(#0)]",
    "e2": "~id:e2 validation-mode:no-raise, collect, print, no-stop, fail~ $[*][@x=int(#0)]",
    "e3": "~id:e3 validation-mode:no-raise, no-print, no-stop, no-fail~ $[*][@x=int(#0) @c=count()]",
    "e6": '~id:e6 validation-mode:no-raise, no-print, stop, no-fail~ $[*][line_number()==3 -> @x=int("q") @c=count()]',
    "zero": '~id:zero~ $[*][#0=="0" @zc.onmatch=count()]',
    "noid": '$[*][#a=="1" @k=count()]',
    # cross-path signals: outside the property, but the refactored code handles them
    "stopall": "~id:stopall~ $[*][line_number()==2 -> stop_all()]",
    "failall": "~id:failall~ $[*][line_number()==1 -> fail_all()]",
    "skipall": "~id:skipall~ $[*][line_number()==1 -> skip_all()]",
    "advall": "~id:advall~ $[*][line_number()==1 -> advance_all(2)]",
}

# groups of 1-4 members. duplicated identities and no-identity members included.
GROUPS = [
    ["yes"],
    ["cnt", "rng"],
    ["rng", "cnt"],
    ["stp", "fl", "skp", "adv"],
    ["adv", "skp", "fl", "stp"],
    ["col", "nm", "um", "last"],
    ["yes", "noid", "yes"],
    ["or", "tot", "ev", "zero"],
    ["div", "nr", "zero"],
    ["e2", "e3", "e6", "cnt"],
    ["rng", "rng"],
]

ERROR_GROUPS = [
    ["cnt", "e1", "yes"],
    ["col2", "cnt"],
    ["cnt", "bad", "yes"],
    ["bad"],
]

SIGNAL_GROUPS = [
    ["cnt", "stopall", "yes"],
    ["failall", "cnt"],
    ["cnt", "skipall", "zero", "cnt"],
    ["advall", "cnt", "adv"],
]

# ---------------------------------------------------------------- normalising

RE_RUN = re.compile(r"\d{4}-\d\d-\d\d_\d\d-\d\d-\d\d(\.\d+)?")
RE_TS = re.compile(r"\d{4}-\d\d-\d\d[ T]\d\d:\d\d:\d\d(\.\d+)?(\+00:00)?")
RE_UUID = re.compile(
    r"[0-9a-f]{8}-[0-9a-f]{4}-[0-9a-f]{4}-[0-9a-f]{4}-[0-9a-f]{12}", re.I
)
RE_ADDR = re.compile(r"0x[0-9a-fA-F]+")
# time.ctime() style, e.g. the named_file_last_change field of a run manifest
RE_CTIME = re.compile(
    r"[A-Z][a-z]{2} [A-Z][a-z]{2} [ \d]\d \d\d:\d\d:\d\d \d{4}"
)

VOLATILE_KEYS = {"lines_time", "last_line_time"}
VOLATILE_FINGERPRINTS = {"meta.json", "errors.json", "manifest.json"}


def norm(s) -> str:
    s = f"{s}"
    s = s.replace(BASE, "<BASE>")
    s = RE_RUN.sub("<RUN>", s)
    s = RE_TS.sub("<TS>", s)
    s = RE_CTIME.sub("<TS>", s)
    s = RE_UUID.sub("<UUID>", s)
    s = RE_ADDR.sub("0x?", s)
    return s


def last_line_of(trace):
    if trace is None:
        return None
    ls = [_ for _ in f"{trace}".split("\n") if _.strip() != ""]
    return ls[-1] if ls else ""


def norm_json(o, key=None):
    if isinstance(o, dict):
        out = {}
        for k, v in o.items():
            if k in VOLATILE_KEYS:
                out[k] = "<N>" if v is not None else None
            elif k == "trace":
                out[k] = last_line_of(v)
            elif k == "file_fingerprints" and isinstance(v, dict):
                out[k] = {
                    kk: ("<FP>" if kk in VOLATILE_FINGERPRINTS else vv)
                    for kk, vv in v.items()
                }
            else:
                out[k] = norm_json(v, k)
        return out
    if isinstance(o, list):
        return [norm_json(_) for _ in o]
    return o


def say(*args):
    print(norm(" ".join(f"{a}" for a in args)))
    sys.stdout.flush()


def exc_str(e):
    s = f"{type(e).__name__}: {e}"
    c = e.__cause__
    if c is not None:
        s = f"{s} <- cause {type(c).__name__}: {c}"
    return s


# ---------------------------------------------------------------- environment


def fresh(name, policy="raise"):
    d = os.path.join(WORK, name)
    if os.path.exists(d):
        shutil.rmtree(d)
    os.makedirs(os.path.join(d, "config"))
    cpol, cspol = POLICIES[policy]
    with open(os.path.join(d, "config", "config.ini"), "w", encoding="utf-8") as f:
        f.write(CONFIG % {"csvpath_policy": cpol, "csvpaths_policy": cspol})
    with open(os.path.join(d, "config", "functions.imports"), "w") as f:
        f.write("")
    for k, v in FILES.items():
        with open(os.path.join(d, f"{k}.csv"), "w", encoding="utf-8", newline="") as f:
            f.write(v)
    os.chdir(d)
    return d


def run_key(name):
    m = re.match(r"(\d{4}-\d\d-\d\d_\d\d-\d\d-\d\d)(?:\.(\d+))?$", name)
    if not m:
        return (name, -2)
    return (m.group(1), int(m.group(2)) if m.group(2) is not None else -1)


def dump_tree(root):
    """listing + contents of an archive-like tree. run dirs are renamed RUN#n in
    chronological order."""
    if not os.path.exists(root):
        say(f"  [{root}: does not exist]")
        return

    def walk(d, shown):
        names = os.listdir(d)
        runs = [n for n in names if RE_RUN.fullmatch(n)]
        others = sorted(n for n in names if n not in runs)
        runs.sort(key=run_key)
        ordered = [(n, n) for n in others] + [
            (n, f"RUN#{i+1}") for i, n in enumerate(runs)
        ]
        for n, label in ordered:
            p = os.path.join(d, n)
            sp = f"{shown}/{label}"
            if os.path.isdir(p):
                say(f"  DIR  {sp}")
                walk(p, sp)
            else:
                say(f"  FILE {sp} ({'empty' if os.path.getsize(p)==0 else 'non-empty'})")
                dump_file(p)

    walk(root, root)


def dump_file(p):
    with open(p, "r", encoding="utf-8") as f:
        txt = f.read()
    if p.endswith(".json"):
        try:
            j = json.loads(txt)
            txt = json.dumps(norm_json(j), indent=1)
        except Exception as e:  # pylint: disable=W0718
            txt = f"<<unparseable json {type(e).__name__}>>\n{txt}"
    for line in txt.split("\n"):
        say(f"      | {line}")


# ---------------------------------------------------------------- dumping state


def err_dict(e):
    return {
        "line_count": e.line_count,
        "match_count": e.match_count,
        "scan_count": e.scan_count,
        "error": f"{type(e.error).__name__}: {e.error}",
        "message": e.message,
        "json": e.json,
        "datum": e.datum,
        "filename": e.filename,
        "trace_last": last_line_of(e.trace),
        "source": type(e.source).__name__,
    }


def lines_of(container):
    if container is None:
        return None
    if isinstance(container, list):
        return [list(_) if isinstance(_, list) else _ for _ in container]
    if hasattr(container, "next"):
        return [_ for _ in container.next()]
    return f"<{type(container).__name__}>"


def dump_csvpath(c, indent="    "):
    lm = c.line_monitor
    say(f"{indent}identity={c.identity!r} valid={c.is_valid} stopped={c.stopped} completed={safe(lambda: c.completed)}")
    say(
        f"{indent}scan_count={c.scan_count} match_count={c.match_count} advance_count={c.advance_count} "
        f"collecting={c.collecting} will_run={c.will_run} cwnm={c.collect_when_not_matched}"
    )
    say(
        f"{indent}line_monitor: phys_no={lm.physical_line_number} phys_count={lm.physical_line_count} "
        f"data_no={lm.data_line_number} data_count={lm.data_line_count} "
        f"end_no={lm.physical_end_line_number} end_count={lm.physical_end_line_count} "
        f"data_end_no={lm.data_end_line_number} data_end_count={lm.data_end_line_count}"
    )
    say(f"{indent}headers={c.headers}")
    say(f"{indent}variables={json.dumps(c.variables, default=str)}")
    say(f"{indent}metadata={json.dumps(c.metadata, default=str)}")
    say(f"{indent}unmatched={c.unmatched}")
    say(f"{indent}limit_collection_to={c.limit_collection_to}")
    say(f"{indent}run_started={'set' if c.run_started_at is not None else None}")
    if c.errors:
        for e in c.errors:
            say(f"{indent}csvpath error: {json.dumps(err_dict(e), default=str)}")
    else:
        say(f"{indent}csvpath errors={c.errors}")


def safe(fn):
    try:
        return fn()
    except Exception as e:  # pylint: disable=W0718
        return f"<{exc_str(e)}>"


def dump_results(cp, pathsname):
    try:
        rs = cp.results_manager.get_named_results(pathsname)
    except Exception as e:  # pylint: disable=W0718
        say(f"  no named results: {type(e).__name__}")
        return
    say(f"  {len(rs)} results; manager: valid={safe(lambda: cp.results_manager.is_valid(pathsname))} "
        f"has_errors={safe(lambda: cp.results_manager.has_errors(pathsname))} "
        f"n_errors={safe(lambda: cp.results_manager.get_number_of_errors(pathsname))} "
        f"has_lines={safe(lambda: cp.results_manager.has_lines(pathsname))}")
    say(f"  all variables={json.dumps(safe(lambda: cp.results_manager.get_variables(pathsname)), default=str)}")
    for i, r in enumerate(rs):
        say(f"  result[{i}] run_index={r.run_index} identity_or_index={r.identity_or_index!r} by_line={r.by_line} "
            f"file_name={r.file_name} paths_name={r.paths_name} run_dir={r.run_dir}")
        say(f"    result.is_valid={r.is_valid} has_errors={r.has_errors()} errors_count={r.errors_count} "
            f"lines_printed={r.lines_printed} last_line={r.last_line!r}")
        say(f"    lines={safe(lambda: lines_of(r.lines))}")
        say(f"    len={safe(lambda: len(r))}")
        say(f"    unmatched={r.unmatched}")
        say(f"    printouts={json.dumps(r.get_printouts())}")
        for e in r.errors:
            say(f"    result error: {json.dumps(err_dict(e), default=str)}")
        dump_csvpath(r.csvpath, indent="    . ")
    say(f"  csvpaths.errors={[err_dict(e) for e in cp.errors]}")
    say(f"  coordination: stop_all={cp._stop_all} fail_all={cp._fail_all} skip_all={cp._skip_all} "
        f"advance_all={cp._advance_all} run_time={cp._current_run_time} run_time_str={cp._run_time_str}")


# ---------------------------------------------------------------- the runs


def new_paths(group, filekey):
    cp = CsvPaths()
    cp.file_manager.add_named_file(name=filekey, path=f"{filekey}.csv")
    cp.paths_manager.add_named_paths(name="grp", paths=[POOL[g] for g in group])
    return cp


def standalone(member, filekey, method):
    say(f"--- standalone {member} on {filekey} via {method}")
    path = POOL[member]
    i = path.find("$") + 1
    path = f"{path[:i]}{filekey}.csv{path[i:]}"
    c = CsvPath()
    try:
        c.parse(path)
        if method == "collect":
            say(f"  returned={c.collect()}")
        elif method == "fast_forward":
            say(f"  returned={c.fast_forward()}")
        elif method == "next":
            out = []
            for line in c.next():
                out.append(list(line))
            say(f"  yielded={out}")
        elif method == "collect2":
            say(f"  returned={c.collect(nexts=2)}")
    except Exception as e:  # pylint: disable=W0718
        say(f"  EXCEPTION {exc_str(e)}")
    dump_csvpath(c, indent="  . ")


SERIAL = ["collect_paths", "fast_forward_paths", "next_paths", "next_paths_collect"]
BREADTH = [
    ("collect_by_line", {}),
    ("collect_by_line", {"if_all_agree": True}),
    ("collect_by_line", {"collect_when_not_matched": True}),
    ("collect_by_line", {"if_all_agree": True, "collect_when_not_matched": True}),
    ("fast_forward_by_line", {}),
    ("fast_forward_by_line", {"if_all_agree": True}),
    ("next_by_line", {}),
    ("next_by_line", {"collect": True, "if_all_agree": True}),
]


def invoke(cp, method, filekey, kw):
    if method == "collect_paths":
        return cp.collect_paths(pathsname="grp", filename=filekey)
    if method == "fast_forward_paths":
        return cp.fast_forward_paths(pathsname="grp", filename=filekey)
    if method == "next_paths":
        return [list(_) for _ in cp.next_paths(pathsname="grp", filename=filekey)]
    if method == "next_paths_collect":
        return [
            list(_)
            for _ in cp.next_paths(pathsname="grp", filename=filekey, collect=True)
        ]
    if method == "collect_by_line":
        return cp.collect_by_line(pathsname="grp", filename=filekey, **kw)
    if method == "fast_forward_by_line":
        return cp.fast_forward_by_line(pathsname="grp", filename=filekey, **kw)
    if method == "next_by_line":
        return [
            list(_) for _ in cp.next_by_line(pathsname="grp", filename=filekey, **kw)
        ]
    raise ValueError(method)


def group_run(tag, group, filekey, method, kw=None, policy="raise", archive=True):
    kw = kw or {}
    say(f"=== [{tag}] group={group} file={filekey} method={method} kw={kw} policy={policy}")
    fresh(tag, policy)
    cp = None
    try:
        cp = new_paths(group, filekey)
        ret = invoke(cp, method, filekey, kw)
        say(f"  returned={ret}")
    except Exception as e:  # pylint: disable=W0718
        say(f"  EXCEPTION {exc_str(e)}")
    if cp is not None:
        dump_results(cp, "grp")
    if archive:
        dump_tree("archive")
    os.chdir(BASE)


def section(title):
    say("")
    say("#" * 100)
    say(f"# {title}")
    say("#" * 100)


def main():
    if os.path.exists(WORK):
        shutil.rmtree(WORK)
    os.makedirs(WORK)
    n = 0

    section("1. every pool member standalone on every file")
    fresh("standalone")
    for filekey in FILES:
        for member in POOL:
            for method in ["collect", "next", "fast_forward", "collect2"]:
                if method == "collect2" and filekey not in ("plain", "blanks"):
                    continue
                standalone(member, filekey, method)
    os.chdir(BASE)

    section("2. groups, all files, serial and breadth-first, shipped (raise) policy")
    for gi, group in enumerate(GROUPS):
        for filekey in FILES:
            for method in SERIAL:
                n += 1
                group_run(
                    f"s{n}", group, filekey, method,
                    archive=(filekey in ("blanks", "empty")),
                )
            for method, kw in BREADTH:
                n += 1
                group_run(
                    f"b{n}", group, filekey, method, kw,
                    archive=(filekey in ("blanks", "empty")),
                )

    section("3. error groups under both policies")
    for policy in ("raise", "quiet"):
        for group in ERROR_GROUPS:
            for filekey in ("plain", "ragged", "blanks"):
                for method in SERIAL:
                    n += 1
                    group_run(f"e{n}", group, filekey, method, policy=policy)
                for method, kw in BREADTH[:2] + BREADTH[4:5] + BREADTH[6:]:
                    n += 1
                    group_run(f"e{n}", group, filekey, method, kw, policy=policy)

    section("4. quiet policy on ordinary groups")
    for group in GROUPS[3:6] + GROUPS[9:10]:
        for filekey in ("ragged", "empties"):
            for method in SERIAL[:2]:
                n += 1
                group_run(f"q{n}", group, filekey, method, policy="quiet")
            for method, kw in BREADTH[:2]:
                n += 1
                group_run(f"q{n}", group, filekey, method, kw, policy="quiet")

    section("5. cross-path signals (outside the property; same code)")
    for group in SIGNAL_GROUPS:
        for filekey in ("plain", "blanks"):
            for method in SERIAL:
                n += 1
                group_run(f"x{n}", group, filekey, method)
            for method, kw in BREADTH:
                n += 1
                group_run(f"x{n}", group, filekey, method, kw)

    section("6. input errors: unknown names, empty group")
    fresh("inputs")
    cp = CsvPaths()
    cp.file_manager.add_named_file(name="plain", path="plain.csv")
    cp.paths_manager.add_named_paths(name="grp", paths=[POOL["yes"]])
    calls = [
        ("collect_paths", lambda: cp.collect_paths(pathsname="nope", filename="plain")),
        ("collect_paths", lambda: cp.collect_paths(pathsname="grp", filename="nope")),
        ("fast_forward_paths", lambda: cp.fast_forward_paths(pathsname="nope", filename="plain")),
        ("fast_forward_paths", lambda: cp.fast_forward_paths(pathsname="grp", filename="nope")),
        ("next_paths", lambda: list(cp.next_paths(pathsname="nope", filename="plain"))),
        ("next_paths", lambda: list(cp.next_paths(pathsname="grp", filename="nope"))),
        ("collect_by_line", lambda: cp.collect_by_line(pathsname="nope", filename="plain")),
        ("collect_by_line", lambda: cp.collect_by_line(pathsname="grp", filename="nope")),
        ("fast_forward_by_line", lambda: cp.fast_forward_by_line(pathsname="nope", filename="plain")),
        ("next_by_line", lambda: list(cp.next_by_line(pathsname="grp", filename="nope"))),
    ]
    for name, call in calls:
        try:
            say(f"--- {name}: returned {call()}")
        except Exception as e:  # pylint: disable=W0718
            say(f"--- {name}: EXCEPTION {exc_str(e)}")
        say(f"    coordination: stop_all={cp._stop_all} fail_all={cp._fail_all} skip_all={cp._skip_all} "
            f"advance_all={cp._advance_all} run_time={cp._current_run_time} run_time_str={cp._run_time_str}")
    dump_tree("archive")
    os.chdir(BASE)

    section("7. repeated runs on one CsvPaths instance, mixed schedules, one archive")
    fresh("repeat")
    cp = CsvPaths()
    cp.file_manager.add_named_file(name="blanks", path="blanks.csv")
    cp.file_manager.add_named_file(name="ragged", path="ragged.csv")
    cp.paths_manager.add_named_paths(
        name="grp", paths=[POOL["cnt"], POOL["um"], POOL["zero"], POOL["col"]]
    )
    seq = [
        ("collect_paths", "blanks", {}),
        ("collect_by_line", "blanks", {}),
        ("fast_forward_paths", "ragged", {}),
        ("fast_forward_by_line", "ragged", {"if_all_agree": True}),
        ("next_paths_collect", "blanks", {}),
        ("next_by_line", "blanks", {"collect": True}),
        ("collect_paths", "blanks", {}),
    ]
    for method, filekey, kw in seq:
        say(f"=== repeat: {method} {filekey} {kw}")
        try:
            say(f"  returned={invoke(cp, method, filekey, kw)}")
        except Exception as e:  # pylint: disable=W0718
            say(f"  EXCEPTION {exc_str(e)}")
        dump_results(cp, "grp")
    dump_tree("archive")
    os.chdir(BASE)

    section("8. abandoned generators (caller stops iterating early)")
    for method, kw in [("next_paths", {}), ("next_by_line", {"collect": True})]:
        fresh("abandon")
        cp = new_paths(["cnt", "zero"], "plain")
        say(f"=== abandon {method}")
        try:
            if method == "next_paths":
                gen = cp.next_paths(pathsname="grp", filename="plain", collect=True)
            else:
                gen = cp.next_by_line(pathsname="grp", filename="plain", **kw)
            got = []
            for line in gen:
                got.append(list(line))
                if len(got) == 2:
                    break
            gen.close()
            say(f"  got={got}")
        except Exception as e:  # pylint: disable=W0718
            say(f"  EXCEPTION {exc_str(e)}")
        dump_results(cp, "grp")
        dump_tree("archive")
        os.chdir(BASE)

    section("9. non-default CsvPaths settings")
    for kwargs in [
        {"skip_blank_lines": False},
        {"print_default": False},
        {"delimiter": ";", "quotechar": "'"},
    ]:
        for method, kw in [("collect_paths", {}), ("collect_by_line", {}), ("collect_by_line", {"if_all_agree": True})]:
            fresh("settings")
            say(f"=== settings {kwargs} {method} {kw}")
            try:
                cp = CsvPaths(**kwargs)
                cp.file_manager.add_named_file(name="blanks", path="blanks.csv")
                cp.paths_manager.add_named_paths(
                    name="grp", paths=[POOL["cnt"], POOL["um"], POOL["last"]]
                )
                say(f"  returned={invoke(cp, method, 'blanks', kw)}")
            except Exception as e:  # pylint: disable=W0718
                say(f"  EXCEPTION {exc_str(e)}")
            dump_results(cp, "grp")
            dump_tree("archive")
            os.chdir(BASE)

    shutil.rmtree(WORK)
    say("")
    say(f"done: {n} group runs")


if __name__ == "__main__":
    main()
