"""differential demonstration for refactoring t3: CsvPath.parse / _find_scan_and_match_parts / _update_file_path (csvpath.py).

run it in an empty scratch directory (it writes config/, f.csv, q.csv,
archive/, logs/ ... into the cwd):

    mkdir /tmp/demo && cd /tmp/demo
    PYTHONPATH=<csvpath checkout> /venv/bin/python demo.py > out.txt

the transcript on stdout is deterministic: run directory timestamps, uuids,
object addresses and the cwd are normalised, and the script re-executes itself
with PYTHONHASHSEED=0 so that set orderings cannot differ between two runs.
"""
import os
import re
import sys
import shutil
import traceback

CONFIG_INI = """[csvpath_files]
extensions = txt, csvpath, csvpaths

[csv_files]
extensions = txt, csv, tsv, dat, tab, psv, ssv

[errors]
csvpath = raise, collect, stop, fail, print
csvpaths = raise, collect

[logging]
csvpath = info
csvpaths = info
log_file = logs/csvpath.log
log_files_to_keep = 100
log_file_size = 52428800

[config]
path = config/config.ini

[cache]
path = cache

[listeners]
[marquez]
base_url = http://localhost:5000

[functions]
imports = config/functions.imports

[results]
archive = archive
transfers = transfers

[inputs]
files = inputs/named_files
csvpaths = inputs/named_paths
on_unmatched_file_fingerprints = halt
"""

F_CSV = (
    "a,b,c\n"
    "1,x,10\n"
    "\n"
    "2,,20\n"
    "3,z\n"
    "0,y,0,extra\n"
    ",,\n"
    "-4,w,-1.5\n"
    "5,x,.5\n"
)

Q_CSV = (
    "first name,last.name,n-1\n"
    "Ada,Lovelace,1\n"
    "Alan,Turing,2\n"
    "\n"
    "Grace,,3\n"
)


def setup_env():
    """fresh, self-contained working directory content. we are run with cwd set
    to a scratch dir."""
    for d in ("archive", "cache", "logs", "inputs", "transfers", "config"):
        if os.path.exists(d):
            shutil.rmtree(d)
    os.makedirs("config")
    with open("config/config.ini", "w", encoding="utf-8") as f:
        f.write(CONFIG_INI)
    with open("config/functions.imports", "w", encoding="utf-8") as f:
        f.write("")
    with open("f.csv", "w", encoding="utf-8") as f:
        f.write(F_CSV)
    with open("q.csv", "w", encoding="utf-8") as f:
        f.write(Q_CSV)
    with open("empty.csv", "w", encoding="utf-8") as f:
        f.write("")


_CWD = os.getcwd()


def norm(s) -> str:
    s = f"{s}"
    s = s.replace(_CWD, "<CWD>")
    s = re.sub(r"0x[0-9a-fA-F]+", "<ADDR>", s)
    s = re.sub(r"\d{4}-\d{2}-\d{2}[ T_]\d{2}[-:]\d{2}[-:]\d{2}([._]\d+)?", "<TS>", s)
    s = re.sub(
        r"[A-Z][a-z]{2} [A-Z][a-z]{2} [ \d]\d \d{2}:\d{2}:\d{2} \d{4}", "<CTIME>", s
    )
    s = re.sub(
        r"[0-9a-f]{8}-[0-9a-f]{4}-[0-9a-f]{4}-[0-9a-f]{4}-[0-9a-f]{12}", "<UUID>", s
    )
    return stable(s)


def stable(msg: str) -> str:
    """lark lists the terminals it expected in set order, which changes from
    process to process. sort them."""
    marker = "Expected one of:"
    if marker not in msg:
        return msg
    head, tail = msg.split(marker, 1)
    items = sorted(re.findall(r"\* (\S+)", tail))
    others = [
        ln for ln in tail.split("\n") if ln.strip() != "" and not ln.strip().startswith("*")
    ]
    return head + marker + " " + ", ".join(items) + (" | " + " | ".join(others) if others else "")


def out(*args):
    print(*[norm(a) for a in args])


def show_exc(label, e):
    inner = getattr(e, "orig_exc", None)
    msg = norm(e).replace("\n", "\\n")
    if inner is not None:
        out(
            f"{label}: EXC {type(e).__name__} <- {type(inner).__name__}: "
            + norm(inner).replace("\n", "\\n")
        )
    else:
        out(f"{label}: EXC {type(e).__name__}: {msg}")


def dump(node, indent=0, parent=None, lines=None):
    """renders one match component and everything under it: kind, name,
    qualifiers, operator, literal value and type, argument order, and
    whether each child's parent pointer is the node that holds it."""
    top = lines is None
    if top:
        lines = []
    pad = "  " * indent
    if node is None:
        lines.append(f"{pad}None")
        return lines
    kind = type(node).__name__
    bits = [kind]
    if getattr(node, "name", None) is not None:
        bits.append(f"name={node.name!r}")
    qn = getattr(node, "qualified_name", None)
    if qn is not None:
        bits.append(f"qname={qn!r}")
    quals = getattr(node, "qualifiers", None)
    if quals:
        bits.append(f"quals={list(quals)!r}")
    if getattr(node, "qualifier", None) is not None:
        bits.append(f"qualifier={node.qualifier!r}")
    if kind == "Equality":
        bits.append(f"op={str(node.op)!r}:{type(node.op).__name__}")
    if kind == "Term":
        bits.append(f"value={node.value!r}:{type(node.value).__name__}")
    if parent is not None:
        bits.append("parent=holder" if node.parent is parent else "parent=OTHER")
    else:
        bits.append("parent=None" if node.parent is None else "parent=SET")
    lines.append(pad + " ".join(bits))
    for c in node.children:
        dump(c, indent + 1, node, lines)
    return lines


def tree_of(path_string):
    """the component tree of the match part of a whole csvpath string, made the
    way a match component asking for a parsed csvpath would make it."""
    from csvpath import CsvPath

    p = CsvPath()
    m = p.parse(path_string, disposably=True)
    lines = []
    for e, _ in m.expressions:
        lines.extend(dump(e))
    return lines, p


def run_path(label, path_string, *, method="collect"):
    from csvpath import CsvPath

    p = CsvPath()
    try:
        p.parse(path_string)
        if method == "collect":
            got = p.collect()
        elif method == "next":
            got = [ln for ln in p.next()]
        else:
            p.fast_forward()
            got = None
        out(f"{label}: lines={got!r}")
    except Exception as e:  # pylint: disable=W0718
        show_exc(f"{label}: run", e)
    out(f"{label}: scan={p.scan!r} match={p.match!r}")
    out(f"{label}: variables={dict(p.variables)!r}")
    errs = p.errors
    out(
        f"{label}: is_valid={p.is_valid} stopped={p.stopped} "
        f"errors={'None' if errs is None else len(errs)}"
    )
    for er in errs or []:
        out(f"{label}:   error: {type(er.error).__name__}: {er.message}")
    md = {k: v for k, v in p.metadata.items()}
    out(f"{label}: metadata={md!r}")
    return p


def show_tree(label, path_string):
    try:
        lines, _ = tree_of(path_string)
        for ln in lines:
            out(f"{label}:   {ln}")
        return lines
    except Exception as e:  # pylint: disable=W0718
        show_exc(f"{label}: parse", e)
        return None


def layouts_of(match_parts):
    """the same match components in several layouts. match_parts is a list of
    component strings. comments only ever go between components."""
    yield "tight", "[" + " ".join(match_parts) + "]"
    yield "spaced", "[   " + "     ".join(match_parts) + "   ]"
    yield "newlines", "[\n" + "\n\n\t".join(match_parts) + "\n]"
    yield "comments", "[ ~ lead ~ " + " ~c~ ".join(match_parts) + " ~ tail\n more ~ ]"
    yield "crlf", "[\r\n" + "\r\n".join(match_parts) + "\r\n]"


def listing(root):
    if not os.path.exists(root):
        out(f"listing {root}: (absent)")
        return
    for dirpath, dirnames, filenames in os.walk(root):
        dirnames.sort()
        for fn in sorted(filenames):
            full = os.path.join(dirpath, fn)
            out(f"listing: {norm(full)} size={os.path.getsize(full)}")


FUNCTION_NAMES = None


def function_names():
    """every function name the factory's big if/elif knows, read from the
    factory source, in source order."""
    global FUNCTION_NAMES
    if FUNCTION_NAMES is None:
        import csvpath.matching.functions.function_factory as ff

        with open(ff.__file__, "r", encoding="utf-8") as f:
            src = f.read()
        start = src.find("def get_function(")
        src = src[start:]
        names = []
        for m in re.finditer(r"name (?:==|in) (\"[a-z_0-9]+\"|\[[^\]]*\])", src):
            for n in re.findall(r"\"([a-z_0-9]+)\"", m.group(1)):
                if n not in names:
                    names.append(n)
        FUNCTION_NAMES = names
    return FUNCTION_NAMES

# name, file, match components (each one a whole match component)
CATALOGUE = [
    ("yes", "f.csv", ["yes()"]),
    ("header-exists", "f.csv", ["#b"]),
    ("header-eq-string", "f.csv", ['#b == "x"']),
    ("header-eq-int", "f.csv", ["#a == 3"]),
    ("header-eq-zero", "f.csv", ["#c == 0"]),
    ("header-eq-neg-decimal", "f.csv", ["#c == -1.5"]),
    ("header-eq-dot5", "f.csv", ["#c == .5"]),
    ("header-eq-plus", "f.csv", ["#a == +5"]),
    ("index-header", "f.csv", ['#1 == "z"']),
    ("two-components", "f.csv", ["#a", '#b == "x"']),
    ("assign-int", "f.csv", ["@n = 0", "yes()"]),
    ("assign-header", "f.csv", ["@last = #a"]),
    ("assign-func", "f.csv", ["@cnt = count()", "@cl = count_lines()"]),
    ("assign-qualified", "f.csv", ["@b.onchange = #b", "@first.latch = #a"]),
    ("var-notnone", "f.csv", ["@v.notnone = #b"]),
    ("when-func", "f.csv", ['#b == "x" -> @hit = count_lines()']),
    ("when-print", "f.csv", ['#a == 3 -> print("three at $.csvpath.line_number")']),
    ("when-left-func", "f.csv", ['not(#b) -> @nob = line_number()']),
    ("when-header", "f.csv", ["#b -> @hasb = #b"]),
    ("when-var", "f.csv", ["@seen = #a", "@seen -> @again = @seen"]),
    ("nested-funcs", "f.csv", ['or(#b == "x", and(#a == 3, not(#c)))']),
    ("nested-4", "f.csv", ['not(not(not(in(#b, "x|y"))))']),
    ("func-qualified", "f.csv", ["count.mine.onmatch()", '#b == "x"']),
    ("func-args-mixed", "f.csv", ['@s = concat(#a, "-", @n, 7, -1.5, lower(#b))', "@n = 1"]),
    ("regex", "f.csv", ["regex(#b, /^[x-z]$/)"]),
    ("regex-escaped", "f.csv", [r"regex(#c, /^\d+$/)"]),
    ("regex-slash", "f.csv", [r"regex(#b, /x\/?/)"]),
    ("equality-as-arg", "f.csv", ['@t = any(#a == 2, #b == "z")']),
    ("equality-both-funcs", "f.csv", ["length(#b) == count(#a)"]),
    ("header-eq-header", "f.csv", ["#a == #c"]),
    ("var-eq-term", "f.csv", ["@x = #a", "@x == 2"]),
    ("string-with-specials", "f.csv", ['@s = "a ~ [b] -> c == d, #e @f $g /h/ (i)"']),
    ("empty-string", "f.csv", ['@e = ""', '#b == ""']),
    ("string-spaces", "f.csv", ['@sp = "  padded  "']),
    ("quoted-header", "q.csv", ['#"first name" == "Ada"']),
    ("quoted-header-assign", "q.csv", ['@fn = #"first name"', '@ln = #"last.name"']),
    ("dashed-header", "q.csv", ["@n = #n-1"]),
    ("dotted-header-as-qualifier", "q.csv", ["@ln = #last.name"]),
    ("header-asbool", "f.csv", ["#a.asbool"]),
    ("header-nocontrib", "f.csv", ["#b.nocontrib", "#a == 3"]),
    ("reference-assign", "f.csv", ["@w = $paths.variables.total"]),
    ("reference-right-eq", "f.csv", ["#a == $paths.variables.total.tracked"]),
    ("reference-when", "f.csv", ["$paths.headers.a -> @x = 1"]),
    ("reference-arg", "f.csv", ["@x = add($paths.variables.total, 1)"]),
    ("reference-local-bad", "f.csv", ["@v = #a", "@w = $.variables.v"]),
    ("stack-funcs", "f.csv", ["push(\"bs\", #b)", "@sz = size(\"bs\")"]),
    ("tracking-var", "f.csv", ["@seen.b = #b", "tally(#b)"]),
    ("skip-stop", "f.csv", ["#a == 3 -> stop()"]),
    ("fail", "f.csv", ["#a == 0 -> fail()"]),
    ("advance", "f.csv", ["#a == 1 -> advance(2)", "@ln = line_number()"]),
    ("last", "f.csv", ["last() -> @total = count_lines()"]),
    ("empty-file", "empty.csv", ["yes()"]),
    ("comment-only", "f.csv", ["~ nothing here ~"]),
]

SCANS = ["[*]", "[1-3]", "[2*]", "[1+3+5]", "[0]"]


def section_catalogue(scans=("[*]",), methods=("collect",)):
    out("=" * 20, "catalogue: trees and runs in every layout")
    for name, fname, parts in CATALOGUE:
        out("-" * 10, name, parts)
        base_tree = None
        base_run = None
        for lname, match in layouts_of(parts):
            path = f"${fname}[*]{match}"
            label = f"{name}/{lname}"
            lines = show_tree(label, path) if base_tree is None else None
            if base_tree is None:
                base_tree = lines
            else:
                try:
                    lines, _ = tree_of(path)
                    same = lines == base_tree
                    out(f"{label}: tree same as first layout: {same}")
                    if not same:
                        for ln in lines:
                            out(f"{label}:   {ln}")
                except Exception as e:  # pylint: disable=W0718
                    show_exc(f"{label}: parse", e)
            for scan in scans:
                for method in methods:
                    run_path(f"{label}/{scan}/{method}", f"${fname}{scan}{match}", method=method)


def section_outer_comments():
    out("=" * 20, "outer comments without mode settings")
    bodies = [
        ('$f.csv[*][#b == "x" -> @hit = count_lines()]'),
        ('$q.csv[1*][@fn = #"first name" #n-1 == 2]'),
    ]
    wraps = [
        ("none", "{}"),
        ("before", "~ just a note ~ {}"),
        ("before-nl", "~ just\n a note ~\n\n{}"),
        ("after", "{} ~ trailing note ~"),
        ("both", "~ id: named description: has a description ~\n{}\n~ the end ~"),
        ("padded", "   \n\t{}  \n "),
    ]
    for b in bodies:
        for wname, w in wraps:
            path = w.format(b)
            label = f"outer/{wname}"
            show_tree(label, path)
            run_path(label, path)


def section_all_functions():
    out("=" * 20, "every factory function name with 0..3 arguments: tree or error")
    arglists = ["", "#a", '#a, "x"', '#a, "x", 3', "@v.onmatch, -1.5, /z+/, #1, count()"]
    for fn in function_names():
        for al in arglists:
            for layout in ("{fn}({al})", "{fn} (  {al_sp}  )"):
                al_sp = al.replace(", ", "\n ,   ")
                comp = layout.format(fn=fn, al=al, al_sp=al_sp)
                show_tree(f"fn/{comp!r}", f"$f.csv[*][{comp}]")


def section_bad_paths():
    out("=" * 20, "paths that must not parse, or that parse oddly")
    bad = [
        None,
        17,
        "",
        "   ",
        "$f.csv",
        "$f.csv[*]",
        "$f.csv[*]   ",
        "$f.csv[*] yes()",
        "$f.csv[*][yes()",
        "$f.csv[*][yes()] trailing",
        "$f.csv[*][]",
        "$f.csv[*][ ]",
        "$f.csv[*][nosuchfunction()]",
        "$f.csv[*][yes(]",
        "$f.csv[*][#a ==]",
        "$f.csv[*][== 3]",
        "$f.csv[*][#a == ~c~ 3]",
        "$f.csv[*][@x = ]",
        "$f.csv[*][#a -> ]",
        "$f.csv[*][#a == 3 -> #b]",
        "$f.csv[*][yes() no()]",
        "$f.csv[*][yes(),no()]",
        "$f.csv[*][#a == 1e3]",
        "$f.csv[*][#a == 1.2.3]",
        "$f.csv[*][#a == --1]",
        '$f.csv[*][#"unterminated == 3]',
        '$f.csv[*][@s = "unterminated]',
        "$f.csv[*][~ unterminated comment]",
        "$f.csv[*][regex(#a, /unterminated)]",
        "$f.csv[*][#]",
        "$f.csv[*][@]",
        "$f.csv[*][@. = 1]",
        "$f.csv[*][@.x = 1]",
        "$f.csv[*][@x. = 1]",
        "$f.csv[*][@x..y = 1]",
        "$f.csv[*][#a.]",
        "f.csv[*][yes()]",
        "$[*][yes()]",
        "$nosuchfile.csv[*][yes()]",
        "$f.csv[*][yes()][no()]",
        "$f.csv[*]][yes()]",
        "$f.csv[[*]][yes()]",
        "~ only a comment ~",
        "$f.csv[*][@a[0] = 1]",
        '$f.csv[*][@s = "]"]',
        '$f.csv[*][print("a ] b")]',
    ]
    for i, b in enumerate(bad):
        label = f"bad/{i}/{b!r}"
        show_tree(label, b)
        run_path(label, b)


def section_repeats():
    out("=" * 20, "repeated parses and runs")
    from csvpath import CsvPath

    path = '$f.csv[*][ @c = count() ~x~ #b == "x" ]'
    for i in range(3):
        run_path(f"repeat/fresh/{i}", path)
    p = CsvPath()
    for i in range(2):
        try:
            p.parse(path)
            out(f"repeat/same/{i}: lines={p.collect()!r} vars={dict(p.variables)!r}")
        except Exception as e:  # pylint: disable=W0718
            show_exc(f"repeat/same/{i}", e)
    p = CsvPath()
    m1 = p.parse(path, disposably=True)
    m2 = p.parse(path, disposably=True)
    out("repeat/disposable: distinct matchers:", m1 is not m2, "scan:", p.scan, "scanner:", p.scanner, "match:", p.match)
    out("repeat/disposable: same trees:", [dump(e) for e, _ in m1.expressions] == [dump(e) for e, _ in m2.expressions])


SPLIT_INPUTS = [
    None, 0, 17, 1.5, True, b"$f.csv[*][yes()]", ["$f.csv[*][yes()]"], ("a",), {},
    "", " ", "\n\t ", "$", "$f.csv", "[", "]", "[]", "][", "]]", "[[", "[][]", "[] []", " [ ] [ ] ",
    "$f.csv[*]", "$f.csv[*] ", "$f.csv[*]\n", "$f.csv[*][", "$f.csv[*]]", "$f.csv[*][]", "$f.csv[*] []",
    "$f.csv[*]x[]", "$f.csv[*][]x", "$f.csv[*] x", "$f.csv[*][yes()]", "  $f.csv[*][yes()]  ",
    "\n$f.csv[*]\n[yes()]\n", "$f.csv[*]\t\t[yes()]", "$f.csv[*]\r\n[\r\nyes()\r\n]\r\n",
    "$f.csv[ * ][yes()]", "$f.csv [*] [yes()]", "$f.csv[*][yes()] trailing", "$f.csv[*][yes()] ]",
    "$f.csv[*][yes()][no()]", "$f.csv[*]][yes()]", "$f.csv[[*]][yes()]", "$f.csv[1-3][#a == \"]\"]",
    "$f.csv[*][print(\"[x]\")]", "$f.csv[*][ ~ ] ~ yes() ]", "$[*][yes()]", "$ [*] [ yes() ]",
    "f.csv[*][yes()]", "[*][yes()]", "*][yes()]", "$f.csv[*][y]es()", "$f.csv[*][é]", "$f.csv[*] [yes()]",
    "$f.csv[*] [ yes() ] ", "$f.csv[*][ ]", "$f.csv[*][\n]",
]


def section_split_direct():
    out("=" * 20, "CsvPath._find_scan_and_match_parts called directly")
    from csvpath import CsvPath

    for i, data in enumerate(SPLIT_INPUTS):
        p = CsvPath()
        try:
            r = p._find_scan_and_match_parts(data)
            out(f"split/{i}/{data!r} -> {r!r} types={[type(x).__name__ for x in r]}")
        except Exception as e:  # pylint: disable=W0718
            show_exc(f"split/{i}/{data!r}", e)
        out(f"split/{i}: scan={p.scan!r} match={p.match!r} scanner={p.scanner!r}")

    out("--- saving the parts")
    os.makedirs("saved/scan", exist_ok=True)
    os.makedirs("saved/match", exist_ok=True)
    for i, (sd, md, rn) in enumerate(
        [
            ("saved/scan", "saved/match", "both"),
            ("saved/scan", None, "scanonly"),
            (None, "saved/match", "matchonly"),
            ("saved/scan", "saved/match", None),
            ("saved/scan", "saved/match", ""),
            ("", "", "emptydirs"),
        ]
    ):
        for j, data in enumerate(["  $f.csv[1*]\n\n [ yes()\n ~c~ ]  ", "$f.csv[*]", "$f.csv[*] x]", "$f.csv[*] [x"]):
            p = CsvPath()
            p._save_scan_dir = sd
            p._save_match_dir = md
            p._run_name = f"{rn}{j}" if rn else rn
            try:
                out(f"save/{i}/{j} -> {p._find_scan_and_match_parts(data)!r}")
            except Exception as e:  # pylint: disable=W0718
                show_exc(f"save/{i}/{j}", e)
    for dirpath, dirnames, filenames in os.walk("saved"):
        dirnames.sort()
        for fn in sorted(filenames):
            with open(os.path.join(dirpath, fn), "r", encoding="utf-8") as f:
                out(f"saved file {os.path.join(dirpath, fn)}: {f.read()!r}")


def state_of(p):
    sc = p.scanner
    return (
        f"scan={p.scan!r} match={p.match!r} scanner={'None' if sc is None else type(sc).__name__} "
        f"filename={None if sc is None else sc.filename!r} headers={p.headers!r} "
        f"total_lines={p.line_monitor.physical_end_line_number if p.line_monitor else None} "
        f"matcher={'None' if p.matcher is None else 'set'} identity={p.identity!r}"
    )


def section_parse_modes():
    out("=" * 20, "CsvPath.parse, disposably and not")
    from csvpath import CsvPath

    paths = [
        '$f.csv[*][#b == "x"]',
        '~ id: p1 ~ $f.csv[1-2][ @a = #a ~c~ yes() ]',
        "$q.csv[*][#\"first name\"]",
        "$empty.csv[*][yes()]",
        "$nosuch.csv[*][yes()]",
        "$[*][yes()]",
        "$f.csv[*][nosuchfunction()]",
        "$f.csv[*][yes()",
        "$f.csv[x][yes()]",
        "$f.csv[*]",
        "",
        None,
        "~ only ~",
        "~ validation-mode: no-raise, no-print ~ $f.csv[*][add(\"a\")]",
    ]
    for i, path in enumerate(paths):
        for disposably in (True, False, 1, 0, "yes", "", None):
            p = CsvPath()
            label = f"parse/{i}/{disposably!r}"
            try:
                r = p.parse(path, disposably=disposably)
                if r is p:
                    out(f"{label}: returned self")
                elif r is None:
                    out(f"{label}: returned None")
                else:
                    out(f"{label}: returned {type(r).__name__} csvpath-is-p={r.csvpath is p} line={r.line!r}")
                    for e, _ in r.expressions:
                        for ln in dump(e):
                            out(f"{label}:   {ln}")
            except Exception as e:  # pylint: disable=W0718
                show_exc(label, e)
            try:
                out(f"{label}: {state_of(p)}")
            except Exception as e:  # pylint: disable=W0718
                show_exc(f"{label}: state", e)
    out("--- disposable parse on an instance that already ran")
    p = CsvPath()
    p.parse('$f.csv[*][#b == "x"]')
    out("first:", p.collect(), state_of(p))
    m = p.parse("$q.csv[1][no()]", disposably=True)
    out("after disposable:", type(m).__name__, state_of(p))
    try:
        m = p.parse("$q.csv[1][no(]", disposably=True)
    except Exception as e:  # pylint: disable=W0718
        show_exc("bad disposable", e)
    out("after bad disposable:", state_of(p))


def read_norm(path):
    import json

    with open(path, "r", encoding="utf-8") as f:
        txt = f.read()
    if path.endswith(".json"):
        try:
            j = json.loads(txt)
        except Exception:  # pylint: disable=W0718
            return norm(txt)

        def scrub_fingerprints(o):
            # errors.json, meta.json and manifest.json hold times and uuids so
            # their fingerprints are different in every run
            if not isinstance(o, dict):
                return o
            return {
                k: ("<SCRUBBED>" if k in ("errors.json", "meta.json", "manifest.json") else v)
                for k, v in o.items()
            }

        def scrub(o):
            if isinstance(o, dict):
                return {
                    k: (
                        "<SCRUBBED>"
                        if k in ("trace", "uuid", "uuid_string", "hostname", "ip_address", "username", "time", "at", "run_started_at", "time_completed", "time_started", "last_change", "manifest_path", "instance_home", "run_home")
                        or k.endswith("_time") or k.endswith("_at") or "uuid" in k
                        else scrub_fingerprints(v) if k == "file_fingerprints"
                        else scrub(v)
                    )
                    for k, v in o.items()
                }
            if isinstance(o, list):
                return [scrub(x) for x in o]
            return o

        return norm(json.dumps(scrub(j), sort_keys=True))
    return norm(txt)


def show_archive(root="archive"):
    if not os.path.exists(root):
        out(f"{root}: (absent)")
        return
    for dirpath, dirnames, filenames in os.walk(root):
        dirnames.sort()
        for fn in sorted(filenames):
            full = os.path.join(dirpath, fn)
            try:
                out(f"archive file {norm(full)}: {read_norm(full)}")
            except Exception as e:  # pylint: disable=W0718
                show_exc(f"archive file {norm(full)}", e)


def lines_of(r):
    ls = r.lines
    if ls is None:
        return None
    if isinstance(ls, list):
        return list(ls)
    try:
        return [ln for ln in ls.next()]
    except Exception as e:  # pylint: disable=W0718
        return f"<{type(e).__name__}: {e}>"


def printouts_of(r):
    po = r.printouts
    if isinstance(po, dict):
        return {k: list(v) for k, v in po.items()}
    return po


def section_csvpaths():
    out("=" * 20, "CsvPaths: named files, named paths, archive")
    from csvpath import CsvPaths, CsvPath

    cp = CsvPaths()
    cp.file_manager.add_named_file(name="f", path="f.csv")
    cp.file_manager.add_named_file(name="people", path="q.csv")
    groups = {
        "tight": ['$[*][#b == "x" -> @hit = count_lines()]', '~id:two~ $[*][#a=="3"]'],
        "loose": [
            '\n  $[*]\n  [\n  #b == "x"\n   ->   @hit = count_lines()\n ~ a comment ~ ]\n',
            '~ id:two ~\n$[*]  [ ~c~ #a=="3" ~c~ ]  ~ after ~',
        ],
        "named-in-path": ['$f[1*][@n = count()]', "~ id: q ~ $people[*][@fn = #\"first name\"]"],
        "broken": ["$[*][yes()", "~ id: ok ~ $[*][yes()]"],
        "nomatch": ["$[*]"],
        "errors": ['~ id: adds ~ $[*][@s = add("a", #a)]'],
    }
    for name, paths in groups.items():
        try:
            cp.paths_manager.add_named_paths(name=name, paths=paths)
            out(f"added named-paths {name}")
        except Exception as e:  # pylint: disable=W0718
            show_exc(f"add named-paths {name}", e)

    out("--- _update_file_path and _get_name")
    inputs = [
        "$f[*][yes()]", "$people[*][yes()]", "$unknown[*][yes()]", "$[*][yes()]", "$f.csv[*][yes()]",
        "  $f[*][#f == \"f\"]", "$f", "f[*]", "", " ", None, "$f[*][print(\"$f f\")]", "$ff[*][yes()]",
    ]
    for with_paths in (True, False):
        for data in inputs:
            p = CsvPath()
            if with_paths:
                p.csvpaths = cp
            for fn in ("_update_file_path", "_get_name"):
                try:
                    out(f"{fn}(csvpaths={with_paths}, {data!r}) -> {getattr(p, fn)(data)!r}")
                except Exception as e:  # pylint: disable=W0718
                    show_exc(f"{fn}(csvpaths={with_paths}, {data!r})", e)

    out("--- runs")
    for method in ("collect_paths", "fast_forward_paths", "next_paths", "collect_by_line", "fast_forward_by_line"):
        for name in groups:
            for fname in ("f", "people"):
                label = f"{method}/{name}/{fname}"
                try:
                    m = getattr(cp, method)
                    if method in ("next_paths", "next_by_line"):
                        got = [ln for ln in m(filename=fname, pathsname=name)]
                        out(f"{label}: yielded {got!r}")
                    else:
                        m(filename=fname, pathsname=name)
                except Exception as e:  # pylint: disable=W0718
                    show_exc(label, e)
                try:
                    results = cp.results_manager.get_named_results(name)
                    for r in results or []:
                        out(
                            f"{label}: result identity={r.csvpath.identity!r} lines={lines_of(r)!r} "
                            f"vars={dict(r.csvpath.variables)!r} valid={r.csvpath.is_valid} errors={r.errors_count} "
                            f"scan={r.csvpath.scan!r} match={r.csvpath.match!r} printouts={printouts_of(r)!r}"
                        )
                except Exception as e:  # pylint: disable=W0718
                    show_exc(f"{label}: results", e)

    out("--- parse_named_path and import")
    for name, specific in [("tight", None), ("tight", "two"), ("loose", "two"), ("loose", "nosuch"), ("nosuch", None), ("broken", None), ("broken", "ok"), ("nomatch", None)]:
        for disposably in (True, False):
            p = CsvPath()
            p.csvpaths = cp
            label = f"parse_named_path({name!r}, specific={specific!r}, disposably={disposably})"
            try:
                r = p.parse_named_path(name, disposably=disposably, specific=specific)
                if r is None:
                    out(f"{label} -> None")
                else:
                    out(f"{label} -> {type(r).__name__}")
                    for e, _ in r.expressions:
                        for ln in dump(e):
                            out(f"{label}:   {ln}")
            except Exception as e:  # pylint: disable=W0718
                show_exc(label, e)
            out(f"{label}: p.scan={p.scan!r} p.match={p.match!r}")
    try:
        cp.paths_manager.add_named_paths(name="importer", paths=['$[*][import("tight") @x = 1]', '$[*][ import( "loose" )  ~c~ @x = 1 ]'])
        cp.collect_paths(filename="f", pathsname="importer")
        for r in cp.results_manager.get_named_results("importer"):
            out(f"importer: lines={lines_of(r)!r} vars={dict(r.csvpath.variables)!r} errors={r.errors_count}")
    except Exception as e:  # pylint: disable=W0718
        show_exc("importer", e)

    out("--- archive")
    show_archive("archive")
    out("--- inputs")
    listing("inputs")


def main():
    setup_env()
    section_split_direct()
    section_parse_modes()
    section_csvpaths()
    section_catalogue(scans=("[*]",), methods=("collect", "fast_forward"))
    section_outer_comments()
    section_bad_paths()
    section_repeats()
    out("done")


if __name__ == "__main__":
    if os.environ.get("PYTHONHASHSEED") != "0":
        # set and dict-of-set orderings must not vary between the two runs
        env = dict(os.environ)
        env["PYTHONHASHSEED"] = "0"
        os.execve(sys.executable, [sys.executable] + sys.argv, env)
    main()
