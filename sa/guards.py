"""E3 — path conditions by a structured walk, and E5 — propositional equivalence by truth table.

Formula representation (nested tuples):
    ('atom', text) | ('not', f) | ('and', f1, f2, ...) | ('or', f1, ...) | ('const', bool)
Atoms are leaf tests normalised through ast.unparse: `x is not None` → not(atom 'x is None'),
`a != b` → not(atom 'a == b'), `a not in b` → not(atom 'a in b').
"""
import ast
import itertools

from .index import unparse, AnalysisError

TRUE = ("const", True)
FALSE = ("const", False)


def f_not(f):
    if f[0] == "const":
        return ("const", not f[1])
    if f[0] == "not":
        return f[1]
    return ("not", f)


def f_and(*fs):
    out = []
    for f in fs:
        if f == TRUE:
            continue
        if f == FALSE:
            return FALSE
        if f[0] == "and":
            out.extend(f[1:])
        else:
            out.append(f)
    if not out:
        return TRUE
    if len(out) == 1:
        return out[0]
    return ("and",) + tuple(out)


def f_or(*fs):
    out = []
    for f in fs:
        if f == FALSE:
            continue
        if f == TRUE:
            return TRUE
        if f[0] == "or":
            out.extend(f[1:])
        else:
            out.append(f)
    if not out:
        return FALSE
    if len(out) == 1:
        return out[0]
    return ("or",) + tuple(out)


def to_formula(e, subst=None):
    """python boolean expression AST -> formula"""
    subst = subst or {}
    if isinstance(e, ast.BoolOp):
        parts = [to_formula(v, subst) for v in e.values]
        return f_and(*parts) if isinstance(e.op, ast.And) else f_or(*parts)
    if isinstance(e, ast.UnaryOp) and isinstance(e.op, ast.Not):
        return f_not(to_formula(e.operand, subst))
    if isinstance(e, ast.Constant) and isinstance(e.value, bool):
        return ("const", e.value)
    if isinstance(e, ast.Compare):
        parts = []
        left = e.left
        for op, right in zip(e.ops, e.comparators):
            lt, rt = _t(left, subst), _t(right, subst)
            if isinstance(op, ast.IsNot):
                parts.append(f_not(("atom", f"{lt} is {rt}")))
            elif isinstance(op, ast.NotEq):
                parts.append(f_not(("atom", _sym_eq(lt, rt))))
            elif isinstance(op, ast.Eq):
                parts.append(("atom", _sym_eq(lt, rt)))
            elif isinstance(op, ast.NotIn):
                parts.append(f_not(("atom", f"{lt} in {rt}")))
            else:
                parts.append(("atom", f"{lt} {_OPS[type(op)]} {rt}"))
            left = right
        return f_and(*parts)
    if isinstance(e, ast.Name) and e.id in subst and not isinstance(subst[e.id], str):
        return to_formula(subst[e.id], subst)
    return ("atom", _t(e, subst))


_OPS = {ast.Lt: "<", ast.LtE: "<=", ast.Gt: ">", ast.GtE: ">=", ast.Is: "is", ast.In: "in"}


def _sym_eq(a, b):
    a, b = sorted([a, b])
    return f"{a} == {b}"


def _t(e, subst):
    if isinstance(e, ast.Name) and e.id in subst:
        s = subst[e.id]
        return s if isinstance(s, str) else unparse(s)
    return unparse(e)


def atoms(f, acc=None):
    acc = acc if acc is not None else set()
    if f[0] == "atom":
        acc.add(f[1])
    elif f[0] in ("not",):
        atoms(f[1], acc)
    elif f[0] in ("and", "or"):
        for x in f[1:]:
            atoms(x, acc)
    return acc


def evaluate(f, env):
    k = f[0]
    if k == "const":
        return f[1]
    if k == "atom":
        return env[f[1]]
    if k == "not":
        return not evaluate(f[1], env)
    if k == "and":
        return all(evaluate(x, env) for x in f[1:])
    if k == "or":
        return any(evaluate(x, env) for x in f[1:])
    raise ValueError(f)


def equivalent(f, g, constraint=None, limit=16):
    """(True, None) or (False, counter-example env).  `constraint(env)` filters impossible rows."""
    at = sorted(atoms(f) | atoms(g))
    if len(at) > limit:
        raise AnalysisError(f"too many atoms for a truth table: {at}")
    for vals in itertools.product([False, True], repeat=len(at)):
        env = dict(zip(at, vals))
        if constraint and not constraint(env):
            continue
        if evaluate(f, env) != evaluate(g, env):
            return False, env
    return True, None


def show(f):
    k = f[0]
    if k == "const":
        return str(f[1])
    if k == "atom":
        return f[1]
    if k == "not":
        return f"¬({show(f[1])})"
    sep = " ∧ " if k == "and" else " ∨ "
    return "(" + sep.join(show(x) for x in f[1:]) + ")"


# ------------------------------------------------------------------ path conditions
def always_exits(stmts):
    """does every path through stmts end in return/raise/continue/break?"""
    if not stmts:
        return False
    last = stmts[-1]
    if isinstance(last, (ast.Return, ast.Raise, ast.Continue, ast.Break)):
        return True
    if isinstance(last, ast.If):
        return always_exits(last.body) and always_exits(last.orelse)
    if isinstance(last, ast.Try):
        if last.finalbody and always_exits(last.finalbody):
            return True
        return always_exits(last.body) and all(always_exits(h.body) for h in last.handlers)
    if isinstance(last, ast.With):
        return always_exits(last.body)
    return False


def path_conditions(func_node):
    """yield (stmt, formula) for every statement of the function (nested defs excluded).
    Loop bodies carry an atom 'loop:<target> in <iter>'; handlers an atom 'except:<type>'."""
    out = []
    _walk(func_node.body, TRUE, out)
    return out


def _walk(stmts, cond, out):
    """returns the condition under which control falls through the end of stmts"""
    for st in stmts:
        out.append((st, cond))
        if isinstance(st, ast.If):
            t = to_formula(st.test)
            c_then = _walk(st.body, f_and(cond, t), out)
            c_else = _walk(st.orelse, f_and(cond, f_not(t)), out)
            ex_then = always_exits(st.body)
            ex_else = always_exits(st.orelse)
            if ex_then and ex_else:
                cond = FALSE
            elif ex_then:
                cond = f_and(cond, f_not(t))
            elif ex_else:
                cond = f_and(cond, t)
        elif isinstance(st, (ast.For, ast.AsyncFor)):
            lp = ("atom", f"loop:{unparse(st.target)} in {unparse(st.iter)}")
            _walk(st.body, f_and(cond, lp), out)
            _walk(st.orelse, cond, out)
        elif isinstance(st, ast.While):
            t = to_formula(st.test)
            _walk(st.body, f_and(cond, t), out)
            _walk(st.orelse, cond, out)
        elif isinstance(st, ast.Try):
            _walk(st.body, cond, out)
            for h in st.handlers:
                ha = ("atom", f"except:{unparse(h.type) if h.type else 'bare'}")
                _walk(h.body, f_and(cond, ha), out)
            _walk(st.orelse, cond, out)
            _walk(st.finalbody, cond, out)
            if always_exits([st]):
                cond = FALSE
        elif isinstance(st, (ast.With, ast.AsyncWith)):
            _walk(st.body, cond, out)
            if always_exits(st.body):
                cond = FALSE
        elif isinstance(st, (ast.Return, ast.Raise, ast.Continue, ast.Break)):
            cond = FALSE
    return cond


def condition_of(func_node, target_stmt):
    for st, c in path_conditions(func_node):
        if st is target_stmt:
            return c
    raise AnalysisError("statement not found in function")


def enclosing_stmt(func_node, node):
    """the statement of func_node (at any depth) that directly contains expression `node`"""
    best = None
    for st, _ in path_conditions(func_node):
        for n in _own_exprs(st):
            if n is node:
                return st
    return best


def _own_exprs(st):
    """expression nodes belonging to st itself (not to nested statements)"""
    fields = []
    for name, val in ast.iter_fields(st):
        if name in ("body", "orelse", "finalbody", "handlers"):
            continue
        if isinstance(val, ast.AST):
            fields.append(val)
        elif isinstance(val, list):
            fields.extend(v for v in val if isinstance(v, ast.AST))
    for f in fields:
        yield f
        for n in ast.walk(f):
            yield n


def substitute(f, env):
    """replace atoms named in env by constants"""
    k = f[0]
    if k == "atom":
        return ("const", env[f[1]]) if f[1] in env else f
    if k == "not":
        return f_not(substitute(f[1], env))
    if k == "and":
        return f_and(*[substitute(x, env) for x in f[1:]])
    if k == "or":
        return f_or(*[substitute(x, env) for x in f[1:]])
    return f


def forget(f, pred):
    """∃ a1..an . f  for the atoms selected by pred (path-prologue tests that do not concern a rule)"""
    sel = sorted(a for a in atoms(f) if pred(a))
    if not sel:
        return f
    if len(sel) > 10:
        raise AnalysisError(f"too many atoms to forget: {sel}")
    alts = []
    for vals in itertools.product([False, True], repeat=len(sel)):
        alts.append(substitute(f, dict(zip(sel, vals))))
    return f_or(*alts)


def implies(f, g, constraint=None):
    ok, cex = equivalent(f_and(f, g), f, constraint)
    return ok, cex
