"""E2 — structured forward must-dataflow over a function body (one boolean fact).

Instead of materialising a CFG, the statement kinds the repository uses are interpreted
structurally (If / For / While / Try / With / Return / Raise / Break / Continue), with
  * exception edges: every statement of a `try` body may transfer control to each handler, so the
    state at handler entry is the meet over the states *before* every statement of the body (and
    its nested statements);
  * loops: fix-point over the back edge (two iterations suffice for one boolean);
  * break / continue / return / raise tracked as separate exits.

`gen(stmt)` / `kill(stmt)` look only at the expressions owned by the statement itself (an `if`
test, a `for` iterable, a call statement), never at nested blocks.

Results: in_state[stmt] (fact holds on *every* path reaching stmt), exits = [(kind, stmt, state)].
Dominance ("X only after Y"): gen=Y, read in_state[X].  Must-pass-through ("every exit after X
passes Y"): gen=Y, kill=X, entry=True, read the exit states.
"""
import ast

from .guards import _own_exprs


def own_nodes(st):
    return list(_own_exprs(st))


def own_calls(st):
    return [n for n in _own_exprs(st) if isinstance(n, ast.Call)]


class Must:
    def __init__(self, gen, kill=None, entry=False):
        self.gen = gen
        self.kill = kill or (lambda st: False)
        self.entry = entry
        self.in_state = {}
        self.exits = []

    def run(self, func_node):
        self.in_state = {}
        self.exits = []
        out = self._block(func_node.body, self.entry, loops=[], handlers=[])
        if out is not None:
            self.exits.append(("fall", None, out))
        return self

    # state None == unreachable
    def _meet(self, *states):
        vals = [s for s in states if s is not None]
        if not vals:
            return None
        return all(vals)

    def _record(self, st, state):
        if st in self.in_state:
            self.in_state[st] = self._meet(self.in_state[st], state)
        else:
            self.in_state[st] = state

    def _apply(self, st, state):
        """effect of the statement's own expressions"""
        if self.kill(st):
            state = False
        if self.gen(st):
            state = True
        return state

    def _block(self, stmts, state, loops, handlers):
        for st in stmts:
            if state is None:
                break
            state = self._stmt(st, state, loops, handlers)
        return state

    def _note_exc(self, handlers, state):
        # any statement may raise: its pre-state (and, for gen statements, also its post-state is
        # stronger, so pre-state is the conservative one) flows to the innermost handlers
        for h in handlers:
            h.append(state)

    def _stmt(self, st, state, loops, handlers):
        self._record(st, state)
        self._note_exc(handlers[-1:] if handlers else [], state)
        if isinstance(st, ast.If):
            s0 = self._apply(st, state)
            a = self._block(st.body, s0, loops, handlers)
            b = self._block(st.orelse, s0, loops, handlers)
            return self._meet(a, b)
        if isinstance(st, (ast.For, ast.AsyncFor, ast.While)):
            s0 = self._apply(st, state)
            entry = s0
            for _ in range(3):
                ctx = {"break": [], "continue": []}
                end = self._block(st.body, entry, loops + [ctx], handlers)
                back = self._meet(end, *ctx["continue"])
                new_entry = self._meet(s0, back)
                if new_entry == entry:
                    break
                entry = new_entry
            # loop exit: zero iterations (s0), normal exhaustion after an iteration (back)
            normal = self._meet(s0, back)
            after_else = self._block(st.orelse, normal, loops, handlers) if st.orelse else normal
            return self._meet(after_else, *ctx["break"])
        if isinstance(st, ast.Try):
            hstates = []
            body_end = self._block(st.body, state, loops, handlers + [hstates])
            # a kill inside the body must be visible at handler entry as well
            hentry = self._meet(*hstates) if hstates else state
            ends = []
            if st.orelse:
                body_end = self._block(st.orelse, body_end, loops, handlers)
            ends.append(body_end)
            # statements inside handlers may raise to the *outer* handlers
            for h in st.handlers:
                ends.append(self._block(h.body, hentry, loops, handlers))
            if st.finalbody:
                # finally runs on every way out; use the meet of everything seen (conservative)
                fin_in = self._meet(hentry, *ends)
                # exits recorded inside body/handlers already carry their own state; we do not
                # re-route them through finally (gen in finally is handled by rules explicitly)
                fin_out = self._block(st.finalbody, fin_in, loops, handlers)
                normal = self._meet(*ends)
                if normal is None:
                    return None
                return fin_out
            return self._meet(*ends)
        if isinstance(st, (ast.With, ast.AsyncWith)):
            s0 = self._apply(st, state)
            return self._block(st.body, s0, loops, handlers)
        if isinstance(st, ast.Return):
            s1 = self._apply(st, state)
            self.exits.append(("return", st, s1))
            return None
        if isinstance(st, ast.Raise):
            s1 = self._apply(st, state)
            if handlers:
                handlers[-1].append(s1)
            self.exits.append(("raise", st, s1))
            return None
        if isinstance(st, ast.Break):
            if loops:
                loops[-1]["break"].append(state)
            return None
        if isinstance(st, ast.Continue):
            if loops:
                loops[-1]["continue"].append(state)
            return None
        if isinstance(st, (ast.FunctionDef, ast.AsyncFunctionDef, ast.ClassDef)):
            return state
        s1 = self._apply(st, state)
        if s1 is False and state is not False and handlers:
            handlers[-1].append(s1)
        return s1


def calls_matching(st, pred):
    return [c for c in own_calls(st) if pred(c)]


def find_stmts(func_node, pred):
    """all statements (any depth, nested defs excluded) whose own expressions satisfy pred(stmt)"""
    out = []

    def rec(stmts):
        for st in stmts:
            if isinstance(st, (ast.FunctionDef, ast.AsyncFunctionDef, ast.ClassDef)):
                continue
            if pred(st):
                out.append(st)
            for name in ("body", "orelse", "finalbody"):
                sub = getattr(st, name, None)
                if isinstance(sub, list):
                    rec(sub)
            for h in getattr(st, "handlers", []) or []:
                rec(h.body)

    rec(func_node.body)
    return out


def handler_of(func_node, stmt):
    """the innermost ExceptHandler containing stmt, or None"""
    found = [None]

    def rec(stmts, cur):
        for st in stmts:
            if st is stmt:
                found[0] = cur
                return True
            for name in ("body", "orelse", "finalbody"):
                sub = getattr(st, name, None)
                if isinstance(sub, list) and not isinstance(st, (ast.FunctionDef, ast.ClassDef)):
                    if rec(sub, cur):
                        return True
            for h in getattr(st, "handlers", []) or []:
                if rec(h.body, h):
                    return True
        return False

    rec(func_node.body, None)
    return found[0]
