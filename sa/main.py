"""CLI: ./check <C..> [--tier quick|thorough] [--replay file]

exit 0: every obligation discharged (known findings printed as KNOWN-FINDING)
exit 1: VIOLATION property=<id> replay=<path>
exit 2: ANALYSIS-ERROR (the analysis itself could not run: vanished anchor, unrecognised idiom)
"""
import argparse
import importlib
import json
import os
import sys
import traceback

HERE = os.path.dirname(os.path.abspath(__file__))
sys.path.insert(0, os.path.dirname(HERE))

from sa.index import Index, AnalysisError  # noqa: E402
from sa.report import Report  # noqa: E402


def main():
    ap = argparse.ArgumentParser()
    ap.add_argument("pid")
    ap.add_argument("--tier", default=os.environ.get("VERIF_TIER", "quick"))
    ap.add_argument("--replay")
    a = ap.parse_args()
    if a.tier not in ("quick", "thorough"):
        a.tier = "quick"
    if a.replay:
        with open(a.replay) as fh:
            print(json.dumps(json.load(fh), indent=1))
        print("replay: the violations above are re-derived from the current source by running the check itself:")
    try:
        seed = int(os.environ.get("VERIF_SEED", "0"))
    except ValueError:
        seed = 0
    pid = a.pid.upper()
    rep = Report(pid, a.tier, seed)
    try:
        mod = importlib.import_module(f"rules.{pid.lower()}")
        idx = Index()
        if idx.renames:
            rep.stats["private_renames_recovered"] = [f"{sc}: {cur} -> {ref} (use-site similarity {s})" for sc, cur, ref, s in idx.renames]
            print(f"note: {len(idx.renames)} renamed private name(s) mapped back to the reference names: " + ", ".join(f"{sc}.{cur}->{ref}" for sc, cur, ref, s in idx.renames))
        mod.run(idx, rep, a.tier)
        rc = rep.finish()
    except AnalysisError as e:
        print(f"ANALYSIS-ERROR property={pid} {e}")
        # what was decided before the analysis stopped stays decided: an obligation that already failed is a violation (exit 1);
        # with nothing failed so far there is no verdict (exit 2)
        rep.stats["analysis_incomplete"] = str(e)[:300]
        try:
            rc = rep.finish()
        except Exception:  # pylint: disable=W0718
            rc = 2
        sys.exit(1 if rc == 1 else 2)
    except Exception:  # pylint: disable=W0718
        traceback.print_exc()
        print(f"ANALYSIS-ERROR property={pid} internal error in the checker (see traceback)")
        sys.exit(2)
    sys.exit(rc)


if __name__ == "__main__":
    main()
