"""E3/E4/E5 — decision-table extraction by abstract interpretation of a function's AST.

The analysed function is never executed: its *syntax tree* is walked by this interpreter over a
finite abstract domain supplied by the rule.  Every quantity the rule does not enumerate stays a
symbolic Residual; when a Residual is needed as a branch condition the interpreter forks on it
(an automatically discovered boolean atom), so the result of `run_all` is the complete decision
tree of the function: one Path per feasible combination of atom values, with the ordered effect
trace (attribute stores, modelled calls) and the returned (concrete or residual) value.

What is supported is what the analysed code uses: Assign/AugAssign/AnnAssign, If, For over
concrete sequences, bounded While, Return, Raise, Try/except/finally, With, Expr, Pass, Break,
Continue, Delete(ignored), Assert(ignored); expressions: Name, Attribute, Constant, Compare,
BoolOp, UnaryOp, BinOp, IfExp, Call, Subscript, List/Tuple/Dict/Set, JoinedStr, Starred(no).
Anything else raises Undecidable (→ ANALYSIS-ERROR, exit 2): "I cannot decide this any more".
"""
import ast
import os
import operator

from .index import AnalysisError, unparse, dotted


class Undecidable(AnalysisError):
    pass


class Residual:
    """a symbolic value, identified by its text"""

    __slots__ = ("text",)

    def __init__(self, text):
        self.text = text

    def __repr__(self):
        return f"<{self.text}>"

    def __eq__(self, o):
        return isinstance(o, Residual) and o.text == self.text

    def __hash__(self):
        return hash(("R", self.text))


class Raised(Exception):
    """raised by rule handlers to model a callee that raises"""

    def __init__(self, typ, value=None):
        super().__init__(typ)
        self.typ = typ
        self.value = value


class _Return(Exception):
    def __init__(self, v):
        self.v = v


class _Break(Exception):
    pass


class _Continue(Exception):
    pass


class Path:
    def __init__(self):
        self.choices = []  # (text, value)
        self.trace = []  # (kind, key, value)
        self.result = None  # ('return', v) | ('raise', typ) | ('fall', None)

    def atom(self, text, default=None):
        for t, v in self.choices:
            if t == text:
                return v
        return default

    def sets(self, key):
        return [v for k, kk, v in self.trace if k == "set" and kk == key]

    def calls(self, name=None):
        return [(kk, v) for k, kk, v in self.trace if k == "call" and (name is None or kk == name or kk.endswith("." + name))]

    def summary(self):
        return {
            "choices": [(t, _show(v)) for t, v in self.choices],
            "trace": [(k, kk, _show(v)) for k, kk, v in self.trace],
            "result": (self.result[0], _show(self.result[1])),
        }


def _show(v):
    if isinstance(v, Residual):
        return f"<{v.text}>"
    if isinstance(v, (list, tuple)):
        return [_show(x) for x in v]
    if isinstance(v, dict):
        return {str(k): _show(x) for k, x in v.items()}
    if isinstance(v, (str, int, float, bool)) or v is None:
        return v
    return repr(v)


def txt(v):
    if isinstance(v, Residual):
        return v.text
    return repr(v)


def _wrap(t):
    if any(c in t for c in " ") and not (t.startswith("(") and t.endswith(")")):
        return f"({t})"
    return t


_CMP = {
    ast.Eq: (operator.eq, "=="),
    ast.NotEq: (operator.ne, "!="),
    ast.Lt: (operator.lt, "<"),
    ast.LtE: (operator.le, "<="),
    ast.Gt: (operator.gt, ">"),
    ast.GtE: (operator.ge, ">="),
    ast.Is: (operator.is_, "is"),
    ast.IsNot: (operator.is_not, "is not"),
    ast.In: (lambda a, b: a in b, "in"),
    ast.NotIn: (lambda a, b: a not in b, "not in"),
}
_BIN = {
    ast.Add: (operator.add, "+"),
    ast.Sub: (operator.sub, "-"),
    ast.Mult: (operator.mul, "*"),
    ast.Div: (operator.truediv, "/"),
    ast.FloorDiv: (operator.floordiv, "//"),
    ast.Mod: (operator.mod, "%"),
}

_BUILTINS = {
    "len": len, "max": max, "min": min, "int": int, "float": float, "str": str, "abs": abs,
    "bool": bool, "list": list, "tuple": tuple, "sorted": sorted, "range": range,
    "enumerate": lambda *a: (enumerate(*a) if _lazy(a[0]) else list(enumerate(*a))), "zip": lambda *a: (zip(*a) if any(_lazy(x) for x in a) else list(zip(*a))), "round": round,
    "isinstance": None, "reversed": lambda a: list(reversed(a)), "sum": sum, "any": any, "all": all,
    "dict": dict, "set": set, "next": next, "iter": iter,
}


def _lazy(v):
    """a lazily evaluated sequence of the interpreted program (generator expression, generator helper, or an iterator over one)"""
    import types as _types
    return isinstance(v, (GenV, _types.GeneratorType, enumerate, zip, map, filter)) or type(v).__name__ in ("list_iterator", "tuple_iterator", "islice", "chain", "dropwhile", "takewhile")


def _pure_callables():
    import collections as _c
    import functools as _f
    import itertools as _i
    return {"reduce": _f.reduce, "functools.reduce": _f.reduce, "deque": _c.deque, "collections.deque": _c.deque,
            "itertools.chain": _i.chain, "chain": _i.chain, "itertools.islice": _i.islice, "islice": _i.islice}

_PURE = _pure_callables()

DEFAULT_IGNORE = ("logger.", "logging.", "time.", "print", "warnings.")


class Interp:
    def __init__(self, idx, *, types=None, domains=None, volatile=(), handlers=None, inline=(),
                 ignore=DEFAULT_IGNORE, unknown_calls="error", max_paths=200000, max_loop=64,
                 isinstance_oracle=None, inline_all=(), auto_private=True):
        self.idx = idx
        self.inline_all = set(inline_all)  # classes whose un-handled methods are inlined (robust to helper extraction)
        self.types = dict(types or {})  # receiver key -> class name, e.g. {'self': 'Matcher'}
        self.domains = dict(domains or {})
        self.volatile = set(volatile)
        self.handlers = dict(handlers or {})
        # the package's "raise a ChildrenException" helper does what its name says, also when the rule did not model it
        self.handlers.setdefault(".raiseChildrenException", _raise_children_exception)
        self.inline = set(inline)
        self.ignore = tuple(ignore)
        self.unknown_calls = unknown_calls
        self.max_paths = max_paths
        self.auto_private = auto_private
        self._stack = []
        self._fi_stack = []
        self._cur_gen = None
        self._live_gens = []
        self.max_steps = int(os.environ.get("VERIF_MAX_STEPS", "1000000"))
        self.steps = 0
        self.max_loop = max_loop
        self.isinstance_oracle = isinstance_oracle
        self.functions_seen = set()
        # per-run
        self.store = {}
        self.path = None
        self._prefix = []
        self._decisions = []
        self._memo = {}
        self.init_store = {}

    # ------------------------------------------------------------ enumeration
    def run_all(self, fi, args=None, store=None, selfkey="self"):
        """enumerate all decision paths of FuncInfo fi"""
        paths = []
        stack = [[]]
        while stack:
            prefix = stack.pop()
            p = self._run_once(fi, args or {}, store or {}, selfkey, prefix)
            paths.append(p)
            if len(paths) > self.max_paths:
                raise Undecidable(f"more than {self.max_paths} paths in {fi.qual}")
            for i in range(len(prefix), len(self._decisions)):
                _, idx, n = self._decisions[i]
                for alt in range(idx + 1, n):
                    stack.append([d[1] for d in self._decisions[:i]] + [alt])
        return paths

    def run_program(self, program, store=None):
        """enumerate all decision paths of `program(interp)`, a checker-side driver that interprets several
        functions in sequence on the shared abstract store (e.g. a series of parser actions)"""
        import copy

        paths = []
        stack = [[]]
        while stack:
            prefix = stack.pop()
            self.store = copy.deepcopy(store or {})
            self.path = Path()
            self._prefix = prefix
            self._decisions = []
            self._memo = {}
            try:
                v = program(self)
                self.path.result = ("return", v)
            except Raised as r:
                self.path.result = ("raise", r.typ)
            except RecursionError:
                self.path.result = ("raise", "RecursionError (unbounded recursion in the analysed code on this input)")
            self.path.final_store = self.store
            paths.append(self.path)
            if len(paths) > self.max_paths:
                raise Undecidable("too many paths in program")
            for i in range(len(prefix), len(self._decisions)):
                _, idx, n = self._decisions[i]
                for alt in range(idx + 1, n):
                    stack.append([d[1] for d in self._decisions[:i]] + [alt])
        return paths

    def run_eager(self, fi, eager, args=None, store=None, selfkey="self"):
        """enumerate the product of `eager` (store key or call text -> values) and, for each, all remaining decision
        paths; every path carries p.cfg with the eager values, so an input the code fails to consult is still judged
        for each of its values"""
        import itertools
        keys = list(eager)
        out = []
        for vals in itertools.product(*[eager[k] for k in keys]):
            st = dict(store or {})
            cfg = dict(zip(keys, vals))
            st.update(cfg)
            for p in self.run_all(fi, args=args, store=st, selfkey=selfkey):
                p.cfg = cfg
                out.append(p)
        return out

    def _run_once(self, fi, args, store, selfkey, prefix):
        import copy

        self.store = copy.deepcopy(store)
        self.path = Path()
        self._prefix = prefix
        self._decisions = []
        self._memo = {}
        try:
            v = self.call_function(fi, copy.deepcopy(args), selfkey)
            self.path.result = ("return", v)
        except Raised as r:
            self.path.result = ("raise", r.typ)
        finally:
            self._close_gens()
        self.path.final_store = self.store
        return self.path

    def _close_gens(self):
        for g in self._live_gens:
            g.close()
        self._live_gens = []
        self._cur_gen = None

    def choose(self, key, domain, memo=True):
        if memo and key in self._memo:
            return self._memo[key]
        pos = len(self._decisions)
        idx = self._prefix[pos] if pos < len(self._prefix) else 0
        if idx >= len(domain):
            raise Undecidable(f"inconsistent replay at {key}")
        self._decisions.append((key, idx, len(domain)))
        v = domain[idx]
        self.path.choices.append((key, v))
        if memo:
            self._memo[key] = v
        return v

    def truth(self, v):
        if isinstance(v, Residual):
            return self.choose(v.text, [False, True])
        if isinstance(v, Obj) and self.types.get(v.name) and self.idx is not None and self.idx.has_cls(self.types[v.name]):
            # an abstract object of a known class: truthiness goes through the class's own __bool__ / __len__ when it defines one
            cls = self.types[v.name]
            for m in ("__bool__", "__len__"):
                if self.idx.has_method(cls, m):
                    r = self.call_function(self.idx.method(cls, m), {"__pos__": []}, v.name)
                    if isinstance(r, Residual):
                        return self.choose(r.text, [False, True])
                    return bool(r)
        return bool(v)

    # ------------------------------------------------------------ functions
    def call_function(self, fi, args, selfkey):
        self.functions_seen.add(fi.key())
        self._fi_stack.append(fi)
        try:
            return self._call_function(fi, args, selfkey)
        finally:
            self._fi_stack.pop()

    def _call_function(self, fi, args, selfkey):
        frame = {"__self__": selfkey}
        a = fi.node.args
        params = [p.arg for p in a.posonlyargs + a.args]
        if "__selfval__" in args:
            # a method of a concrete value (NamedTuple instance): `self` is that value
            frame[params[0]] = args.pop("__selfval__")
            params = params[1:]
        elif params and params[0] in ("self", "cls"):
            params = params[1:]
        defaults = a.defaults
        pos_defaults = dict(zip(params[len(params) - len(defaults):], defaults)) if defaults else {}
        pos = args.pop("__pos__", [])
        for name, val in zip(params, pos):
            frame[name] = val
        for name in params:
            if name in frame:
                continue
            if name in args:
                frame[name] = args.pop(name)
            elif name in pos_defaults:
                frame[name] = self.eval(pos_defaults[name], frame)
            else:
                frame[name] = Residual(name)
        for p, d in zip(a.kwonlyargs, a.kw_defaults):
            if p.arg in args:
                frame[p.arg] = args.pop(p.arg)
            elif d is not None:
                frame[p.arg] = self.eval(d, frame)
            else:
                frame[p.arg] = Residual(p.arg)
        if a.vararg:
            frame[a.vararg.arg] = list(pos[len(params):])
        if a.kwarg:
            frame[a.kwarg.arg] = dict(args)
        try:
            self.exec_block(fi.node.body, frame)
        except _Return as r:
            return r.v
        return None

    # ------------------------------------------------------------ statements
    def exec_block(self, stmts, frame):
        for st in stmts:
            self.exec(st, frame)

    def exec(self, st, frame):
        self.steps += 1
        if self.steps > self.max_steps:
            raise Undecidable(f"analysis budget exhausted: more than {self.max_steps} statements interpreted by one table (path explosion on a condition the model does not decide)")
        if isinstance(st, ast.Expr):
            if isinstance(st.value, ast.Constant):
                return
            self.eval(st.value, frame)
        elif isinstance(st, ast.Assign):
            v = self.eval(st.value, frame)
            for t in st.targets:
                self.assign(t, v, frame)
        elif isinstance(st, ast.AnnAssign):
            if st.value is not None:
                self.assign(st.target, self.eval(st.value, frame), frame)
        elif isinstance(st, ast.AugAssign):
            cur = self.eval(_load(st.target), frame)
            rhs = self.eval(st.value, frame)
            self.assign(st.target, self.binop(type(st.op), cur, rhs), frame)
        elif isinstance(st, ast.If):
            if self.truth(self.eval(st.test, frame)):
                self.exec_block(st.body, frame)
            else:
                self.exec_block(st.orelse, frame)
        elif isinstance(st, ast.Return):
            raise _Return(self.eval(st.value, frame) if st.value is not None else None)
        elif isinstance(st, ast.Pass):
            pass
        elif isinstance(st, ast.Raise):
            typ = "Exception"
            if st.exc is not None:
                e = st.exc
                if isinstance(e, ast.Call):
                    typ = unparse(e.func)
                else:
                    v = self.eval(e, frame)
                    typ = v.text if isinstance(v, Residual) else str(v)
                    if isinstance(v, Residual) and v.text.startswith("exc:"):
                        typ = v.text[4:]
            else:
                typ = frame.get("__exc__", "Exception")
            self.path.trace.append(("raise", typ, None))
            raise Raised(typ)
        elif isinstance(st, ast.For):
            it = self.eval(st.iter, frame)
            if isinstance(it, Residual):
                raise Undecidable(f"loop over unknown iterable {it.text}")
            if isinstance(it, dict):
                it = list(it.keys())
            broke = False
            for n, item in enumerate(it if _lazy(it) else list(it)):
                if n > self.max_loop:
                    raise Undecidable("loop bound exceeded")
                self.assign(st.target, item, frame)
                try:
                    self.exec_block(st.body, frame)
                except _Break:
                    broke = True
                    break
                except _Continue:
                    continue
            if not broke:
                self.exec_block(st.orelse, frame)
        elif isinstance(st, ast.While):
            n = 0
            broke = False
            while self.truth(self.eval(st.test, frame)):
                n += 1
                if n > self.max_loop:
                    raise Undecidable("while bound exceeded")
                try:
                    self.exec_block(st.body, frame)
                except _Break:
                    broke = True
                    break
                except _Continue:
                    continue
            if not broke:
                self.exec_block(st.orelse, frame)
        elif isinstance(st, ast.Break):
            raise _Break()
        elif isinstance(st, ast.Continue):
            raise _Continue()
        elif isinstance(st, ast.Try):
            self.exec_try(st, frame)
        elif isinstance(st, ast.With):
            for item in st.items:
                v = self.eval(item.context_expr, frame)
                if item.optional_vars is not None:
                    self.assign(item.optional_vars, v, frame)
            self.exec_block(st.body, frame)
        elif isinstance(st, ast.Delete):
            for t in st.targets:
                if isinstance(t, ast.Subscript):
                    base = self.eval(t.value, frame)
                    i = self.eval(t.slice, frame)
                    if isinstance(base, (list, dict)) and not isinstance(i, Residual):
                        try:
                            del base[i]
                        except (KeyError, IndexError, TypeError) as ex:
                            raise Raised(type(ex).__name__)
                    self.path.trace.append(("delitem", f"{self.attr_key(t.value, frame) or unparse(t.value)}[{txt(i)}]", None))
                elif isinstance(t, ast.Name):
                    frame.pop(t.id, None)
                elif isinstance(t, ast.Attribute):
                    k = self.attr_key(t, frame)
                    self.store.pop(k, None)
                    self.path.trace.append(("del", k, None))
        elif isinstance(st, (ast.Assert, ast.Import, ast.ImportFrom, ast.Global, ast.Nonlocal)):
            pass
        elif isinstance(st, ast.FunctionDef):
            # a local helper (e.g. a sort key): callable by name from the enclosing body
            frame[st.name] = _Closure(st, frame, self)
        elif isinstance(st, ast.ClassDef):
            pass
        else:
            raise Undecidable(f"unsupported statement {type(st).__name__} at line {st.lineno}")

    def exec_try(self, st, frame):
        try:
            try:
                self.exec_block(st.body, frame)
            except Raised as r:
                for h in st.handlers:
                    if self._handler_matches(h, r.typ):
                        if h.name:
                            frame[h.name] = Residual("exc:" + r.typ)
                        old = frame.get("__exc__")
                        frame["__exc__"] = r.typ
                        self.path.trace.append(("except", unparse(h.type) if h.type else "bare", r.typ))
                        try:
                            self.exec_block(h.body, frame)
                        finally:
                            frame["__exc__"] = old
                        break
                else:
                    raise
            else:
                self.exec_block(st.orelse, frame)
        finally:
            # note: a finally body that itself raises/returns overrides, as in Python
            if st.finalbody:
                self.exec_block(st.finalbody, frame)

    BROAD = ("Exception", "BaseException")

    def _handler_matches(self, h, typ):
        if h.type is None:
            return True
        names = []
        if isinstance(h.type, ast.Tuple):
            names = [unparse(e) for e in h.type.elts]
        else:
            names = [unparse(h.type)]
        import builtins
        raised = getattr(builtins, typ.split(".")[-1], None)
        for n in names:
            n = n.split(".")[-1]
            if n in self.BROAD or n == typ.split(".")[-1]:
                return True
            # builtin exception hierarchy (FileNotFoundError is an OSError, IndexError a LookupError, …)
            caught = getattr(builtins, n, None)
            if isinstance(raised, type) and isinstance(caught, type) and issubclass(raised, BaseException) and issubclass(raised, caught):
                return True
            if n in ("IOError", "EnvironmentError") and isinstance(raised, type) and issubclass(raised, OSError):
                return True
        return False

    def assign(self, t, v, frame):
        if isinstance(t, ast.Name):
            frame[t.id] = v
        elif isinstance(t, ast.Attribute):
            key = self.attr_key(t, frame)
            if key is None:
                raise Undecidable(f"store to computed attribute {unparse(t)}")
            # a property setter the rule asked to inline (listed as "<Class>.<property>")
            bkey = key.rpartition(".")[0]
            cls = self.types.get(bkey)
            if cls and self._inl(cls, t.attr) and self.idx.has_cls(cls):
                for c in self.idx.mro(cls):
                    pr = c.properties.get(t.attr)
                    if pr and "set" in pr:
                        self.call_function(pr["set"], {"__pos__": [v]}, bkey)
                        return
            self.store[key] = v
            self.path.trace.append(("set", key, v))
        elif isinstance(t, ast.Subscript) and isinstance(t.slice, ast.Slice):
            base = self.eval(t.value, frame)
            lo = self.eval(t.slice.lower, frame) if t.slice.lower else None
            hi = self.eval(t.slice.upper, frame) if t.slice.upper else None
            if not isinstance(base, list) or isinstance(lo, Residual) or isinstance(hi, Residual) or isinstance(v, Residual):
                raise Undecidable(f"slice assignment {unparse(t)}")
            base[lo:hi] = list(v)
            self.path.trace.append(("setslice", self.attr_key(t.value, frame) or unparse(t.value), list(v)))
        elif isinstance(t, ast.Subscript):
            base = self.eval(t.value, frame)
            i = self.eval(t.slice, frame)
            if isinstance(base, (list, dict)) and not isinstance(i, Residual):
                try:
                    base[i] = v
                except (TypeError, IndexError, KeyError) as ex:
                    raise Raised(type(ex).__name__)
                bk = self.attr_key(t.value, frame) or unparse(t.value)
                self.path.trace.append(("setitem", f"{bk}[{txt(i)}]", v))
            else:
                bk = txt(base) if isinstance(base, Residual) else unparse(t.value)
                self.path.trace.append(("setitem", f"{bk}[{txt(i)}]", v))
        elif isinstance(t, (ast.Tuple, ast.List)):
            if isinstance(v, Residual):
                for n, e in enumerate(t.elts):
                    self.assign(e, Residual(f"{v.text}[{n}]"), frame)
            else:
                for e, x in zip(t.elts, v):
                    self.assign(e, x, frame)
        else:
            raise Undecidable(f"unsupported assignment target {unparse(t)}")

    # ------------------------------------------------------------ expressions
    def attr_key(self, node, frame):
        """store key for Name/Attribute chains; 'self' is rebased on the frame's self key; a local
        bound to a Residual is replaced by that residual's text"""
        parts = []
        n = node
        while isinstance(n, ast.Attribute):
            parts.append(n.attr)
            n = n.value
        if isinstance(n, ast.Name):
            if n.id in ("self", "cls") and "__self__" in frame and n.id not in frame:
                base = frame["__self__"]
            elif n.id in frame:
                b = frame[n.id]
                if isinstance(b, Residual):
                    base = b.text
                elif isinstance(b, Obj):
                    base = b.name
                else:
                    return None
            else:
                base = n.id
            # resolve aliases: an intermediate attribute that holds an abstract object rebases the key on it
            cur = base
            attrs = list(reversed(parts))
            for i, a in enumerate(attrs):
                k = f"{cur}.{a}"
                if i < len(attrs) - 1 and isinstance(self.store.get(k), Obj):
                    cur = self.store[k].name
                else:
                    cur = k
            return cur
        if isinstance(n, ast.Subscript) or isinstance(n, ast.Call):
            try:
                b = self.eval(n, frame)
            except Undecidable:
                return None
            if isinstance(b, Residual):
                return ".".join([b.text] + list(reversed(parts)))
            if isinstance(b, Obj):
                return ".".join([b.name] + list(reversed(parts)))
        return None

    def _enum_member(self, v):
        """is the residual `Class.MEMBER` of an Enum class of the analysed source"""
        if not isinstance(v, Residual) or v.text.count(".") != 1 or self.idx is None:
            return False
        c, m = v.text.split(".")
        return self.idx.has_cls(c) and len(self.idx.classes[c]) == 1 and "Enum" in self.idx.classes[c][0].bases and m in self.idx.classes[c][0].class_assigns

    def _const_leaves(self, v):
        """a constant table: containers over literals, compiled patterns and enum members"""
        import re as _re
        if isinstance(v, (list, tuple, set, frozenset)):
            return all(self._const_leaves(x) for x in v)
        if isinstance(v, dict):
            return all(self._const_leaves(k) and self._const_leaves(x) for k, x in v.items())
        return (v is None or isinstance(v, (str, int, float, bool, _re.Pattern)) or self._enum_member(v)
                or isinstance(v, _OpRef) or (isinstance(v, Obj) and v.name.startswith("object@"))
                or (isinstance(v, Residual) and self.idx is not None and self.idx.has_cls(v.text)))   # a reference to a class of the package

    def lookup(self, key):
        """value of a store key: explicit store, then rule domain, else None (unknown)"""
        if key in self.store:
            return True, self.store[key]
        if key in self.domains:
            v = self.choose(key, self.domains[key], memo=key not in self.volatile)
            if key not in self.volatile:
                self.store[key] = v
            return True, v
        # class-level literal constants (e.g. alias lists hoisted into the class)
        if "." in key:
            base, attr = key.rsplit(".", 1)
            if attr in ("value", "name") and self._enum_member(Residual(base)):
                c, m = base.split(".")
                if attr == "name":
                    return True, m
                try:
                    return True, ast.literal_eval(self.idx.classes[c][0].class_assigns[m])
                except (ValueError, SyntaxError):
                    pass
            cls = self.types.get(base) or (base if self.idx is not None and self.idx.has_cls(base) and len(self.idx.classes[base]) == 1 else None)
            if cls and self.idx is not None and self.idx.has_cls(cls):
                for c in self.idx.mro(cls):
                    if "Enum" in c.bases:
                        break  # enum members are objects, not their literal values
                    if attr in c.class_assigns:
                        try:
                            v = ast.literal_eval(c.class_assigns[attr])
                        except (ValueError, SyntaxError):
                            # a constant expression over literals and stdlib string constants (e.g. string.digits + "-_")
                            try:
                                sib = {}
                                for nm in ast.walk(c.class_assigns[attr]):
                                    # a bare name in a class body is a sibling class-level assignment
                                    if isinstance(nm, ast.Name) and nm.id in c.class_assigns and nm.id != attr and nm.id not in sib:
                                        ok2, v2 = self.lookup(f"{c.name}.{nm.id}")
                                        if ok2:
                                            sib[nm.id] = v2
                                v = self.eval(c.class_assigns[attr], sib)
                            except (Undecidable, Raised):
                                break
                            if isinstance(v, Residual) or not self._const_leaves(v):
                                break
                        if isinstance(v, (list, dict, set)):
                            # a class-level container is one shared object: later reads and mutations see the same one
                            self.store[key] = v
                        return True, v
                # a private attribute that the reference tree does not have (a new memo, flag or counter): the analysed histories start
                # at a fresh object, so it holds what the constructor gives it
                ref = getattr(self.idx, "reference_attrs", None)
                if (self.auto_private and ref is not None and attr.startswith("_") and not attr.startswith("__")
                        and not any(f"{c.name}.{attr}" in ref for c in self.idx.mro(cls))):
                    for c in self.idx.mro(cls):
                        init = c.methods.get("__init__")
                        for st in (init.node.body if init else ()):
                            tgt = st.targets[0] if isinstance(st, ast.Assign) and len(st.targets) == 1 else st.target if isinstance(st, ast.AnnAssign) else None
                            if (isinstance(tgt, ast.Attribute) and tgt.attr == attr and isinstance(tgt.value, ast.Name) and tgt.value.id == "self"
                                    and getattr(st, "value", None) is not None):
                                val = st.value
                                if isinstance(val, ast.Call) and isinstance(val.func, ast.Name) and val.func.id in ("dict", "list", "set", "OrderedDict") and not val.args and not val.keywords:
                                    v = {"dict": {}, "OrderedDict": {}, "list": [], "set": []}[val.func.id]
                                else:
                                    try:
                                        v = ast.literal_eval(val)
                                    except (ValueError, SyntaxError):
                                        try:
                                            v = self._ctor_value(base, init, attr)
                                        except Undecidable:
                                            return False, None
                                    if isinstance(v, set):
                                        v = list(v)
                                self.store[key] = v
                                self.store.setdefault("__ctor_keys__", []).append(key)   # (a rule that models a new process drops these: the object is built again)
                                return True, v
        return False, None

    def _ctor_value(self, base, init, attr):
        """what the constructor `init` leaves in the new private attribute `attr` of the object at store path `base`: its straight-line
        local assignments are interpreted with every parameter bound to the attribute the constructor stores it in"""
        busy = self.__dict__.setdefault("_ctor_busy", set())
        if (base, attr) in busy:
            raise Undecidable(f"constructor value of {attr}")
        busy.add((base, attr))
        try:
            return self._ctor_value0(base, init, attr)
        finally:
            busy.discard((base, attr))

    def _ctor_value0(self, base, init, attr):
        a = init.node.args
        params = [x.arg for x in a.args[1:]] + [x.arg for x in a.kwonlyargs]
        kept = {}
        for st in init.node.body:
            if (isinstance(st, ast.Assign) and len(st.targets) == 1 and isinstance(st.targets[0], ast.Attribute) and isinstance(st.targets[0].value, ast.Name)
                    and st.targets[0].value.id == "self" and isinstance(st.value, ast.Name) and st.value.id in params):
                kept.setdefault(st.value.id, st.targets[0].attr)
        frame = {"__self__": base}
        for p_ in params:
            if p_ not in kept:
                frame[p_] = Residual(f"{base}.<constructor argument {p_}>")
                continue
            k = f"{base}.{kept[p_]}"
            ok, v = self.lookup(k)
            frame[p_] = v if ok else Residual(k)
        for st in init.node.body:
            if isinstance(st, ast.Assign) and all(isinstance(t, (ast.Name, ast.Tuple)) for t in st.targets):
                self.exec(st, frame)
            elif isinstance(st, (ast.Assign, ast.AnnAssign)) and getattr(st, "value", None) is not None:
                tgt = st.targets[0] if isinstance(st, ast.Assign) else st.target
                if isinstance(tgt, ast.Attribute) and tgt.attr == attr and isinstance(tgt.value, ast.Name) and tgt.value.id == "self":
                    if isinstance(st.value, ast.Name) and st.value.id in params:
                        raise Undecidable(f"{attr} is a constructor argument")
                    return self.eval(st.value, frame)
        raise Undecidable(f"constructor value of {attr}")

    def eval(self, e, frame):
        m = getattr(self, "e_" + type(e).__name__, None)
        if m is None:
            raise Undecidable(f"unsupported expression {type(e).__name__}: {unparse(e)}")
        return m(e, frame)

    def e_Constant(self, e, frame):
        return e.value

    def e_Name(self, e, frame):
        if e.id in ("self", "cls") and e.id not in frame:
            return Residual(frame.get("__self__", e.id))
        if e.id in frame:
            return frame[e.id]
        ok, v = self.lookup(e.id)
        if ok:
            return v
        if e.id in ("True", "False", "None"):
            return {"True": True, "False": False, "None": None}[e.id]
        # a private module-level function of the current file used as a value (a dispatch table entry, a callback)
        if (self.auto_private and self._fi_stack and self.idx is not None and e.id.startswith("_") and not e.id.startswith("__")
                and (self._fi_stack[-1].file, e.id) in getattr(self.idx, "module_funcs", {})):
            return _MethodRef(self, self.idx.module_funcs[(self._fi_stack[-1].file, e.id)], "__module__")
        # a module-level literal constant of the file the current function lives in
        if self._fi_stack and self.idx is not None:
            node = getattr(self.idx, "module_consts", {}).get((self._fi_stack[-1].file, e.id))
            if node is not None:
                try:
                    return ast.literal_eval(node)
                except (ValueError, SyntaxError):
                    pass
                # a constant expression: containers of literals, lambdas, compiled patterns (e.g. a dispatch table hoisted to module level)
                if isinstance(node, (ast.Tuple, ast.List, ast.Dict, ast.Set, ast.Lambda)) or (isinstance(node, ast.Call) and unparse(node.func) in ("re.compile", "frozenset", "tuple", "dict")):
                    try:
                        v = self.eval(node, {})
                    except (Undecidable, Raised):
                        v = None
                    if v is not None and not isinstance(v, (Residual, Obj)):
                        return v
        return Residual(e.id)

    def e_Attribute(self, e, frame):
        key = self.attr_key(e, frame)
        if key is not None:
            ok, v = self.lookup(key)
            if ok:
                return v
        base = self.eval(e.value, frame)
        if isinstance(base, Residual):
            k = f"{base.text}.{e.attr}"
            ok, v = self.lookup(k)
            if ok:
                return v
            if base.text == "operator" and hasattr(operator, e.attr) and "operator" not in frame:
                return _OpRef(self, e.attr)
            if base.text == "string" and e.attr in ("ascii_letters", "ascii_lowercase", "ascii_uppercase", "digits", "hexdigits", "octdigits", "punctuation", "whitespace", "printable"):
                import string as _string
                return getattr(_string, e.attr)  # constants of the stdlib `string` module
            # a reference to a private method of the analysed object's class (e.g. a sort key): a callable that interprets it
            cls0 = self.types.get(base.text)
            if (self.auto_private and cls0 and e.attr.startswith("_") and not e.attr.startswith("__") and self.idx is not None and self.idx.has_cls(cls0)
                    and self.idx.has_method(cls0, e.attr) and not any(e.attr in c.properties for c in self.idx.mro(cls0))):
                return _MethodRef(self, self.idx.method(cls0, e.attr), base.text)
            # property getters of inlinable classes
            cls = self.types.get(base.text)
            if cls and self._inl(cls, e.attr):
                ci = self.idx.cls(cls) if self.idx.has_cls(cls) else None
                if ci:
                    for c in self.idx.mro(cls):
                        pr = c.properties.get(e.attr)
                        if pr and "get" in pr:
                            return self.call_function(pr["get"], {}, base.text)
            return Residual(k)
        if isinstance(base, Obj):
            k = f"{base.name}.{e.attr}"
            ok, v = self.lookup(k)
            if ok:
                return v
            cls = self.types.get(base.name)
            if cls and self._inl(cls, e.attr) and self.idx.has_cls(cls):
                for c in self.idx.mro(cls):
                    pr = c.properties.get(e.attr)
                    if pr and "get" in pr:
                        return self.call_function(pr["get"], {}, base.name)
            return Residual(k)
        if isinstance(base, NTV):
            if e.attr in base.fields:
                return base.field(e.attr)
            if e.attr == "_fields":
                return base.fields
            pr = base.ci.properties.get(e.attr)
            if pr and "get" in pr:
                return self.call_function(pr["get"], {"__selfval__": base}, "__value__")
        if isinstance(base, (str, list, dict, tuple, int, float)) and base is not None:
            return _Bound(base, e.attr)
        if base is None:
            self.path.trace.append(("raise", "AttributeError", f"None.{e.attr}"))
            raise Raised("AttributeError")   # an attribute of None: what Python raises
        raise Undecidable(f"attribute {e.attr} of {base!r}")

    def e_List(self, e, frame):
        return [self.eval(x, frame) for x in e.elts]

    def e_Tuple(self, e, frame):
        return tuple(self.eval(x, frame) for x in e.elts)

    def e_Set(self, e, frame):
        return [self.eval(x, frame) for x in e.elts]

    def e_Dict(self, e, frame):
        out = {}
        for k, v in zip(e.keys, e.values):
            if k is None:
                m = self.eval(v, frame)
                if not isinstance(m, dict):
                    raise Undecidable(f"** of a non-dict in {unparse(e)}")
                out.update(m)
            else:
                out[self.eval(k, frame)] = self.eval(v, frame)
        return out

    def e_JoinedStr(self, e, frame):
        parts = []
        concrete = True
        for v in e.values:
            if isinstance(v, ast.Constant):
                parts.append(str(v.value))
            else:
                x = self.eval(v.value, frame)
                x = self.str_of(x)
                if isinstance(x, Residual):
                    concrete = False
                    parts.append("{" + x.text + "}")
                else:
                    parts.append(str(x))
        s = "".join(parts)
        return s if concrete else Residual("f'" + s + "'")

    def _inl(self, cls, name):
        """is <cls>.<name> to be inlined?  listed under the class itself or under the base class that defines it"""
        if f"{cls}.{name}" in self.inline:
            return True
        if self.auto_private and cls.startswith("_") and self.idx is not None and self.idx.has_cls(cls) and self.idx.has_method(cls, name):
            return True   # a private helper class of the package: its objects are created and used by interpreted code only
        if self.idx is not None and self.idx.has_cls(cls):
            for c in self.idx.mro(cls):
                if f"{c.name}.{name}" in self.inline and (name in c.methods or name in c.properties):
                    return True
        return False

    def str_of(self, x):
        """str() of an abstract object whose class is known and whose __str__ the rule asked to inline: interpret that __str__"""
        if isinstance(x, Obj) and self.types.get(x.name):
            cls = self.types[x.name]
            if f"{cls}.__str__" in self.inline and self.idx.has_method(cls, "__str__"):
                return self.call_function(self.idx.method(cls, "__str__"), {"__pos__": []}, x.name)
        return x

    def e_FormattedValue(self, e, frame):
        return self.eval(e.value, frame)

    def e_IfExp(self, e, frame):
        if self.truth(self.eval(e.test, frame)):
            return self.eval(e.body, frame)
        return self.eval(e.orelse, frame)

    def e_UnaryOp(self, e, frame):
        v = self.eval(e.operand, frame)
        if isinstance(e.op, ast.Not):
            if isinstance(v, Residual):
                return Residual(f"not {_wrap(v.text)}")
            if isinstance(v, Obj):
                return not self.truth(v)   # (an object of a class with __bool__/__len__ is as true as that method says)
            return not v
        if isinstance(e.op, ast.USub):
            if isinstance(v, Residual):
                return Residual(f"-{_wrap(v.text)}")
            return -v
        raise Undecidable(f"unary {unparse(e)}")

    def e_BoolOp(self, e, frame):
        is_and = isinstance(e.op, ast.And)
        last = None
        for sub in e.values:
            last = self.eval(sub, frame)
            t = self.truth(last)
            if is_and and not t:
                return last if not isinstance(last, Residual) else False
            if not is_and and t:
                return last if not isinstance(last, Residual) else True
        if isinstance(last, Residual):
            # its truth was already chosen on this path
            return self.truth(last)
        return last

    def binop(self, op, a, b):
        f, sym = _BIN.get(op, (None, None))
        if f is None:
            raise Undecidable(f"binary operator {op.__name__}")
        if isinstance(a, Residual) or isinstance(b, Residual):
            # arithmetic with a definite None / division by a definite zero faults whatever the unknown is
            if a is None or b is None:
                self.path.trace.append(("raise", "TypeError", f"{txt(a)} {sym} {txt(b)}"))
                raise Raised("TypeError")
            if op in (ast.Div, ast.FloorDiv, ast.Mod) and not isinstance(b, Residual) and b == 0:
                self.path.trace.append(("raise", "ZeroDivisionError", f"{txt(a)} {sym} {txt(b)}"))
                raise Raised("ZeroDivisionError")
            return Residual(f"{_wrap(txt(a))} {sym} {_wrap(txt(b))}")
        try:
            return f(a, b)
        except TypeError:
            raise Raised("TypeError")
        except ZeroDivisionError:
            raise Raised("ZeroDivisionError")

    def e_BinOp(self, e, frame):
        return self.binop(type(e.op), self.eval(e.left, frame), self.eval(e.right, frame))

    def e_Compare(self, e, frame):
        full = unparse(e)
        if full in self.domains:
            return self.choose(full, self.domains[full])
        left = self.eval(e.left, frame)
        result = True
        for op, rnode in zip(e.ops, e.comparators):
            right = self.eval(rnode, frame)
            r = self.compare(type(op), left, right)
            if len(e.ops) == 1:
                return r
            if not self.truth(r):
                return False
            left = right
        return result

    def compare(self, op, a, b):
        f, sym = _CMP[op]
        if isinstance(a, Residual) or isinstance(b, Residual) or isinstance(a, Obj) or isinstance(b, Obj):
            # an abstract object and the symbolic reference of the same name denote the same thing (e.g. `self`)
            if isinstance(a, Obj) and isinstance(b, Residual) and b.text == a.name:
                b = a
            elif isinstance(b, Obj) and isinstance(a, Residual) and a.text == b.name:
                a = b
            if op in (ast.In, ast.NotIn) and isinstance(b, (list, tuple, dict, set, str)) and len(b) == 0:
                return op is ast.NotIn
            # builtin type objects (from type(x) on a concrete value, or the names int/str/...)
            _tn = ("int", "str", "float", "bool", "list", "dict", "tuple", "set", "NoneType", "bytes")
            if isinstance(a, Residual) and isinstance(b, Residual) and a.text in _tn and b.text in _tn and op in (ast.Is, ast.Eq, ast.IsNot, ast.NotEq):
                return (a.text == b.text) if op in (ast.Is, ast.Eq) else (a.text != b.text)
            # identity / equality of a symbol with itself
            if isinstance(a, (Residual, Obj)) and isinstance(b, (Residual, Obj)) and a == b and op in (ast.Is, ast.Eq):
                return True
            if isinstance(a, (Residual, Obj)) and isinstance(b, (Residual, Obj)) and a == b and op in (ast.IsNot, ast.NotEq):
                return False
            if isinstance(a, Obj) and isinstance(b, Obj) and op in (ast.Eq, ast.NotEq):
                # two definite abstract objects of the model: equal iff the same object (the a == b case is decided above)
                return op is ast.NotEq
            if op in (ast.Is, ast.IsNot) and (isinstance(a, Obj) or isinstance(b, Obj)):
                # an Obj is a definite object: never None/True/False
                return op is ast.IsNot
            if op in (ast.In, ast.NotIn) and isinstance(b, (list, tuple)) and isinstance(a, Obj):
                return (a in b) if op is ast.In else (a not in b)
            if op is ast.IsNot:
                return Residual(f"not ({txt(a)} is {txt(b)})")
            if op is ast.NotEq:
                return Residual(f"not ({txt(a)} == {txt(b)})")
            if op is ast.NotIn:
                return Residual(f"not ({txt(a)} in {txt(b)})")
            return Residual(f"{txt(a)} {sym} {txt(b)}")
        try:
            return f(a, b)
        except TypeError:
            self.path.trace.append(("raise", "TypeError", f"{txt(a)} {sym} {txt(b)}"))
            raise Raised("TypeError")

    def e_Subscript(self, e, frame):
        base = self.eval(e.value, frame)
        if isinstance(e.slice, ast.Slice):
            lo = self.eval(e.slice.lower, frame) if e.slice.lower else None
            hi = self.eval(e.slice.upper, frame) if e.slice.upper else None
            st = self.eval(e.slice.step, frame) if e.slice.step else None
            if any(isinstance(x, Residual) for x in (base, lo, hi, st)):
                return Residual(f"{txt(base) if isinstance(base, Residual) else unparse(e.value)}[{'' if lo is None else txt(lo)}:{'' if hi is None else txt(hi)}]")
            return base[lo:hi:st]
        i = self.eval(e.slice, frame)
        if isinstance(base, dict) and isinstance(i, Residual) and self._enum_member(i) and i in base:
            return base[i]   # a table keyed by enum members
        if isinstance(base, Residual) or isinstance(i, Residual):
            key = f"{txt(base) if isinstance(base, Residual) else unparse(e.value)}[{txt(i)}]"
            ok, v = self.lookup(key)
            if ok:
                return v
            return Residual(key)
        try:
            return base[i]
        except (IndexError, KeyError, TypeError) as ex:
            raise Raised(type(ex).__name__)

    def e_Yield(self, e, frame):
        v = self.eval(e.value, frame) if e.value is not None else None
        if self._cur_gen is not None:
            self._cur_gen.yield_(v)   # inside a generator helper: hand the value to the consumer and wait
            return None
        self.path.trace.append(("yield", "yield", v))
        return None

    def e_NamedExpr(self, e, frame):
        v = self.eval(e.value, frame)
        self.assign(e.target, v, frame)
        return v

    def e_Lambda(self, e, frame):
        return _Closure(e, frame, self)

    def _comp(self, gens, frame, first=None):
        """the frames a comprehension's clauses produce, lazily, left to right"""
        g = gens[0]
        it = first if first is not None else self.eval(g.iter, frame)
        if isinstance(it, Residual):
            raise Undecidable(f"comprehension over unknown iterable {it.text}")
        if isinstance(it, dict):
            it = list(it.keys())
        for n, item in enumerate(it if _lazy(it) else list(it)):
            if n > self.max_loop * 64:
                raise Undecidable("comprehension bound exceeded")
            self.assign(g.target, item, frame)
            if all(self.truth(self.eval(c, frame)) for c in g.ifs):
                if len(gens) > 1:
                    yield from self._comp(gens[1:], frame)
                else:
                    yield frame

    def e_ListComp(self, e, frame):
        it = self.eval(e.generators[0].iter, frame)
        if isinstance(it, Residual):
            return Residual(unparse(e))
        return [self.eval(e.elt, fr) for fr in self._comp(e.generators, dict(frame), it)]

    def e_GeneratorExp(self, e, frame):
        # the first iterable is evaluated now, everything else when the consumer asks (Python's own rule)
        it = self.eval(e.generators[0].iter, frame)
        if isinstance(it, Residual):
            return Residual(unparse(e))
        fis = list(self._fi_stack)

        def gen():
            for fr in self._comp(e.generators, dict(frame), it):
                outer, self._fi_stack = self._fi_stack, (fis if not self._fi_stack else self._fi_stack)
                try:
                    v = self.eval(e.elt, fr)
                finally:
                    self._fi_stack = outer
                yield v
        return gen()

    def e_SetComp(self, e, frame):
        out = []
        r = self.e_ListComp(e, frame)
        if isinstance(r, Residual):
            return r
        for x in r:
            if x not in out:
                out.append(x)
        return out

    def e_DictComp(self, e, frame):
        it = self.eval(e.generators[0].iter, frame)
        if isinstance(it, Residual):
            return Residual(unparse(e))
        out = {}
        for fr in self._comp(e.generators, dict(frame), it):
            k = self.eval(e.key, fr)
            if isinstance(k, (Residual, Obj, list, dict)) and not self._enum_member(k):
                raise Undecidable(f"symbolic key in {unparse(e)}")
            out[k] = self.eval(e.value, fr)
        return out

    def e_Call(self, e, frame):
        full = unparse(e)
        if full in self.store:
            self.path.trace.append(("consult", full, self.store[full]))
            return self.store[full]
        if full in self.domains:
            return self.choose(full, self.domains[full], memo=full not in self.volatile)
        f = e.func
        # receiver & callee key
        recv = None
        ckey = None
        meth = None
        if isinstance(f, ast.Attribute):
            meth = f.attr
            recv = self.eval(f.value, frame)
            if isinstance(recv, Residual):
                ckey = f"{recv.text}.{meth}"
            elif isinstance(recv, Obj):
                ckey = f"{recv.name}.{meth}"
            elif isinstance(recv, _Super):
                # the next definition after the defining class in its MRO, on the same object
                a = {k.arg: self.eval(k.value, frame) for k in e.keywords if k.arg}
                a["__pos__"] = self._pos_args(e, frame)
                for c in self.idx.mro(recv.cls)[1:]:
                    if meth in c.methods:
                        return self.call_function(c.methods[meth], a, recv.selfkey)
                return None   # object's own (e.g. object.__init__)
            elif isinstance(recv, _Bound):
                raise Undecidable(f"call on bound builtin {full}")
            else:
                # method of a concrete builtin value
                args = self._pos_args(e, frame)
                ckw = {k.arg: self.eval(k.value, frame) for k in e.keywords if k.arg}
                if isinstance(recv, NTV):
                    if meth == "_replace":
                        return recv.replace(**ckw)
                    if meth == "_asdict":
                        return dict(zip(recv.fields, recv))
                    if meth in recv.ci.methods:
                        a = dict(ckw)
                        a["__pos__"] = args
                        a["__selfval__"] = recv
                        return self.call_function(recv.ci.methods[meth], a, "__value__")
                if isinstance(recv, (list, dict)) and meth in ("append", "extend", "insert", "pop", "remove", "clear", "get", "setdefault", "update", "copy", "index", "count", "keys", "values", "items"):
                    try:
                        return getattr(recv, meth)(*args, **ckw)
                    except Exception as ex:  # pylint: disable=W0718
                        raise Raised(type(ex).__name__)
                if any(isinstance(a, Residual) for a in list(args) + list(ckw.values())):
                    return Residual(f"{txt(recv)}.{meth}({', '.join(txt(a) for a in args)})")
                try:
                    return getattr(recv, meth)(*args, **ckw)
                except (Raised, Undecidable):
                    raise
                except Exception as ex:  # pylint: disable=W0718
                    raise Raised(type(ex).__name__)
        elif isinstance(f, ast.Name):
            meth = f.id
            ckey = f.id
            if f.id in frame and isinstance(frame[f.id], Residual):
                ckey = frame[f.id].text
            elif f.id not in frame and self._fi_stack and self.idx is not None:
                # `from itertools import count` … `count()`: the call the qualified spelling makes
                std = getattr(self.idx, "std_imports", {}).get((self._fi_stack[-1].file, f.id))
                if std and f.id not in self.handlers:
                    mod, _, nm = std.rpartition(".")
                    recv = Residual(mod)
                    meth = nm
                    ckey = std
            if f.id in frame and isinstance(frame[f.id], _Closure):
                return frame[f.id](*self._pos_args(e, frame))
            if f.id in frame and isinstance(frame[f.id], _OpRef):
                return frame[f.id](*self._pos_args(e, frame))
            if f.id in frame and isinstance(frame[f.id], _MethodRef):
                return frame[f.id](*self._pos_args(e, frame), **{k.arg: self.eval(k.value, frame) for k in e.keywords if k.arg})
            # a private helper class of the analysed package (not a NamedTuple): a fresh abstract object whose fields live in the store
            if (self.auto_private and f.id.startswith("_") and f.id not in frame and self.idx is not None and self.idx.has_cls(f.id) and len(self.idx.classes[f.id]) == 1
                    and "NamedTuple" not in self.idx.classes[f.id][0].bases and f.id not in self.handlers):
                return self._new_private(self.idx.classes[f.id][0], self._pos_args(e, frame), {k.arg: self.eval(k.value, frame) for k in e.keywords if k.arg})
            # `X = namedtuple("X", [...])` at module level: the functional form of the same thing
            if f.id not in frame and self._fi_stack and self.idx is not None:
                fn = _functional_nt(getattr(self.idx, "module_consts", {}).get((self._fi_stack[-1].file, f.id)))
                if fn is not None:
                    pos = self._pos_args(e, frame)
                    kw = {k.arg: self.eval(k.value, frame) for k in e.keywords if k.arg}
                    vals = []
                    for i, n in enumerate(fn[1]):
                        if i < len(pos):
                            vals.append(pos[i])
                        elif n in kw:
                            vals.append(kw[n])
                        else:
                            raise Raised("TypeError")
                    return NTV(_PseudoClass(fn[0]), fn[1], vals)
            # a NamedTuple class of the analysed source: its instances are concrete tuples with named fields
            if f.id not in frame and self.idx is not None and self.idx.has_cls(f.id) and len(self.idx.classes[f.id]) == 1 and "NamedTuple" in self.idx.classes[f.id][0].bases:
                ci = self.idx.classes[f.id][0]
                names, defaults = _nt_fields(ci)
                pos = self._pos_args(e, frame)
                kw = {k.arg: self.eval(k.value, frame) for k in e.keywords if k.arg}
                vals = []
                for i, n in enumerate(names):
                    if i < len(pos):
                        vals.append(pos[i])
                    elif n in kw:
                        vals.append(kw[n])
                    elif n in defaults:
                        vals.append(self.eval(defaults[n], {}))
                    else:
                        raise Raised("TypeError")
                return NTV(ci, names, vals)
        elif (isinstance(f, ast.Call) and isinstance(f.func, ast.Name) and f.func.id == "getattr" and len(f.args) == 2 and not f.keywords
              and isinstance(self.eval(f.args[1], frame), str)):
            # getattr(obj, <name known here>)(…) is obj.<name>(…): dispatch it exactly like the plain method call
            syn = ast.Call(func=ast.Attribute(value=f.args[0], attr=self.eval(f.args[1], frame), ctx=ast.Load()), args=e.args, keywords=e.keywords)
            ast.copy_location(syn, e)
            ast.copy_location(syn.func, e)
            return self.e_Call(syn, frame)
        else:
            fv = self.eval(f, frame)
            if isinstance(fv, (_Closure, _MethodRef)):
                return fv(*self._pos_args(e, frame), **{k.arg: self.eval(k.value, frame) for k in e.keywords if k.arg})
            if isinstance(fv, Residual) and self.unknown_calls == "residual":
                # a callee that is itself an unknown value (a class object taken from a table): an unknown call of that value
                args_ = self._pos_args(e, frame)
                kw_ = {k.arg: self.eval(k.value, frame) for k in e.keywords if k.arg}
                self.path.trace.append(("call", fv.text, (args_, kw_)))
                return Residual(f"{fv.text}({', '.join([txt(a) for a in args_] + [k + '=' + txt(v) for k, v in kw_.items()])})")
            raise Undecidable(f"computed callee {full}")
        args = self._pos_args(e, frame)
        kwargs = {}
        for k in e.keywords:
            if k.arg:
                kwargs[k.arg] = self.eval(k.value, frame)
            else:
                m = self.eval(k.value, frame)   # **mapping
                if not isinstance(m, dict):
                    raise Undecidable(f"** of a non-dict value in {full}")
                kwargs.update(m)
        # domains keyed by callee key
        ck_call = f"{ckey}()"
        if ck_call in self.domains:
            return self.choose(ck_call, self.domains[ck_call], memo=ck_call not in self.volatile)
        # … or by the canonical text of the call (receiver and arguments with local aliases resolved), so that
        # `cp = self.matcher.csvpath; cp.scanner.is_last(cp.line_monitor.physical_line_number)` finds the rule's entry
        if ckey and not kwargs:
            canons = [f"{ckey}({', '.join(txt(a) for a in args)})"]
            if isinstance(f, ast.Attribute) and dotted(f.value) is not None:   # plain name/attribute chain only: never re-evaluate a call
                rk = self.attr_key(f.value, frame)   # the receiver as a store path (aliases resolved), also when it holds an abstract object
                if rk:
                    canons.append(f"{rk}.{meth}({', '.join(txt(a) for a in args)})")
            for canon in canons:
                if canon == full:
                    continue
                if canon in self.store:
                    self.path.trace.append(("consult", canon, self.store[canon]))
                    return self.store[canon]
                if canon in self.domains:
                    return self.choose(canon, self.domains[canon], memo=canon not in self.volatile)
        # rule handlers
        h = self.handlers.get(ckey) or (self.handlers.get("." + meth) if recv is not None else None) or (
            self.handlers.get(meth) if recv is None else None)
        if h is not None:
            return h(self, e, recv, args, kwargs)
        # inlining
        if recv is not None and isinstance(recv, Obj) and self.types.get(recv.name) and self._inl(self.types[recv.name], meth):
            fi = self.idx.method(self.types[recv.name], meth)
            a = dict(kwargs)
            a["__pos__"] = args
            return self.call_function(fi, a, recv.name)
        if recv is not None and isinstance(recv, Residual):
            cls = self.types.get(recv.text)
            if cls and cls in self.inline_all and f"{cls}.{meth}" not in self.inline and self.idx.has_method(cls, meth):
                m0 = self.idx.method(cls, meth)
                if m0.cls in self.inline_all or m0.cls == cls:
                    a = dict(kwargs)
                    a["__pos__"] = args
                    return self.call_function(m0, a, recv.text)
            if cls and self._inl(cls, meth):
                fi = self.idx.method(cls, meth)
                a = dict(kwargs)
                a["__pos__"] = args
                return self.call_function(fi, a, recv.text)
        # a private helper of the analysed object's own class that the rule neither modelled nor listed: follow it.  (Extract-method is the
        # commonest refactoring; whatever the rule says about the caller must hold with the callee's code in place.)
        if self.auto_private and recv is not None and isinstance(recv, Residual) and meth.startswith("_") and not meth.startswith("__"):
            cls = self.types.get(recv.text)
            if cls is None and self.idx is not None and self.idx.has_cls(recv.text) and len(self.idx.classes[recv.text]) == 1:
                cls = recv.text   # a static or class method called on the class itself
            if cls and self.idx is not None and self.idx.has_cls(cls) and self.idx.has_method(cls, meth) and len(self._stack) < 12:
                fi = self.idx.method(cls, meth)
                if fi.name == meth:
                    a = dict(kwargs)
                    a["__pos__"] = args
                    if any(isinstance(n, (ast.Yield, ast.YieldFrom)) for n in ast.walk(fi.node)):
                        # a generator helper: nothing runs now; the body runs in step with whoever consumes it
                        return GenV(self, lambda fi=fi, a=a, k=recv.text: self.call_function(fi, a, k))
                    self._stack.append(meth)
                    try:
                        return self.call_function(fi, a, recv.text)
                    finally:
                        self._stack.pop()
        # … and a private module-level helper defined in the file of the function being interpreted
        if (self.auto_private and recv is None and isinstance(f, ast.Name) and meth.startswith("_") and not meth.startswith("__") and self._fi_stack
                and self.idx is not None and (self._fi_stack[-1].file, meth) in getattr(self.idx, "module_funcs", {}) and meth not in frame and len(self._stack) < 12):
            mf = self.idx.module_funcs[(self._fi_stack[-1].file, meth)]
            a = dict(kwargs)
            a["__pos__"] = args
            self._stack.append(meth)
            try:
                return self.call_function(mf, a, "__module__")
            finally:
                self._stack.pop()
        # … a method that did not exist in the tree the rules were written against (so no rule can have modelled it), on a receiver whose
        # class follows from the constructors in the source (`self.modes.return_mode` is a ReturnMode): follow it
        if (self.auto_private and isinstance(recv, Residual) and self.idx is not None and getattr(self.idx, "reference_methods", None) is not None
                and len(self._stack) < 12):
            tcls = self._chain_type(recv.text)
            if tcls and self.idx.has_method(tcls, meth) and not any(f"{c.name}.{meth}" in self.idx.reference_methods for c in self.idx.mro(tcls)):
                mf = self.idx.method(tcls, meth)
                if not any(isinstance(n, (ast.Yield, ast.YieldFrom)) for n in ast.walk(mf.node)):
                    a = dict(kwargs)
                    a["__pos__"] = args
                    self.types.setdefault(recv.text, tcls)
                    self._stack.append(meth)
                    try:
                        return self.call_function(mf, a, recv.text)
                    finally:
                        self._stack.pop()
        # … the same for an abstract object whose class the rule states (a member `cp0` of type CsvPath)
        if (self.auto_private and isinstance(recv, Obj) and self.idx is not None and getattr(self.idx, "reference_methods", None) is not None
                and len(self._stack) < 12 and self.types.get(recv.name) and self.idx.has_cls(self.types[recv.name])):
            tcls = self.types[recv.name]
            if self.idx.has_method(tcls, meth) and not any(f"{c.name}.{meth}" in self.idx.reference_methods for c in self.idx.mro(tcls)):
                mf = self.idx.method(tcls, meth)
                if not any(isinstance(n, (ast.Yield, ast.YieldFrom)) for n in ast.walk(mf.node)):
                    a = dict(kwargs)
                    a["__pos__"] = args
                    self._stack.append(meth)
                    try:
                        return self.call_function(mf, a, recv.name)
                    finally:
                        self._stack.pop()
        # … or a function of a module of the analysed package called through the module's imported name (`pathu.split_mark(…)`)
        if (self.auto_private and isinstance(recv, Residual) and self._fi_stack and self.idx is not None and len(self._stack) < 12
                and (self._fi_stack[-1].file, recv.text) in getattr(self.idx, "module_aliases", {})):
            mrel = self.idx.module_aliases[(self._fi_stack[-1].file, recv.text)]
            mf = self.idx.module_funcs.get((mrel, meth))
            if mf is not None:
                a = dict(kwargs)
                a["__pos__"] = args
                if any(isinstance(n, (ast.Yield, ast.YieldFrom)) for n in ast.walk(mf.node)):
                    return GenV(self, lambda fi=mf, a=a: self.call_function(fi, a, "__module__"))
                self._stack.append(meth)
                try:
                    return self.call_function(mf, a, "__module__")
                finally:
                    self._stack.pop()
        # … or a module-level function of the analysed package called by its bare name (imported helper): follow it too
        if self.auto_private and recv is None and isinstance(f, ast.Name) and meth not in frame and self.idx is not None and len(self._stack) < 12:
            cands = [v for (rel, nm), v in getattr(self.idx, "module_funcs", {}).items() if nm == meth and not rel.startswith("csvpath/cli/")]
            if len(cands) == 1:
                a = dict(kwargs)
                a["__pos__"] = args
                if any(isinstance(n, (ast.Yield, ast.YieldFrom)) for n in ast.walk(cands[0].node)):
                    return GenV(self, lambda fi=cands[0], a=a: self.call_function(fi, a, "__module__"))
                self._stack.append(meth)
                try:
                    return self.call_function(cands[0], a, "__module__")
                finally:
                    self._stack.pop()
        # ignored calls (logging, timing)
        for pat in self.ignore:
            if pat.endswith("."):
                if ("." + ckey).find("." + pat) >= 0 or ckey.startswith(pat):
                    return Residual(full)
            elif ckey == pat or ckey.endswith("." + pat):
                return Residual(full)
        # pure stdlib modules on concrete values
        if ckey and ckey.split(".")[0] in ("operator", "math", "re") and ckey.count(".") == 1:
            import math as _math
            import re as _re
            mod = {"operator": operator, "math": _math, "re": _re}[ckey.split(".")[0]]
            fn = getattr(mod, ckey.split(".")[1], None)
            if mod is _re and ckey.split(".")[1] not in ("compile", "match", "search", "fullmatch", "sub", "split", "findall", "escape"):
                fn = None
            if fn is not None and not any(isinstance(a, (Residual, Obj)) for a in args):
                try:
                    return fn(*args)
                except Exception as ex:  # pylint: disable=W0718
                    raise Raised(type(ex).__name__)
        if ckey in ("datetime.datetime", "datetime.datetime.strptime", "datetime.strptime", "datetime.timedelta", "datetime.date") and not any(
                isinstance(a, (Residual, Obj)) for a in list(args) + list(kwargs.values())) and "datetime" not in frame:
            # constructing / parsing a date from concrete values is pure
            import datetime as _dt
            fn = {"datetime.datetime": _dt.datetime, "datetime.datetime.strptime": _dt.datetime.strptime, "datetime.strptime": _dt.datetime.strptime,
                  "datetime.timedelta": _dt.timedelta, "datetime.date": _dt.date}[ckey]
            try:
                return fn(*args, **kwargs)
            except Exception as ex:  # pylint: disable=W0718
                raise Raised(type(ex).__name__)
        if ckey in ("os.path.isabs", "os.path.normpath", "os.path.splitext", "os.path.dirname", "os.path.basename", "os.path.join") and args and all(
                isinstance(a, str) for a in args) and not kwargs and "os" not in frame:
            # pure string functions of os.path on concrete strings
            try:
                return getattr(os.path, ckey.rsplit(".", 1)[1])(*args)
            except Exception as ex:  # pylint: disable=W0718
                raise Raised(type(ex).__name__)
        if ckey == "itertools.count" and not any(isinstance(a, (Residual, Obj)) for a in args):
            # an unbounded counter: enough values for any loop the budget allows (a loop that exhausts them is undecidable anyway)
            start = args[0] if args else 0
            step = args[1] if len(args) > 1 else 1
            return [start + i * step for i in range(self.max_loop + 1)]
        if recv is None and meth == "super" and not args and meth not in frame and self._fi_stack and self._fi_stack[-1].cls and self.idx is not None:
            return _Super(self._fi_stack[-1].cls, frame.get("__self__", "self"))
        if recv is None and meth == "object" and not args and not kwargs and "object" not in frame:
            # a sentinel: a definite object identical to nothing but itself, named by the place that creates it
            return Obj(f"object@{getattr(e, 'lineno', 0)}:{getattr(e, 'col_offset', 0)}")
        if recv is None and meth == "type" and len(args) == 1 and not isinstance(args[0], (Residual, Obj)):
            return Residual(type(args[0]).__name__)
        # getattr(x, "name") with a name known here is the attribute x.name (property getters and all)
        if (recv is None and meth == "getattr" and len(args) == 2 and isinstance(args[1], str) and isinstance(args[0], (Residual, Obj, NTV)) and "getattr" not in frame
                and dotted(e.args[0]) is not None):
            syn = ast.Attribute(value=e.args[0], attr=args[1], ctx=ast.Load())
            ast.copy_location(syn, e)
            return self.eval(syn, frame)
        # getattr(x, "name") on a symbolic object with a constant name is the attribute x.name
        if recv is None and meth == "getattr" and len(args) >= 2 and isinstance(args[0], Residual) and isinstance(args[1], str):
            k = f"{args[0].text}.{args[1]}"
            ok, v = self.lookup(k)
            if not ok and len(args) == 3 and self.idx is not None and self.types.get(args[0].text) and self.idx.lacks_attr(self.types[args[0].text], args[1]):
                return args[2]   # no instance of that class has such an attribute: the default
            return v if ok else Residual(k)
        if recv is None and meth == "setattr" and len(args) == 3 and isinstance(args[0], (Residual, Obj)) and isinstance(args[1], str) and meth not in frame and dotted(e.args[0]) is not None:
            # setattr(x, "name", v) with a name known here is the assignment x.name = v (property setters and all)
            syn = ast.Attribute(value=e.args[0], attr=args[1], ctx=ast.Store())
            ast.copy_location(syn, e)
            self.assign(syn, args[2], frame)
            return None
        # reflection with a constant name on an abstract object: the same store the attribute syntax uses
        if recv is None and meth in ("getattr", "hasattr", "setattr") and len(args) >= 2 and isinstance(args[0], Obj) and isinstance(args[1], str):
            k = f"{args[0].name}.{args[1]}"
            if meth == "setattr" and len(args) == 3:
                self.store[k] = args[2]
                self.path.trace.append(("set", k, args[2]))
                return None
            ok, v = self.lookup(k)
            if meth == "hasattr" and ok:
                return True
            if meth == "getattr":
                if ok:
                    return v
                if len(args) == 3:
                    return args[2]
        # builtins on concrete values
        if recv is None and meth == "str" and len(args) == 1 and isinstance(args[0], Obj):
            sv = self.str_of(args[0])
            if not isinstance(sv, Obj):
                return sv
        if (ckey in ("dropwhile", "takewhile", "filter", "itertools.dropwhile", "itertools.takewhile", "map") and len(args) >= 2 and meth not in frame
                and (recv is None or (isinstance(recv, Residual) and recv.text == "itertools")) and not any(isinstance(a, (Residual, Obj)) for a in args)):
            import itertools as _it
            pred = args[0]
            if meth == "map":
                return map(pred, *args[1:])
            test = (lambda x: self.truth(x)) if pred is None else (lambda x: self.truth(pred(x)))   # the predicate's verdict is a truth test of the interpreted program
            return {"dropwhile": _it.dropwhile, "takewhile": _it.takewhile, "filter": filter}[meth](test, args[1])
        if ckey in _PURE and (recv is None or (isinstance(recv, Residual) and recv.text in ("functools", "collections", "itertools"))) and meth not in frame:
            if not any(isinstance(a, (Residual, Obj)) for a in args):
                try:
                    return _PURE[ckey](*args, **kwargs)
                except (Raised, Undecidable):
                    raise
                except Exception as ex:  # pylint: disable=W0718
                    raise Raised(type(ex).__name__)
        if recv is None and meth in ("any", "all") and len(args) == 1 and _lazy(args[0]) and meth not in frame:
            # short-circuit over a lazy sequence, element by element, as Python does
            for v in args[0]:
                t = self.truth(v)
                if t and meth == "any":
                    return True
                if not t and meth == "all":
                    return False
            return meth == "all"
        if recv is None and meth in _BUILTINS and meth not in frame:
            if meth not in ("next", "iter", "enumerate", "zip", "isinstance"):
                args = [list(a) if _lazy(a) else a for a in args]
            if meth == "isinstance":
                bt = {"list": list, "int": int, "str": str, "dict": dict, "tuple": tuple, "float": float, "bool": bool}
                if len(args) == 2 and isinstance(args[0], Obj):
                    ts = args[1] if isinstance(args[1], (list, tuple)) else [args[1]]
                    if all(isinstance(t, Residual) and t.text in bt for t in ts):
                        return False  # an abstract object is never a builtin container/scalar
                if len(args) == 2 and not isinstance(args[0], (Residual, Obj)):
                    ts = args[1] if isinstance(args[1], (list, tuple)) else [args[1]]
                    if all(isinstance(t, Residual) and t.text in bt for t in ts):
                        return isinstance(args[0], tuple(bt[t.text] for t in ts))
                if self.isinstance_oracle is not None:
                    return self.isinstance_oracle(self, args, e)
                if len(args) == 2 and isinstance(args[0], Obj) and self.types.get(args[0].name) and self.idx is not None and self.idx.has_cls(self.types[args[0].name]):
                    # an abstract object whose class the rule states, tested against classes of the package: the class hierarchy decides
                    ts = args[1] if isinstance(args[1], (list, tuple)) else [args[1]]
                    if all(isinstance(t, Residual) and self.idx.has_cls(t.text) and len(self.idx.classes[t.text]) == 1 for t in ts):
                        fam = {c.name for c in self.idx.mro(self.types[args[0].name])}
                        return any(t.text in fam for t in ts)
                return Residual(f"isinstance({', '.join(txt(a) for a in args)})")
            shallow = meth in ("len", "list", "tuple", "enumerate", "zip", "reversed", "bool")
            if any(isinstance(a, (Residual, Obj)) for a in args) or (not shallow and any(
                    isinstance(x, (Residual, Obj)) for a in args if isinstance(a, (list, tuple)) for x in a)):
                return Residual(f"{meth}({', '.join(txt(a) for a in args)})")
            try:
                return _BUILTINS[meth](*args, **kwargs)
            except Exception as ex:  # pylint: disable=W0718
                raise Raised(type(ex).__name__)
        if self.unknown_calls == "residual":
            self.path.trace.append(("call", ckey, (args, kwargs)))
            return Residual(f"{ckey}({', '.join([txt(a) for a in args] + [k + '=' + txt(v) for k, v in kwargs.items()])})")
        raise Undecidable(f"call to unmodelled callee {ckey} in {full}")

    def _chain_type(self, text):
        """class of the object a dotted receiver path denotes, from the rule's types for its root and the constructors in the source"""
        if text in self.types:
            return self.types[text]
        if "." not in text and self.idx.has_cls(text) and len(self.idx.classes[text]) == 1:
            return text   # the class itself (a class or static method called on it)
        parts = text.split(".")
        for i in range(len(parts) - 1, 0, -1):
            root = ".".join(parts[:i])
            if root in self.types:
                cls = self.types[root]
                for a in parts[i:]:
                    cls = self.idx.attr_type(cls, a) if cls and self.idx.has_cls(cls) else None
                    if cls is None:
                        return None
                return cls
        return None

    def _new_private(self, ci, pos, kw):
        n = self.store.get("__new__", 0) + 1
        self.store["__new__"] = n
        name = f"{ci.name}#{n}"
        self.types[name] = ci.name
        is_dc = any((isinstance(d, ast.Name) and d.id == "dataclass") or (isinstance(d, ast.Call) and unparse(d.func).endswith("dataclass")) for d in ci.node.decorator_list)
        if is_dc and "__init__" not in ci.methods:
            names, defaults = _nt_fields(ci)
            for i, fld in enumerate(names):
                if i < len(pos):
                    v = pos[i]
                elif fld in kw:
                    v = kw[fld]
                elif fld in defaults:
                    d = defaults[fld]
                    if isinstance(d, ast.Call) and unparse(d.func) in ("field", "dataclasses.field"):
                        fk = {k.arg: k.value for k in d.keywords}
                        if "default_factory" in fk:
                            v = self.eval(ast.Call(func=fk["default_factory"], args=[], keywords=[]), {})
                        elif "default" in fk:
                            v = self.eval(fk["default"], {})
                        else:
                            raise Raised("TypeError")
                    else:
                        v = self.eval(d, {})
                else:
                    raise Raised("TypeError")
                self.store[f"{name}.{fld}"] = v
            if self.idx.has_method(ci.name, "__post_init__"):
                self.call_function(self.idx.method(ci.name, "__post_init__"), {"__pos__": []}, name)
        elif self.idx.has_method(ci.name, "__init__"):
            a = dict(kw)
            a["__pos__"] = list(pos)
            self.call_function(self.idx.method(ci.name, "__init__"), a, name)
        return Obj(name)

    def _pos_args(self, e, frame):
        """positional arguments of a call with `*iterable` expanded"""
        out = []
        for a in e.args:
            if isinstance(a, ast.Starred):
                v = self.eval(a.value, frame)
                if not isinstance(v, (list, tuple)):
                    raise Undecidable(f"* of a value that is not a concrete sequence in {unparse(e)}")
                out.extend(v)
            else:
                out.append(self.eval(a, frame))
        return out

    def record_call(self, key, value=None):
        self.path.trace.append(("call", key, value))


class Obj:
    """a definite abstract object (never None), e.g. one match component"""

    def __init__(self, name):
        self.name = name

    def __repr__(self):
        return f"Obj({self.name})"

    def __eq__(self, o):
        return isinstance(o, Obj) and o.name == self.name

    def __hash__(self):
        return hash(("O", self.name))

    def __deepcopy__(self, memo):
        return self


def _raise_children_exception(interp, call, recv, args, kwargs):
    interp.path.trace.append(("raise", "ChildrenException", txt(args[0]) if args else ""))
    raise Raised("ChildrenException")


class _Closure:
    """a lambda of the analysed source, callable by the interpreter (e.g. as a sort key)"""

    def __init__(self, node, frame, interp):
        self.node = node
        self.frame = frame
        self.interp = interp

    def __call__(self, *args):
        inner = dict(self.frame)
        params = self.node.args.args
        for a, d in zip(params[len(params) - len(self.node.args.defaults):], self.node.args.defaults):
            inner[a.arg] = self.interp.eval(d, self.frame)
        for a, v in zip(params, args):
            inner[a.arg] = v
        if isinstance(self.node, ast.FunctionDef):
            try:
                self.interp.exec_block(self.node.body, inner)
            except _Return as r:
                return r.v
            return None
        return self.interp.eval(self.node.body, inner)

    def __deepcopy__(self, memo):
        return self


class _MethodRef:
    """a bound private method of the analysed class used as a value (sort key, callback): calling it interprets the method"""

    def __init__(self, interp, fi, selfkey):
        self.interp, self.fi, self.selfkey = interp, fi, selfkey

    def __call__(self, *args, **kwargs):
        it = self.interp
        # a rule's model of this method takes precedence, exactly as for a direct call
        h = it.handlers.get(f"{self.selfkey}.{self.fi.name}") or it.handlers.get("." + self.fi.name)
        if h is not None:
            return h(it, None, Residual(self.selfkey), list(args), dict(kwargs))
        a = dict(kwargs)
        a["__pos__"] = list(args)
        return it.call_function(self.fi, a, self.selfkey)

    def __deepcopy__(self, memo):
        return self

    def __repr__(self):
        return f"<method {self.fi.qual}>"


class _GenKill(BaseException):
    pass


class GenV:
    """a generator of the interpreted program (a generator helper called from interpreted code): its body runs lazily, in step with
    the consumer, exactly as in Python (a thread with strict hand-off serves as the coroutine)."""

    def __init__(self, interp, run):
        import threading
        self.interp, self.run = interp, run
        self.started = self.done = self.kill = False
        self.to_gen, self.to_con = threading.Semaphore(0), threading.Semaphore(0)
        self.value = self.exc = None
        self.fi_stack, self.stack = list(interp._fi_stack), list(interp._stack)
        interp._live_gens.append(self)

    def __iter__(self):
        return self

    def __next__(self):
        import threading
        if self.done:
            raise StopIteration
        it = self.interp
        outer = (it._fi_stack, it._stack, it._cur_gen)
        it._fi_stack, it._stack, it._cur_gen = self.fi_stack, self.stack, self
        if not self.started:
            self.started = True
            threading.stack_size(256 * 1024 * 1024)
            self.thread = threading.Thread(target=self._body, daemon=True)
            self.thread.start()
        else:
            self.to_gen.release()
        self.to_con.acquire()
        self.fi_stack, self.stack = it._fi_stack, it._stack
        it._fi_stack, it._stack, it._cur_gen = outer
        if self.exc is not None:
            ex, self.exc = self.exc, None
            raise ex
        if self.done:
            raise StopIteration
        return self.value

    def _body(self):
        import sys
        sys.setrecursionlimit(max(sys.getrecursionlimit(), 20000))
        try:
            self.run()
        except _GenKill:
            pass
        except BaseException as ex:  # pylint: disable=W0718
            self.exc = ex
        self.done = True
        self.to_con.release()

    def yield_(self, v):
        self.value = v
        self.to_con.release()
        self.to_gen.acquire()
        if self.kill:
            raise _GenKill()

    def close(self):
        if self.started and not self.done:
            self.kill = True
            self.to_gen.release()
            self.to_con.acquire()
        self.done = True

    def __deepcopy__(self, memo):
        return self


class NTV(tuple):
    """an instance of a NamedTuple class defined in the analysed source: a tuple whose fields are also attributes"""

    def __new__(cls, ci, fields, values):
        o = tuple.__new__(cls, values)
        o.ci = ci
        o.fields = tuple(fields)
        return o

    def field(self, name):
        return self[self.fields.index(name)]

    def replace(self, **kw):
        vals = list(self)
        for k, v in kw.items():
            vals[self.fields.index(k)] = v
        return NTV(self.ci, self.fields, vals)

    def __deepcopy__(self, memo):
        import copy
        return NTV(self.ci, self.fields, [copy.deepcopy(v, memo) for v in self])

    def __repr__(self):
        return f"{self.ci.name}({', '.join(f'{k}={_show(v)}' for k, v in zip(self.fields, self))})"


class _PseudoClass:
    """stands in for the ClassInfo of a functional namedtuple (no methods of its own)"""

    def __init__(self, name):
        self.name, self.methods, self.properties = name, {}, {}


def _functional_nt(node):
    """(type name, field names) of a `namedtuple("T", ["a", "b"])` / `namedtuple("T", "a b")` call node, else None"""
    if not (isinstance(node, ast.Call) and unparse(node.func) in ("namedtuple", "collections.namedtuple") and len(node.args) == 2 and isinstance(node.args[0], ast.Constant)):
        return None
    try:
        fields = ast.literal_eval(node.args[1])
    except (ValueError, SyntaxError):
        return None
    if isinstance(fields, str):
        fields = fields.replace(",", " ").split()
    if not (isinstance(fields, (list, tuple)) and all(isinstance(x, str) for x in fields)):
        return None
    return node.args[0].value, list(fields)


def _nt_fields(ci):
    """(field names, default nodes) of a `class X(NamedTuple)` body"""
    names, defaults = [], {}
    for st in ci.node.body:
        if isinstance(st, ast.AnnAssign) and isinstance(st.target, ast.Name):
            names.append(st.target.id)
            if st.value is not None:
                defaults[st.target.id] = st.value
    return names, defaults


class _Super:
    """the value of `super()` inside a method of class cls running on the object selfkey"""

    def __init__(self, cls, selfkey):
        self.cls, self.selfkey = cls, selfkey

    def __deepcopy__(self, memo):
        return self


class _OpRef:
    """a function of the stdlib `operator` module used as a value (e.g. in a dispatch table): calling it is the operator itself"""
    _CMP = {"lt": ast.Lt, "le": ast.LtE, "gt": ast.Gt, "ge": ast.GtE, "eq": ast.Eq, "ne": ast.NotEq, "is_": ast.Is, "is_not": ast.IsNot}

    def __init__(self, interp, name):
        self.interp, self.name = interp, name

    def __call__(self, *args):
        if self.name in self._CMP and len(args) == 2:
            return self.interp.compare(self._CMP[self.name], args[0], args[1])
        if any(isinstance(a, (Residual, Obj)) for a in args):
            return Residual(f"operator.{self.name}({', '.join(txt(a) for a in args)})")
        try:
            return getattr(operator, self.name)(*args)
        except Exception as ex:  # pylint: disable=W0718
            raise Raised(type(ex).__name__)

    def __deepcopy__(self, memo):
        return self

    def __eq__(self, o):
        return isinstance(o, _OpRef) and o.name == self.name

    def __hash__(self):
        return hash(("op", self.name))

    def __repr__(self):
        return f"operator.{self.name}"


class _Bound:
    def __init__(self, base, attr):
        self.base = base
        self.attr = attr


def _load(t):
    import copy

    n = copy.deepcopy(t)
    for x in ast.walk(n):
        if hasattr(x, "ctx"):
            x.ctx = ast.Load()
    return n
