"""Report plumbing: obligations, violations keyed by rule+construct, known findings, evidence."""
import json
import os
import time

VERIF = os.path.dirname(os.path.dirname(os.path.abspath(__file__)))


class Report:
    def __init__(self, pid, tier="quick", seed=0):
        self.pid = pid
        self.tier = tier
        self.seed = seed
        self.t0 = time.time()
        self.obligations = []  # dict(rule, key, ok, detail, where)
        self.notes = []
        self.samples = []
        self.stats = {}
        self.rules = {}  # rule id -> description
        self.functions = set()
        self.explanation = ""
        self.trusted = []
        self.assumptions = []
        self.instances = {}  # rule -> count of matched constructs

    # --------------------------------------------------------------
    def rule(self, rid, text):
        self.rules[rid] = text
        self.instances.setdefault(rid, 0)

    def ok(self, rid, key, detail="", where=""):
        self.obligations.append(dict(rule=rid, key=key, ok=True, detail=detail, where=where))
        self.instances[rid] = self.instances.get(rid, 0) + 1

    def fail(self, rid, key, detail, where=""):
        self.obligations.append(dict(rule=rid, key=key, ok=False, detail=detail, where=where))
        self.instances[rid] = self.instances.get(rid, 0) + 1

    def check(self, cond, rid, key, detail="", where=""):
        if cond:
            self.ok(rid, key, detail, where)
        else:
            self.fail(rid, key, detail, where)
        return cond

    def note(self, text):
        self.notes.append(text)

    def sample(self, obj):
        if len(self.samples) < 40:
            self.samples.append(obj)

    def analysed(self, *funcs):
        for f in funcs:
            self.functions.add(f if isinstance(f, str) else f.key())

    def floor(self, rid, n, what):
        """vacuity guard: a rule that matched fewer constructs than confirmed by hand is broken"""
        from .index import AnalysisError

        got = self.instances.get(rid, 0)
        if got < n:
            raise AnalysisError(f"{self.pid}.{rid}: matched {got} {what}, fewer than the {n} confirmed by reading the tree")

    # --------------------------------------------------------------
    def finish(self):
        kf = load_known()
        open_keys = {}
        for f in kf.get("open", []):
            if f["property"] == self.pid:
                open_keys[f["key"]] = f
        violations = []
        known_hit = []
        for o in self.obligations:
            if o["ok"]:
                continue
            full = f"{self.pid}.{o['rule']} {o['key']}"
            if full in open_keys:
                known_hit.append((full, o, open_keys[full]))
            else:
                violations.append((full, o))
        for n in self.notes:
            print(f"NOTE: {n}")
        seen = set()
        for full, o, f in known_hit:
            if full in seen:
                continue
            seen.add(full)
            print(f"KNOWN-FINDING: property={self.pid} {full} :: {f['what']} [{o['where']}]")
        replay = None
        if violations:
            os.makedirs(os.path.join(VERIF, "replay"), exist_ok=True)
            replay = os.path.join(VERIF, "replay", f"{self.pid}.json")
            with open(replay, "w") as fh:
                json.dump({"property": self.pid, "violations": [dict(o, full_key=full) for full, o in violations]}, fh, indent=1)
            for full, o in violations:
                print(f"FAIL {full}\n     at {o['where']}\n     {o['detail']}")
            print(f"VIOLATION property={self.pid} replay={replay}")
        n_ob = len(self.obligations)
        n_ok = sum(1 for o in self.obligations if o["ok"])
        distinct = len({(o["rule"], o["key"]) for o in self.obligations})
        ev = {
            "property_id": self.pid,
            "tier": self.tier,
            "seed": self.seed,
            "level": "other",
            "coverage": {
                "explanation": self.explanation,
                "obligations": n_ob,
                "discharged": n_ok,
                "known_findings_hit": sorted(seen),
                "evaluations": n_ob + int(self.stats.get("table_rows", 0)),
                "distinct_nontrivial": distinct,
                "rule": "one obligation per (rule, construct) instance found in the current tree; distinct = distinct (rule, construct) keys; table_rows = rows of finite decision tables enumerated",
                "rules": self.rules,
                "rule_instances": self.instances,
                "functions_analysed": sorted(self.functions),
                "stats": self.stats,
                "samples": self.samples or [o for o in self.obligations[:10]],
                "exhaustive": bool(self.stats.get("exhaustive", False)),
                "checker_cmd": f"./check {self.pid} --tier {self.tier}",
                "trusted_base": self.trusted or ["python ast", "the frozen specification tables in rules/" + self.pid.lower() + ".py"],
                "repo": os.environ.get("VERIF_REPO", "/repo"),
            },
            "assumptions": self.assumptions,
            "wall_s": round(time.time() - self.t0, 3),
            "violations": len(violations),
        }
        evdir = os.environ.get("VERIF_EVIDENCE_DIR", os.path.join(VERIF, "evidence"))
        os.makedirs(evdir, exist_ok=True)
        with open(os.path.join(evdir, f"{self.pid}.json"), "w") as fh:
            json.dump(ev, fh, indent=1, default=str)
        print(f"{self.pid}: {n_ok}/{n_ob} obligations discharged, {len(seen)} known finding(s), {len(violations)} violation(s), "
              f"{len(self.functions)} functions analysed, {ev['wall_s']}s")
        return 1 if violations else 0


def load_known():
    p = os.path.join(VERIF, "known_findings.json")
    if not os.path.exists(p):
        return {"open": [], "fixed": []}
    with open(p) as fh:
        return json.load(fh)
