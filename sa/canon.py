"""Rename recovery for private names (attributes, methods, module-level helpers).

The rules identify state and helpers of the analysed classes by name (`CsvPath._freeze_path`, `Matcher._do_lasts`, …).
A consistent rename of a private name changes no behaviour, so it must not change a verdict.  Before the rules run,
the current tree is compared with the reference inventory recorded from the tree the rules were written against
(`sa/private_roles.json`, produced by `tools/gen_roles.py`): a private name of a class that is gone is matched with a
private name of the same class that is new when both are used the same way — the same set of (enclosing function,
load/store/call) sites, and for methods the same parameters.  A matched pair is renamed *in the parsed syntax trees*
back to the reference name, everywhere (the renamed program is alpha-equivalent to the real one: every verdict on it
is a verdict on the real source; positions are untouched, so reports still point at the real lines).

No match (a private name that really disappeared) changes nothing here: the rule that needs it stops with
`anchor vanished` (exit 2), as before.
"""
import ast
import json
import os

ROLES = os.path.join(os.path.dirname(os.path.abspath(__file__)), "private_roles.json")


def _private(n):
    return n.startswith("_") and not (n.startswith("__") and n.endswith("__"))


class _Collector:
    """one pass over all files: class table, private attribute / method / module-name occurrences"""

    def __init__(self, files):
        self.files = files
        self.bases = {}      # class -> [base names]
        self.defines = {}    # class -> set of private names the class itself stores on self / defines as method / assigns in its body
        self.cls_file = {}
        self.methods = {}    # (class, name) -> [param names]
        self.occ = []        # (rel, class or None, func qual, node, kind) kind in {"attr-self","attr-other","def","modname"}
        for rel, (_src, tree) in files.items():
            self._file(rel, tree)

    def _file(self, rel, tree):
        mod_private = set()
        for st in tree.body:
            if isinstance(st, (ast.FunctionDef, ast.AsyncFunctionDef)) and _private(st.name):
                mod_private.add(st.name)
            elif isinstance(st, ast.Assign):
                for t in st.targets:
                    if isinstance(t, ast.Name) and _private(t.id):
                        mod_private.add(t.id)
        self.mod_private = getattr(self, "mod_private", {})
        self.mod_private[rel] = mod_private

        def visit(node, cls, qual):
            if isinstance(node, ast.ClassDef):
                self.bases.setdefault(node.name, [b.id if isinstance(b, ast.Name) else b.attr for b in node.bases if isinstance(b, (ast.Name, ast.Attribute))])
                self.cls_file.setdefault(node.name, rel)
                d = self.defines.setdefault(node.name, set())
                for st in node.body:
                    if isinstance(st, (ast.FunctionDef, ast.AsyncFunctionDef)):
                        if _private(st.name):
                            d.add(st.name)
                            self.methods[(node.name, st.name)] = [a.arg for a in st.args.posonlyargs + st.args.args + st.args.kwonlyargs][1:]
                            self.occ.append((rel, node.name, f"{node.name}.<class>", st, "def"))
                        visit(st, node.name, f"{node.name}.{st.name}")
                    elif isinstance(st, (ast.Assign, ast.AnnAssign)):
                        ts = st.targets if isinstance(st, ast.Assign) else [st.target]
                        for t in ts:
                            if isinstance(t, ast.Name) and _private(t.id):
                                d.add(t.id)
                                self.occ.append((rel, node.name, f"{node.name}.<class>", t, "classvar"))
                        for sub in ast.iter_child_nodes(st):
                            visit(sub, node.name, f"{node.name}.<class>")
                    else:
                        visit(st, node.name, f"{node.name}.<class>")
                return
            if isinstance(node, (ast.FunctionDef, ast.AsyncFunctionDef)) and qual is None:
                qual = f"{rel}:{node.name}"
                if _private(node.name):
                    self.occ.append((rel, None, f"{rel}:<module>", node, "moddef"))
            if isinstance(node, ast.Attribute) and _private(node.attr):
                recv_self = isinstance(node.value, ast.Name) and node.value.id in ("self", "cls") and cls is not None
                kind = "attr-self" if recv_self else "attr-other"
                ctx = type(node.ctx).__name__
                self.occ.append((rel, cls, qual or f"{rel}:<module>", node, kind + ":" + ctx))
                if recv_self and ctx == "Store":
                    self.defines.setdefault(cls, set()).add(node.attr)
            if isinstance(node, ast.Name) and node.id in mod_private:
                self.occ.append((rel, None, qual or f"{rel}:<module>", node, "modname:" + type(node.ctx).__name__))
            for sub in ast.iter_child_nodes(node):
                visit(sub, cls, qual)

        for st in tree.body:
            visit(st, None, None)

    def mro(self, c, seen=None):
        seen = seen if seen is not None else set()
        if c in seen or c not in self.bases:
            return []
        seen.add(c)
        out = [c]
        for b in self.bases[c]:
            out += self.mro(b, seen)
        return out

    def owner(self, cls, name):
        """the most basic class of cls's family that defines the private name (so subclasses' uses count for it)"""
        own = cls
        for c in self.mro(cls):
            if name in self.defines.get(c, ()):
                own = c
        return own


def inventory(files):
    """{"attrs": {"Class.name": [[func, kind], …]}, "methods": {"Class.name": params}, "mod": {"rel:name": [[func, kind]…]}}"""
    c = _Collector(files)
    attrs, mod = {}, {}
    for rel, cls, qual, node, kind in c.occ:
        if kind.startswith("attr-self") or kind in ("def", "classvar"):
            name = node.attr if isinstance(node, ast.Attribute) else (node.name if kind == "def" else node.id)
            own = c.owner(cls, name)
            k = "call" if kind == "def" else kind.split(":")[-1]
            attrs.setdefault(f"{own}.{name}", set()).add((qual, "def" if kind == "def" else k))
        elif kind.startswith("modname") or kind == "moddef":
            name = node.id if isinstance(node, ast.Name) else node.name
            mod.setdefault(f"{rel}:{name}", set()).add((qual, kind.split(":")[-1]))
    all_methods = set()
    for rel, (_src, tree) in files.items():
        for st in ast.walk(tree):
            if isinstance(st, ast.ClassDef):
                for m in st.body:
                    if isinstance(m, (ast.FunctionDef, ast.AsyncFunctionDef)):
                        all_methods.add(f"{st.name}.{m.name}")
    return {
        "all_methods": sorted(all_methods),
        "attrs": {k: sorted(map(list, v)) for k, v in sorted(attrs.items())},
        "methods": {f"{k[0]}.{k[1]}": v for k, v in sorted(c.methods.items())},
        "mod": {k: sorted(map(list, v)) for k, v in sorted(mod.items())},
    }, c


def reference_methods():
    """every `Class.method` of the reference tree (the tree the rules were written against), or None when there is no inventory"""
    if not os.path.exists(ROLES):
        return None
    with open(ROLES) as fh:
        return set(json.load(fh).get("all_methods", []))


def reference_attrs():
    """every private `Class._name` (attribute or method) of the reference tree, or None when there is no inventory"""
    if not os.path.exists(ROLES):
        return None
    with open(ROLES) as fh:
        return set(json.load(fh).get("attrs", {}))


def _sim(a, b):
    a, b = set(map(tuple, a)), set(map(tuple, b))
    if not a or not b:
        return 0.0
    return len(a & b) / len(a | b)


def _match(missing, new, sig_ref, sig_cur, extra=None):
    """greedy one-to-one matching of reference names that are gone with current names that are new, by use-site similarity"""
    cands = []
    for m in missing:
        for n in new:
            if extra is not None and not extra(m, n):
                continue
            cands.append((_sim(sig_ref[m], sig_cur[n]), m, n))
    cands.sort(key=lambda t: (-t[0], t[1], t[2]))
    out = {}
    used_m, used_n = set(), set()
    for s, m, n in cands:
        if m in used_m or n in used_n:
            continue
        rivals = [s2 for s2, m2, n2 in cands if (m2 == m) != (n2 == n) and m2 not in used_m - {m} and n2 not in used_n - {n}]
        if s >= 0.34 and all(s - r >= 0.1 for r in rivals):
            out[n] = (m, round(s, 2))
            used_m.add(m)
            used_n.add(n)
    return out


def _requal(sig, ren):
    """use sites with the enclosing function's name mapped through the recovered method renames"""
    out = []
    for q, k in sig:
        if "." in q and ":" not in q:
            c, _, f = q.partition(".")
            q = f"{c}.{ren.get((c, f), f)}"
        out.append((q, k))
    return out


def recover(files):
    """renames current private names back to their reference names in the parsed trees (in place).
    Returns the list of recovered renames [(scope, current, reference, similarity)]."""
    if os.environ.get("VERIF_NO_CANON") or not os.path.exists(ROLES):
        return []
    with open(ROLES) as fh:
        ref = json.load(fh)
    cur, col = inventory(files)
    done = []
    by_cls_ref, by_cls_cur = {}, {}
    for k in ref["attrs"]:
        by_cls_ref.setdefault(k.partition(".")[0], set()).add(k.partition(".")[2])
    for k in cur["attrs"]:
        by_cls_cur.setdefault(k.partition(".")[0], set()).add(k.partition(".")[2])
    # methods first (their names are part of every other use site), then the rest with the method names mapped back
    ren = {}   # (class, current name) -> reference name
    # (repeated while it finds something: a recovered method name makes the use sites inside that method comparable in the next round)
    for phase in ("methods", "methods", "methods", "attrs", "methods", "attrs"):
        for cls in sorted(by_cls_ref):
            if cls not in by_cls_cur:
                continue
            is_m_ref = lambda n: f"{cls}.{n}" in ref["methods"]   # noqa: E731
            is_m_cur = lambda n: f"{cls}.{n}" in cur["methods"]   # noqa: E731
            missing = sorted(n for n in by_cls_ref[cls] - by_cls_cur[cls] if is_m_ref(n) == (phase == "methods") and n not in {r for (c, _n), r in ren.items() if c == cls})
            new = sorted(n for n in by_cls_cur[cls] - by_cls_ref[cls] if is_m_cur(n) == (phase == "methods") and (cls, n) not in ren)
            if not missing or not new:
                continue
            sig_ref = {m: [tuple(x) for x in ref["attrs"][f"{cls}.{m}"]] for m in missing}
            fam = {}
            for (c, n), r in ren.items():
                fam[(c, n)] = r
            sig_cur = {n: _requal([tuple(x) for x in cur["attrs"][f"{cls}.{n}"]], _family_ren(col, fam)) for n in new}
            extra = None
            if phase == "methods":
                extra = lambda m, n: len(ref["methods"][f"{cls}.{m}"]) == len(cur["methods"][f"{cls}.{n}"])   # noqa: E731
            for n, (m, s) in _match(missing, new, sig_ref, sig_cur, extra).items():
                ren[(cls, n)] = m
                done.append((cls, n, m, s))
    # module-level private names, per file
    mren = {}
    by_file_ref, by_file_cur = {}, {}
    for k in ref["mod"]:
        by_file_ref.setdefault(k.rpartition(":")[0], set()).add(k.rpartition(":")[2])
    for k in cur["mod"]:
        by_file_cur.setdefault(k.rpartition(":")[0], set()).add(k.rpartition(":")[2])
    for rel in sorted(by_file_ref):
        if rel not in by_file_cur:
            continue
        missing = sorted(by_file_ref[rel] - by_file_cur[rel])
        new = sorted(by_file_cur[rel] - by_file_ref[rel])
        if not missing or not new:
            continue
        sig_ref = {m: [tuple(x) for x in ref["mod"][f"{rel}:{m}"]] for m in missing}
        sig_cur = {n: _requal([tuple(x) for x in cur["mod"][f"{rel}:{n}"]], _family_ren(col, ren)) for n in new}
        for n, (m, s) in _match(missing, new, sig_ref, sig_cur).items():
            mren[(rel, n)] = m
            done.append((rel, n, m, s))
    if ren or mren:
        _apply(files, col, ren, mren)
    return done


def _family_ren(col, ren):
    """(class, name) -> reference name, extended to every subclass of the owning class"""
    out = dict(ren)
    for (c, n), r in ren.items():
        for sub in col.bases:
            if c in col.mro(sub):
                out.setdefault((sub, n), r)
    return out


def _apply(files, col, ren, mren):
    fam = _family_ren(col, ren)
    # a name renamed in every class that has it can also be renamed on receivers other than self (x.matcher._name)
    by_name = {}
    for (c, n), r in ren.items():
        by_name.setdefault(n, set()).add(r)
    keepers = set()
    for c, names in col.defines.items():
        for n in names:
            if n in by_name and (c, n) not in fam:
                keepers.add(n)
    global_ren = {n: next(iter(rs)) for n, rs in by_name.items() if len(rs) == 1 and n not in keepers}
    for rel, cls, qual, node, kind in col.occ:
        if kind.startswith("attr-self"):
            own = col.owner(cls, node.attr)
            r = fam.get((own, node.attr)) or fam.get((cls, node.attr))
            if r:
                node.attr = r
        elif kind.startswith("attr-other"):
            if node.attr in global_ren:
                node.attr = global_ren[node.attr]
        elif kind == "def":
            r = fam.get((col.owner(cls, node.name), node.name)) or fam.get((cls, node.name))
            if r:
                node.name = r
        elif kind == "classvar":
            r = fam.get((col.owner(cls, node.id), node.id)) or fam.get((cls, node.id))
            if r:
                node.id = r
        elif kind.startswith("modname"):
            r = mren.get((rel, node.id))
            if r:
                node.id = r
        elif kind == "moddef":
            r = mren.get((rel, node.name))
            if r:
                node.name = r
    # reflection with a constant private name
    for rel, (_src, tree) in files.items():
        for n in ast.walk(tree):
            if (isinstance(n, ast.Call) and isinstance(n.func, ast.Name) and n.func.id in ("getattr", "setattr", "hasattr") and len(n.args) >= 2
                    and isinstance(n.args[1], ast.Constant) and isinstance(n.args[1].value, str) and n.args[1].value in global_ren):
                n.args[1].value = global_ren[n.args[1].value]
