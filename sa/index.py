"""E0 — source index over /repo/csvpath (no import of the analysed code, ast only).

Discovers every *.py under <repo>/csvpath by walking the file system (21 package directories
have no __init__.py, so package-import based discovery would miss them), parses each file and
builds: module table, class table (bases resolved by name, linearised MRO, subclasses),
method table, class-level assignments, per-class attribute stores.
"""
import ast
import os
import sys
import hashlib


class AnalysisError(Exception):
    """The analysis cannot run (vanished anchor, parse error, unrecognised idiom).  Exit 2."""


def repo_root():
    return os.environ.get("VERIF_REPO", "/repo")


class FuncInfo:
    __slots__ = ("name", "cls", "file", "node", "qual")

    def __init__(self, name, cls, file, node):
        self.name = name
        self.cls = cls
        self.file = file
        self.node = node
        self.qual = f"{cls}.{name}" if cls else name

    def loc(self, node=None):
        n = node if node is not None else self.node
        return f"{self.file}:{getattr(n, 'lineno', '?')}"

    def key(self):
        return f"{self.file}::{self.qual}"

    def __repr__(self):
        return f"<Func {self.key()}>"


class ClassInfo:
    def __init__(self, name, file, node):
        self.name = name
        self.file = file
        self.node = node
        self.bases = []
        for b in node.bases:
            if isinstance(b, ast.Name):
                self.bases.append(b.id)
            elif isinstance(b, ast.Attribute):
                self.bases.append(b.attr)
        self.methods = {}
        self.class_assigns = {}  # name -> value node
        self.properties = {}  # name -> {"get": FuncInfo, "set": FuncInfo}
        for st in node.body:
            if isinstance(st, (ast.FunctionDef, ast.AsyncFunctionDef)):
                fi = FuncInfo(st.name, name, file, st)
                kind = None
                for d in st.decorator_list:
                    if isinstance(d, ast.Name) and d.id == "property":
                        kind = "get"
                    elif isinstance(d, ast.Attribute) and d.attr == "setter":
                        kind = "set"
                if kind:
                    self.properties.setdefault(st.name, {})[kind] = fi
                    if kind == "get":
                        self.methods[st.name] = fi
                    else:
                        self.methods[st.name + ".setter"] = fi
                else:
                    self.methods[st.name] = fi
            elif isinstance(st, ast.Assign):
                for t in st.targets:
                    if isinstance(t, ast.Name):
                        self.class_assigns[t.id] = st.value
            elif isinstance(st, ast.AnnAssign) and isinstance(st.target, ast.Name) and st.value is not None:
                self.class_assigns[st.target.id] = st.value

    def __repr__(self):
        return f"<Class {self.name} {self.file}>"


class Index:
    def __init__(self, root=None, pkg="csvpath"):
        self.root = root or repo_root()
        self.pkg = pkg
        self.files = {}  # relpath -> (source, tree)
        self.classes = {}  # name -> [ClassInfo]
        self.module_funcs = {}  # (relpath, name) -> FuncInfo
        self.module_consts = {}  # (relpath, name) -> value node of a module-level `NAME = <expr>` assigned exactly once
        self.std_imports = {}  # (relpath, local name) -> 'module.name' for `from <stdlib module> import name`
        self.module_aliases = {}  # (relpath, local name) -> relpath of the package module that name is bound to by an import
        self.parse_errors = []
        base = os.path.join(self.root, pkg)
        if not os.path.isdir(base):
            raise AnalysisError(f"package directory {base} not found")
        for dp, dns, fns in os.walk(base):
            dns[:] = sorted(d for d in dns if d != "__pycache__")
            for fn in sorted(fns):
                if not fn.endswith(".py"):
                    continue
                full = os.path.join(dp, fn)
                rel = os.path.relpath(full, self.root)
                try:
                    with open(full, encoding="utf-8") as f:
                        src = f.read()
                    tree = ast.parse(src, filename=rel)
                except (SyntaxError, UnicodeDecodeError) as e:
                    self.parse_errors.append((rel, str(e)))
                    continue
                self.files[rel] = (src, tree)
        if self.parse_errors:
            raise AnalysisError(f"cannot parse: {self.parse_errors}")
        # private names that were only renamed are mapped back to the names the rules know (see sa/canon.py)
        from sa import canon
        self.renames = canon.recover(self.files)
        self.reference_methods = canon.reference_methods()
        self.reference_attrs = canon.reference_attrs()
        self._attr_types = None
        for rel, (src, tree) in self.files.items():
            for node in tree.body:
                self._index_top(rel, node)
                self._index_import(rel, node)
        self._sub = None

    def _index_top(self, rel, node):
        if isinstance(node, ast.ClassDef):
            ci = ClassInfo(node.name, rel, node)
            self.classes.setdefault(node.name, []).append(ci)
        elif isinstance(node, (ast.FunctionDef, ast.AsyncFunctionDef)):
            self.module_funcs[(rel, node.name)] = FuncInfo(node.name, None, rel, node)
        elif isinstance(node, ast.Assign) and len(node.targets) == 1 and isinstance(node.targets[0], ast.Name):
            k = (rel, node.targets[0].id)
            # a name bound twice at module level is not a constant
            self.module_consts[k] = None if k in self.module_consts else node.value
        elif (isinstance(node, ast.Assign) and len(node.targets) == 1 and isinstance(node.targets[0], ast.Tuple) and isinstance(node.value, ast.Tuple)
              and len(node.targets[0].elts) == len(node.value.elts) and all(isinstance(t, ast.Name) for t in node.targets[0].elts)):
            # A, B, C = 0, 1, 2
            for t, v in zip(node.targets[0].elts, node.value.elts):
                k = (rel, t.id)
                self.module_consts[k] = None if k in self.module_consts else v
        elif isinstance(node, (ast.If, ast.Try)):
            for sub in ast.iter_child_nodes(node):
                if isinstance(sub, (ast.ClassDef, ast.FunctionDef)):
                    self._index_top(rel, sub)

    def attr_type(self, cls, attr):
        """the package class of `<cls instance>.<attr>` when every store `self.<attr> = T(…)` in the class family constructs the same
        class T of the package; else None"""
        if self._attr_types is None:
            self._attr_types = {}
            for cname, cis in self.classes.items():
                for ci in cis:
                    for m in ci.methods.values():
                        for n in ast.walk(m.node):
                            if isinstance(n, ast.Assign) and len(n.targets) == 1 and isinstance(n.targets[0], ast.Attribute) and isinstance(n.targets[0].value, ast.Name) \
                                    and n.targets[0].value.id == "self":
                                v = n.value
                                t = v.func.id if isinstance(v, ast.Call) and isinstance(v.func, ast.Name) and v.func.id in self.classes else None
                                if t is None and isinstance(v, ast.Constant) and v.value is None:
                                    continue  # a None placeholder before the real object
                                self._attr_types.setdefault((cname, n.targets[0].attr), set()).add(t)
        for c in self.mro(cls):
            ts = self._attr_types.get((c.name, attr))
            if ts:
                return next(iter(ts)) if len(ts) == 1 and None not in ts else None
        return None

    def lacks_attr(self, cls, attr):
        """True when no instance of package class `cls` can have attribute `attr`: the class family is closed (every base is a class of the
        package or object) and nothing in it defines a method, property, class-level name or `self.<attr>` store of that name, and nothing
        in the package sets it from outside (`<x>.<attr> = …`, setattr with a computed name)"""
        cs = self.classes.get(cls)
        if not cs or len(cs) != 1:
            return False
        fam = self.mro(cls)
        for c in fam:
            if any(b not in self.classes and b not in ("object", "ABC") for b in c.bases) or "__getattr__" in c.methods or "__slots__" in c.class_assigns:
                return False
            if attr in c.methods or attr in c.properties or attr in c.class_assigns:
                return False
        if getattr(self, "_stored_attrs", None) is None:
            self._stored_attrs = set()
            self._dyn_setattr = False
            for rel, (src, tree) in self.files.items():
                for n in ast.walk(tree):
                    if isinstance(n, ast.Attribute) and isinstance(n.ctx, ast.Store):
                        self._stored_attrs.add(n.attr)
                    elif isinstance(n, ast.Call) and isinstance(n.func, ast.Name) and n.func.id == "setattr" and len(n.args) >= 2:
                        if isinstance(n.args[1], ast.Constant) and isinstance(n.args[1].value, str):
                            self._stored_attrs.add(n.args[1].value)
                        else:
                            self._dyn_setattr = True
                    elif isinstance(n, ast.Attribute) and n.attr == "__dict__":
                        self._dyn_setattr = True
        return attr not in self._stored_attrs and not self._dyn_setattr

    def _module_rel(self, rel, module, level):
        """relpath of the package module `module` imported from file rel (level = leading dots), or None"""
        if level:
            base = rel.split("/")[:-1]
            base = base[:len(base) - (level - 1)] if level > 1 else base
            parts = base + (module.split(".") if module else [])
        else:
            parts = module.split(".") if module else []
        for cand in ("/".join(parts) + ".py", "/".join(parts) + "/__init__.py"):
            if cand in self.files:
                return cand
        return None

    _STD = ("itertools", "functools", "collections", "operator", "math", "os.path", "copy", "hashlib")

    def _index_import(self, rel, node):
        if isinstance(node, ast.ImportFrom) and node.level == 0 and node.module in self._STD:
            for a in node.names:
                self.std_imports[(rel, a.asname or a.name)] = f"{node.module}.{a.name}"
        if isinstance(node, ast.ImportFrom):
            for a in node.names:
                m = self._module_rel(rel, ((node.module + ".") if node.module else "") + a.name, node.level)
                if m:
                    self.module_aliases[(rel, a.asname or a.name)] = m
        elif isinstance(node, ast.Import):
            for a in node.names:
                m = self._module_rel(rel, a.name, 0)
                if m and a.asname:
                    self.module_aliases[(rel, a.asname)] = m

    # ---------------------------------------------------------------- look-ups
    def digest(self):
        h = hashlib.sha256()
        for rel in sorted(self.files):
            h.update(rel.encode())
            h.update(self.files[rel][0].encode())
        return h.hexdigest()

    def cls(self, name, file_hint=None):
        cs = self.classes.get(name)
        if not cs:
            raise AnalysisError(f"anchor vanished: class {name} not found in {self.pkg}")
        if file_hint:
            for c in cs:
                if c.file.endswith(file_hint):
                    return c
            raise AnalysisError(f"anchor vanished: class {name} not found in {file_hint}")
        if len(cs) > 1:
            raise AnalysisError(f"ambiguous class name {name}: {[c.file for c in cs]}")
        return cs[0]

    def has_cls(self, name):
        return name in self.classes

    def mro(self, name, _seen=None):
        """Linearised ancestors by left-to-right DFS with de-duplication (sufficient here: the
        package has no diamond where C3 and DFS disagree on the *first* definition of a method
        we look up; ambiguous class names are skipped)."""
        out = []
        seen = _seen if _seen is not None else set()
        if name in seen:
            return out
        seen.add(name)
        cs = self.classes.get(name)
        if not cs:
            return out
        c = cs[0]
        out.append(c)
        for b in c.bases:
            out.extend(self.mro(b, seen))
        return out

    def method(self, cls, name, inherited=True, file_hint=None):
        """FuncInfo of cls.name (searching the MRO when inherited); AnalysisError if absent."""
        c0 = self.cls(cls, file_hint)
        if name in c0.methods:
            return c0.methods[name]
        if inherited:
            for c in self.mro(cls)[1:]:
                if name in c.methods:
                    return c.methods[name]
        raise AnalysisError(f"anchor vanished: method {cls}.{name} not found")

    def has_method(self, cls, name, inherited=True):
        try:
            self.method(cls, name, inherited)
            return True
        except AnalysisError:
            return False

    def subclasses(self, name):
        """all transitive subclasses (by name)"""
        if self._sub is None:
            self._sub = {}
            for cn, cs in self.classes.items():
                for c in cs:
                    for b in c.bases:
                        self._sub.setdefault(b, set()).add(cn)
        out = set()
        todo = [name]
        while todo:
            n = todo.pop()
            for s in self._sub.get(n, ()):
                if s not in out:
                    out.add(s)
                    todo.append(s)
        return out

    def all_funcs(self, path_prefix=None):
        """every function/method in the package as FuncInfo (nested defs included as own entries)"""
        for rel, (src, tree) in self.files.items():
            if path_prefix and not rel.startswith(path_prefix):
                continue
            for node in tree.body:
                yield from self._funcs_in(rel, node, None)

    def _funcs_in(self, rel, node, cls):
        if isinstance(node, ast.ClassDef):
            for st in node.body:
                yield from self._funcs_in(rel, st, node.name)
        elif isinstance(node, (ast.FunctionDef, ast.AsyncFunctionDef)):
            yield FuncInfo(node.name, cls, rel, node)
        elif isinstance(node, (ast.If, ast.Try)):
            for sub in ast.iter_child_nodes(node):
                yield from self._funcs_in(rel, sub, cls)

    def file_tree(self, rel):
        if rel not in self.files:
            raise AnalysisError(f"anchor vanished: file {rel} not found")
        return self.files[rel][1]

    def file_src(self, rel):
        if rel not in self.files:
            raise AnalysisError(f"anchor vanished: file {rel} not found")
        return self.files[rel][0]


# -------------------------------------------------------------------- ast helpers
def unparse(node):
    if node is None:
        return "None"
    # memoised on the node itself (the trees are never mutated by the analysis)
    try:
        return node._verif_unparsed
    except AttributeError:
        pass
    t = ast.unparse(node)
    try:
        node._verif_unparsed = t
    except AttributeError:
        pass
    return t


def dotted(node):
    """'self.csvpath.is_valid' for an Attribute/Name chain, else None"""
    parts = []
    while isinstance(node, ast.Attribute):
        parts.append(node.attr)
        node = node.value
    if isinstance(node, ast.Name):
        parts.append(node.id)
        return ".".join(reversed(parts))
    return None


def call_name(call):
    """last attribute / name of the callee of a Call node"""
    f = call.func
    if isinstance(f, ast.Attribute):
        return f.attr
    if isinstance(f, ast.Name):
        return f.id
    return None


def call_receiver(call):
    f = call.func
    if isinstance(f, ast.Attribute):
        d = dotted(f.value)
        return d if d is not None else unparse(f.value)
    return None


def walk_no_nested(node):
    """ast.walk that does not descend into nested function/class definitions (except the root)"""
    todo = list(ast.iter_child_nodes(node))
    while todo:
        n = todo.pop()
        yield n
        if isinstance(n, (ast.FunctionDef, ast.AsyncFunctionDef, ast.ClassDef, ast.Lambda)):
            continue
        todo.extend(ast.iter_child_nodes(n))


def const_value(node):
    if isinstance(node, ast.Constant):
        return node.value
    raise ValueError


def stores_in(func_node):
    """yield (target_node, value_node, stmt) for every assignment-like statement in the function"""
    for n in walk_no_nested(func_node):
        if isinstance(n, ast.Assign):
            for t in n.targets:
                for tt in _flatten_target(t):
                    yield tt, n.value, n
        elif isinstance(n, ast.AugAssign):
            yield n.target, n, n
        elif isinstance(n, ast.AnnAssign) and n.value is not None:
            yield n.target, n.value, n


def _flatten_target(t):
    if isinstance(t, (ast.Tuple, ast.List)):
        for e in t.elts:
            yield from _flatten_target(e)
    else:
        yield t
