"""Scanner decision tables (C02.R2/R3/R5; C13.R4 reuses is_last).

(a) Order-type tables of Scanner.includes / Scanner.is_last.  Both functions touch line numbers only
    through comparisons, `in`, `max` and `is None` (checked syntactically); therefore a domain of small
    integers realising every relative order of (line, from_line, to_line, members of these) decides them
    for all integers.
(b) Parsed shapes: the yacc productions of Scanner are taken from the p_* docstrings; for every scan part
    of the property's quantifier (bounded) the reduction sequence of that grammar is replayed by
    interpreting the action ASTs on the abstract scanner state, and the resulting state is fed to (a).
    This is a bounded table (bounds 0..6, up to 3 '+' operands), stated as such in the evidence.
"""
import ast
import itertools
import re

from sa.absint import Interp, Obj, Residual
from sa.index import AnalysisError, unparse, walk_no_nested

END = "self.csvpath.line_monitor.physical_end_line_number"


# ------------------------------------------------------------------ grammar from docstrings
def productions(idx):
    ci = idx.cls("Scanner")
    prods = {}
    for name, fi in ci.methods.items():
        if not name.startswith("p_") or name == "p_error":
            continue
        doc = ast.get_docstring(fi.node, clean=False)
        if not doc:
            raise AnalysisError(f"Scanner.{name} has no production docstring")
        head, _, rest = doc.partition(":")
        alts = [a.split() for a in rest.split("|")]
        prods[head.strip()] = (fi, alts)
    return prods


def lexer_tokens(idx):
    """token name -> regex source (string rules and function docstrings)"""
    ci = idx.cls("ScanningLexer")
    toks = {}
    for k, v in ci.class_assigns.items():
        if k.startswith("t_") and isinstance(v, ast.Constant) and isinstance(v.value, str):
            toks[k[2:]] = v.value
    for name, fi in ci.methods.items():
        if name.startswith("t_") and name != "t_error":
            toks[name[2:]] = ast.get_docstring(fi.node, clean=False)
    return toks


def tokenize(s):
    out = []
    for m in re.finditer(r"\d+|[+\-*]", s):
        t = m.group(0)
        out.append(("NUMBER", int(t)) if t.isdigit() else ({"+": "PLUS", "-": "MINUS", "*": "ALL_LINES"}[t], t))
    return out


def reductions(tokens):
    """reduction sequence of  expression: expression PLUS term | expression MINUS term | term ;
    term: NUMBER | NUMBER ALL_LINES | ALL_LINES   (left recursive → a left fold)"""
    seq = []
    i = 0

    def term():
        nonlocal i
        k, v = tokens[i]
        if k == "NUMBER":
            if i + 1 < len(tokens) and tokens[i + 1][0] == "ALL_LINES":
                i += 2
                return ("term", [v, "*"])
            i += 1
            return ("term", [v])
        if k == "ALL_LINES":
            i += 1
            return ("term", ["*"])
        raise ValueError(tokens)

    seq.append(term())
    seq.append(("expression", ["T"]))
    while i < len(tokens):
        k, v = tokens[i]
        if k not in ("PLUS", "MINUS"):
            raise ValueError(tokens)
        i += 1
        seq.append(term())
        seq.append(("expression", ["E", v, "T"]))
    return seq


def parse_state(idx, prods, scan):
    """abstract scanner state after interpreting the action ASTs along the reduction sequence"""
    toks = tokenize(scan)
    seq = reductions(toks)
    f_term = prods["term"][0]
    f_expr = prods["expression"][0]
    scanner_methods = {f"Scanner.{m}" for m in idx.cls("Scanner").methods}

    def program(it):
        stack = []
        for kind, rhs in seq:
            if kind == "term":
                p = [None] + list(rhs)
                it.call_function(f_term, {"__pos__": [p]}, "self")
                stack.append(p[0])
            else:
                if rhs == ["T"]:
                    t = stack.pop()
                    p = [None, t]
                else:
                    t = stack.pop()
                    e = stack.pop()
                    p = [None, e, rhs[1], t]
                it.call_function(f_expr, {"__pos__": [p]}, "self")
                stack.append(p[0])
        return None

    it = Interp(idx, types={"self": "Scanner"}, inline=scanner_methods)
    store = {"self.these": [], "self.all_lines": False, "self.from_line": None, "self.to_line": None}
    paths = it.run_program(program, store)
    if len(paths) != 1:
        raise AnalysisError(f"scanner productions are not deterministic on '{scan}' ({len(paths)} paths)")
    p = paths[0]
    if p.result[0] != "return":
        return None, p.result
    st = p.final_store
    return {k: st.get(k) for k in ("self.these", "self.all_lines", "self.from_line", "self.to_line")}, p.result


def call_pred(idx, name, state, line, end):
    fi = idx.method("Scanner", name)
    it = Interp(idx, types={"self": "Scanner"})
    store = dict(state)
    store[END] = end
    ps = it.run_all(fi, args={"__pos__": [line]}, store=store)
    if len(ps) != 1:
        raise AnalysisError(f"Scanner.{name} is not deterministic on a concrete state ({len(ps)} paths: {[p.summary()['choices'] for p in ps][:2]})")
    return ps[0].result


def only_compares(fi, names=("line", "from_line", "to_line", "these")):
    """syntactic side condition of the order-type argument: no arithmetic on line numbers"""
    for n in walk_no_nested(fi.node):
        if isinstance(n, (ast.BinOp, ast.AugAssign)):
            used = {x.id for x in ast.walk(n) if isinstance(x, ast.Name)} | {x.attr for x in ast.walk(n) if isinstance(x, ast.Attribute)}
            if used & set(names):
                return False, unparse(n)
    return True, ""


# ------------------------------------------------------------------ denotation
def denote(scan):
    """(set of lines | None for unbounded, lower bound for unbounded)  for the quantified shapes"""
    s = scan.replace(" ", "")
    if s == "*":
        return ("from", 0)
    m = re.fullmatch(r"(\d+)\*", s)
    if m:
        return ("from", int(m.group(1)))
    out = set()
    for part in s.split("+"):
        m = re.fullmatch(r"(\d+)-(\d+)", part)
        if m:
            a, b = int(m.group(1)), int(m.group(2))
            out |= set(range(min(a, b), max(a, b) + 1))
        else:
            out.add(int(part))
    return ("set", out)


def quantified_scans(maxn=6, tier="quick"):
    """the property's quantifier, bounded: '*', 'N*', 'N', 'a-b' either order, '+'-joined ascending
    non-overlapping numbers and forward ranges (≤ 3 operands)"""
    scans = ["*"]
    rng = range(0, maxn + 1)
    scans += [f"{n}*" for n in rng]
    scans += [f"{n}" for n in rng]
    scans += [f"{a}-{b}" for a in rng for b in rng if a != b]
    # operand = number or forward range; ascending, non overlapping
    ops = []
    top = maxn if tier == "thorough" else 5
    for a in range(0, top + 1):
        ops.append((a, a, f"{a}"))
        for b in range(a + 1, top + 1):
            ops.append((a, b, f"{a}-{b}"))
    for k in (2, 3):
        for combo in itertools.combinations(ops, k):
            okc = all(combo[i][1] < combo[i + 1][0] for i in range(k - 1))
            if okc:
                scans.append("+".join(c[2] for c in combo))
    return scans
