"""C16 — print() emits its text verbatim with references replaced by current values.

  R1 verbatim table     the print grammar (Lark, as configured by the code) + the transformer callbacks and PrintParser._to_string
                        (interpreted) over every arrangement of ≤ 3 items drawn from 4 reference kinds and 20 text chunks: the output is
                        the input with each reference replaced in place and every other character unchanged ('..' after a reference → '.')
  R2 terminal classes   FIRST(SENTINEL) ∩ FIRST(ROOT) = ∅; SIMPLE_NAME accepts no punctuation other than '_'
  R3 wrapper            LarkPrintParser.parse appends exactly one blank whatever the string ends with; Print strips exactly one
  R4 reference kinds    every alternative of the grammar's `type` is handled by _handle_local and _handle_reference
  R5 gating / fan-out   Print._decide_match table (onchange, once, named printer, trailing match); CsvPath.print / print_to reach every printer
  R6 look-ups           _ref_from_dict / _ref_from_list tables incl. falsy tracked values
"""
import ast
import itertools
import re

from sa.index import AnalysisError, unparse, walk_no_nested, call_name
from sa.absint import Interp, Obj, Residual, Raised
from . import common as K
from .print_model import PrintModel

REFS = {"$.headers.h": "<headers.h>", "$.variables.v.k": "<variables.v.k>", "$.csvpath.count_lines": "<csvpath.count_lines>", "$.metadata.id": "<metadata.id>"}
TEXT = ["a", " ", ",", ";x", ": ", "=5", "!", "(x)", "-", "_z", "*", "..", "  ", "7", "#", "%", "@b", "/", "?", "'q'"]


def expected(seq):
    exp = ""
    for i, x in enumerate(seq):
        if x in REFS:
            exp += REFS[x]
        elif x == ".." and i > 0 and seq[i - 1] in REFS:
            exp += "."
        else:
            exp += x
    return exp


def arrangements(tier):
    items = list(REFS) + TEXT
    for L in (1, 2, 3):
        for seq in itertools.product(items, repeat=L):
            # a letter, digit or '_' directly after a reference belongs to the reference's name by design
            if any(a in REFS and (b[0].isalnum() or b[0] == "_") for a, b in zip(seq, seq[1:])):
                continue
            nref = sum(1 for x in seq if x in REFS)
            if L == 3:
                if nref == 0:
                    continue
                if tier != "thorough" and not (seq[1] in REFS or (seq[0] in REFS and seq[2] in REFS)):
                    continue
            yield seq


def run(idx, rep, tier):
    rep.explanation = (
        "The print grammar string is extracted from the source and handed to Lark with the configuration the code uses; the transformer "
        "callbacks and PrintParser._to_string are interpreted bottom-up over the parse tree with look-ups replaced by markers. Over every "
        "arrangement of up to 3 items from 4 reference kinds x 20 text chunks (quick: those of length 3 with a reference in the middle or "
        "at both ends) the rendered string must equal the input with references replaced in place. Plus terminal character-class "
        "checks, the blank-suffix protocol, reference-kind exhaustiveness, the Print gating table and the look-up tables.")
    rep.rule("R1", "every character outside references is printed unchanged, in place")
    rep.rule("R2", "a sentinel cannot swallow the start of a reference; names absorb no punctuation")
    rep.rule("R3", "one blank appended by the parser, one stripped by print()")
    rep.rule("R4", "all reference kinds handled")
    rep.rule("R5", "print gating (onchange, once) and fan-out to every printer")
    rep.rule("R6", "reference look-ups return the referenced value, including falsy ones")
    pm = PrintModel(idx)
    rep.analysed(pm.fparse, pm.fto, *[m for n, m in pm.tcls.methods.items() if n not in ("__init__",)])
    bad = {}
    n = 0
    for seq in arrangements(tier):
        s = "".join(seq)
        r = pm.render(s)
        n += 1
        got = r[1].replace(".>", ">") if r[0] == "ok" and isinstance(r[1], str) else r
        exp = expected(seq) + " "
        if got != exp:
            cls = "ref-ref" if any(a in REFS and b in REFS for a, b in zip(seq, seq[1:])) else "other"
            if cls == "other":
                for a, b in zip(seq, seq[1:]):
                    if a in REFS:
                        cls = f"ref+{b[0]!r}"
            bad.setdefault(cls, (s, got, exp))
    classes = sorted(set(bad) | {"ref-ref", "other"})
    for cls in classes:
        key = f"csvpath/matching/util/lark_print_parser.py::print rendering class {cls}"
        if cls in bad:
            s, got, exp = bad[cls]
            rep.fail("R1", key, f"print({s!r}) renders {got!r}; documented {exp!r} (references replaced in place, every other character unchanged)", "csvpath/matching/util/lark_print_parser.py")
        else:
            rep.ok("R1", key, f"{n} print strings", "csvpath/matching/util/lark_print_parser.py")
    rep.stats["table_rows"] = n
    rep.stats["exhaustive"] = True
    rep.sample({"rule": "R1", "strings": n, "example": ["a $.headers.h, $.variables.v.k..", pm.render("a $.headers.h, $.variables.v.k..")]})
    r2(idx, rep, pm)
    r3(idx, rep, pm)
    r4(idx, rep, pm)
    r5(idx, rep)
    r6(idx, rep)
    from . import c06
    c06.header_index_sequences(idx, rep, "R6")
    runtime_fresh(idx, rep, "R6")
    printers_agree(idx, rep, "R5")
    result_printouts(idx, rep, "R5")
    # print-mode: no-default takes the stdout printer away and nothing else: every other printer still gets every entry (C15.R7)
    from . import c15
    c15.r7(idx, K.as_rule(rep, "R5"))


def _terminal(gsrc, name):
    m = re.search(rf"^\s*{name}\s*:\s*/(.*)/\s*$", gsrc, re.M)
    return m.group(1) if m else None


def r2(idx, rep, pm):
    sent = _terminal(pm.gsrc, "SENTINEL")
    root = _terminal(pm.gsrc, "ROOT")
    simple = _terminal(pm.gsrc, "SIMPLE_NAME")
    if not (sent and root and simple):
        raise AnalysisError("print grammar terminals SENTINEL/ROOT/SIMPLE_NAME not found as regex terminals")
    first_root = {c for c in map(chr, range(32, 127)) if re.match(root, c + "x.")}
    first_sent = {c for c in map(chr, range(32, 127)) if re.fullmatch(sent, c)}
    inter = sorted(first_root & first_sent)
    rep.check(not inter, "R2", "csvpath/matching/util/lark_print_parser.py::SENTINEL vs ROOT first characters",
              f"SENTINEL /{sent}/ also matches {inter}: in `$.headers.a$.headers.b` it swallows the `$` that starts the second reference, which is then printed literally", "csvpath/matching/util/lark_print_parser.py")
    import string
    absorbed = sorted(c for c in string.punctuation if c not in "_.$'\"" and re.fullmatch(simple, c))
    rep.check(not absorbed, "R2", "csvpath/matching/util/lark_print_parser.py::SIMPLE_NAME excludes punctuation",
              f"SIMPLE_NAME /{simple}/ accepts the punctuation {absorbed}: text such as `=5` directly after a reference becomes part of its name", "csvpath/matching/util/lark_print_parser.py")
    text = _terminal(pm.gsrc, "TEXT")
    rep.check(text is not None and not re.match(text, "$") and not re.match(text, " "), "R2", "csvpath/matching/util/lark_print_parser.py::TEXT excludes `$` and blanks", f"/{text}/", "csvpath/matching/util/lark_print_parser.py")


def r3(idx, rep, pm):
    bad = None
    for s in ("x", "x ", "x  ", "", "$.headers.h", "a $.variables.v "):
        t = pm.parsed_text(s)
        if t != s + " ":
            bad = bad or f"parse({s!r}) hands {t!r} to the grammar; documented: the string plus exactly one blank (print() strips exactly one)"
    rep.check(bad is None, "R3", f"{pm.fparse.file}::LarkPrintParser.parse blank suffix", bad or "", K.where(pm.fparse, pm.fparse.node))


def r4(idx, rep, pm):
    m = re.search(r"^\s*type\s*:\s*\((.*)\)\s*$", pm.gsrc, re.M)
    kinds = []
    if m:
        for t in m.group(1).split("|"):
            lit = re.search(rf'^\s*{t.strip()}\s*:\s*"(.*)"\s*$', pm.gsrc, re.M)
            kinds.append(lit.group(1) if lit else t.strip())
    if not kinds:
        raise AnalysisError("print grammar rule `type` not found")
    # interpreted: for every kind the grammar can produce, the reference is resolved against that kind's own data (however the
    # handler picks it: if-chain, table, helper); a kind the handler does not know resolves against nothing
    for meth in ("_handle_local", "_handle_reference"):
        fi = idx.method("PrintParser", meth)
        rep.analysed(fi)
        got = {}
        for kind in sorted(kinds) + ["no-such-kind"]:
            seen = []

            def transform(i, c, r, a, k, seen=seen):
                ref = a[0]
                seen.append(ref.get("data") if isinstance(ref, dict) else ref)
                return "OUT"

            def rt_local(i, c, r, a, k):
                if len(a) > 1 and isinstance(a[1], dict):
                    a[1]["__runtime__"] = True

            handlers = {"self._transform_reference": transform, "self._get_runtime_data_from_local": rt_local,
                        "self._get_results": lambda i, c, r, a, k: Obj("RESULTS"),
                        "self._get_variables": lambda i, c, r, a, k: Obj("r:variables"), "self._get_headers": lambda i, c, r, a, k: Obj("r:headers"),
                        "self._get_metadata": lambda i, c, r, a, k: Obj("r:metadata"), "self._get_runtime_data_from_results": lambda i, c, r, a, k: Obj("r:csvpath")}
            it = Interp(idx, types={"self": "PrintParser"}, unknown_calls="residual", handlers=handlers)
            store = {"self.csvpath.variables": Obj("l:variables"), "self.csvpath.headers": Obj("l:headers"), "self.csvpath.metadata": Obj("l:metadata")}
            ps = it.run_all(fi, args={"ref": {"data_type": kind, "root": "$name.", "name": ["n", None]}}, store=store)
            if len(ps) != 1 or ps[0].result != ("return", "OUT") or len(seen) != 1:
                got[kind] = f"undecided ({[p.result for p in ps][:2]}, {len(seen)} transforms)"
            else:
                d = seen[0]
                got[kind] = d.name[2:] if isinstance(d, Obj) else ("csvpath" if isinstance(d, dict) and d.get("__runtime__") else d)
        want = {k: k for k in kinds}
        want["no-such-kind"] = None
        rep.check(got == want, "R4", f"{fi.file}::PrintParser.{meth} handles every reference kind",
                  f"grammar kinds {sorted(kinds)}: the data each kind is resolved against is {got}; documented {want}", K.where(fi, fi.node))
    # the transformer has a callback for every rule / value-carrying terminal it needs
    need = {"printed", "TEXT", "WS", "reference", "ROOT", "name", "type", "SENTINEL", "SIMPLE_NAME", "QUOTED_NAME"}
    rep.check(need <= pm.callbacks, "R4", f"{pm.tcls.file}::LarkPrintTransformer callbacks", f"missing {sorted(need - pm.callbacks)}", pm.tcls.file)


def r5(idx, rep):
    fi = idx.method("Print", "_decide_match")
    rep.analysed(fi)
    bad = None
    n = 0

    def iso(interp, args, call):
        o, t = args[0], args[1]
        tn = t.text if isinstance(t, Residual) else str(t)
        kind = {"EQ": "Equality", "TERM": "Term", "STR": "Term", "FN": "Function"}.get(getattr(o, "name", ""), None)
        return kind == tn

    for onchange, once, right_kind, rendered in itertools.product((True, False), (True, False), (None, "TERM", "FN"), ("out", "out ", "out  ")):
        right = None if right_kind is None else Obj(right_kind)
        it = Interp(idx, types={"self": "Print"}, unknown_calls="residual", isinstance_oracle=iso,
                    handlers={"self._child_two": lambda i, c, r, a, k, right=right: right, "self.do_onchange": lambda i, c, r, a, k: onchange, "self.do_once": lambda i, c, r, a, k: once,
                              "STR.to_value": lambda i, c, r, a, k: "src", "TERM.to_value": lambda i, c, r, a, k: "audit", "FN.matches": lambda i, c, r, a, k: i.record_call("right.matches"),
                              "PrintParser": lambda i, c, r, a, k: Obj("pp"), "pp.transform": lambda i, c, r, a, k, rendered=rendered: (i.record_call("transform", a[0]), rendered)[1],
                              "self.matcher.csvpath.print": lambda i, c, r, a, k: i.record_call("print", a[0]), "self.matcher.csvpath.print_to": lambda i, c, r, a, k: i.record_call("print_to", (a[0], a[1])),
                              "self._set_has_happened": lambda i, c, r, a, k: i.record_call("_set_has_happened")},
                    domains={"self.default_match()": [True]})
        ps = it.run_all(fi, args={"skip": []}, store={"self.children": [Obj("STR")]})
        n += 1
        if len(ps) != 1 or ps[0].result[0] != "return":
            bad = bad or f"{[p.result for p in ps]}"
            continue
        p = ps[0]
        prints = [v for kk, v in p.calls("print")] + [v[1] for kk, v in p.calls("print_to")]
        should = onchange and once
        cfg = f"onchange-ok={onchange} once-ok={once} second-arg={right_kind} rendered={rendered!r}"
        want_text = rendered[:-1] if rendered.endswith(" ") else rendered
        if should:
            if prints != [want_text]:
                bad = bad or f"{cfg}: printed {prints}; documented one entry {want_text!r} (exactly the one technical trailing blank removed)"
            if right_kind == "TERM" and [v for kk, v in p.calls("print_to")] != [("audit", want_text)]:
                bad = bad or f"{cfg}: named printer call {p.calls('print_to')}"
            if right_kind != "TERM" and p.calls("print_to"):
                bad = bad or f"{cfg}: print_to used without a named target"
            if len(p.calls("_set_has_happened")) != 1:
                bad = bad or f"{cfg}: _set_has_happened called {len(p.calls('_set_has_happened'))}x; print.once must be marked as done on every printing path (named target included)"
            if right_kind == "FN" and len(p.calls("right.matches")) != 1:
                bad = bad or f"{cfg}: the trailing match component is evaluated {len(p.calls('right.matches'))}x"
        else:
            if prints or p.calls("_set_has_happened"):
                bad = bad or f"{cfg}: printed {prints} although the qualifier said no"
        if FM_final(p) is not True:
            bad = bad or f"{cfg}: print() votes {FM_final(p)!r}; it never affects matching"
    rep.check(bad is None, "R5", f"{fi.file}::Print._decide_match table", bad or f"{n} rows", K.where(fi, fi.node))
    # fan-out
    for meth, args, want in (("print", {"string": "S"}, ("print", ["S"])), ("print_to", {"name": "N", "string": "S"}, ("print_to", ["N", "S"]))):
        f = idx.method("CsvPath", meth)
        rep.analysed(f)
        got = []
        hs = {}
        for pn in ("p0", "p1", "p2"):
            for m in ("print", "print_to"):
                hs[f"{pn}.{m}"] = (lambda i, c, r, a, k, pn=pn, m=m: got.append((pn, m, list(a) + [k[x] for x in sorted(k)])))
        ps = Interp(idx, types={"self": "CsvPath"}, unknown_calls="residual", handlers=hs).run_all(f, args=dict(args), store={"self.printers": [Obj("p0"), Obj("p1"), Obj("p2")], "self._printers": [Obj("p0"), Obj("p1"), Obj("p2")]})
        ok = len(ps) == 1 and ps[0].result[0] == "return" and got == [(pn, want[0], want[1]) for pn in ("p0", "p1", "p2")]
        rep.check(ok, "R5", f"{f.file}::CsvPath.{meth} reaches every printer", f"three printers: calls {got}; documented one {want[0]}{tuple(want[1])} per printer, in order", K.where(f, f.node))
    # do_once / _set_has_happened agree on the bookkeeping variable
    f1 = idx.method("Qualified", "_has_not_yet")
    f2 = idx.method("Qualified", "_set_has_happened")
    ids = [re.findall(r"f'\{self\.get_id\(\)\}(_\w+)'", unparse(x.node)) for x in (f1, f2)]
    rep.check(ids[0] == ids[1] and ids[0], "R5", f"{f1.file}::Qualified once bookkeeping key", f"{ids}", K.where(f1, f1.node))


def FM_final(p):
    s = p.sets("self.match")
    return s[-1] if s else None


def r6(idx, rep):
    ft = idx.method("PrintParser", "_transform_reference")
    fd = idx.method("PrintParser", "_ref_from_dict")
    rep.analysed(fd, ft)
    # (the keys of a tracking variable are the texts the csvpath saw: a tally over a numeric column has the keys "3", "10", not 3, 10)
    data = {"v": {"k": 0, "z": 7, "e": ""}, "lst": [0, 5, None], "s": "text", "n": 0, "f": False, "t": {"3": 2, "10": 1, "x": 4}}
    bad = None
    for name, tracking, want in (("v", "k", 0), ("v", "z", 7), ("v", "e", ""), ("v", None, {"k": 0, "z": 7, "e": ""}), ("lst", "0", 0), ("lst", "1", 5), ("lst", "length", 3),
                                 ("lst", None, [0, 5, None]), ("s", None, "text"), ("n", None, 0), ("f", None, False), ("missing", None, "missing"),
                                 ("t", "3", 2), ("t", "10", 1), ("t", "x", 4)):
        it = Interp(idx, types={"self": "PrintParser"}, unknown_calls="residual")
        ps = it.run_all(ft, args={"ref": {"data": dict(data), "name": [name, tracking], "data_type": "variables"}})
        if len(ps) != 1 or ps[0].result[0] != "return" or ps[0].result[1] != want or type(ps[0].result[1]) is not type(want):
            bad = bad or f"$.variables.{name}{'.' + tracking if tracking else ''} with {data}: prints {ps[0].result[1]!r}, documented {want!r}"
    rep.check(bad is None, "R6", f"{fd.file}::PrintParser._ref_from_dict table", bad or "", K.where(fd, fd.node))
    fl = idx.method("PrintParser", "_ref_from_list")
    rep.analysed(fl)
    bad = None
    # (a header the line is too short to hold prints as its name, like an unknown header — never an exception out of print())
    for name, line, want in (("b", ["1", "", "3"], ""), ("a", ["0", "x"], "0"), ("2", ["p", "q", "r"], "r"), ("zz", ["p"], "zz"), ("c", ["p"], "c"), ("b", [], "b")):
        it = Interp(idx, types={"self": "PrintParser"}, unknown_calls="residual",
                    handlers={"self.csvpath.header_index": lambda i, c, r, a, k: {"a": 0, "b": 1, "c": 2}.get(a[0])},
                    domains={"self.csvpath.matcher": [Obj("M")]})
        ps = it.run_all(ft, args={"ref": {"data": ["a", "b", "c"], "name": [name, None], "data_type": "headers"}}, store={"M.line": list(line)})
        if len(ps) != 1 or ps[0].result != ("return", want):
            bad = bad or f"$.headers.{name} on line {line}: prints {ps[0].result}, documented {want!r}"
    rep.check(bad is None, "R6", f"{fl.file}::PrintParser._ref_from_list table", bad or "", K.where(fl, fl.node))


def runtime_fresh(idx, rep, rid):
    """$.csvpath.<field> prints the value current at that point of the line: the collector is interpreted twice on one csvpath whose
    verdict and headers change in between (fail() / reset_headers() between two print()s of the same line, counters unchanged) — the
    second collection must show the new values"""
    fi = idx.method("RuntimeDataCollector", "collect")
    rep.analysed(fi)

    def program(it):
        r1 = {}
        it.call_function(fi, {"__pos__": [Obj("cp"), r1], "local": True}, "cls")
        it.store["cp.is_valid"] = False
        it.store["cp.headers"] = ["b"]
        it.store["cp.stopped"] = True
        r2 = {}
        it.call_function(fi, {"__pos__": [Obj("cp"), r2], "local": True}, "cls")
        return r1, r2

    it = Interp(idx, types={"cls": "RuntimeDataCollector", "self": "RuntimeDataCollector"}, inline_all={"RuntimeDataCollector"}, unknown_calls="residual")
    st = {"cp.is_valid": True, "cp.headers": ["a"], "cp.stopped": False, "cp.line_monitor": Obj("lm"), "cp.scanner": Obj("sc"), "cp.lines": None,
          "lm.physical_line_number": 3, "lm.physical_line_count": 4, "lm.data_line_count": 3, "cp.scan_count": 2, "cp.match_count": 1,
          "cp.current_scan_count": 2, "cp.current_match_count": 1, "lm.data_end_line_count": 9, "cp.identity": "ID", "cp.delimiter": ";", "cp.quotechar": "'",
          "sc.filename": "F.csv", "cp.rows_time": 0.0, "cp.last_row_time": 0.0}
    ps = it.run_program(program, st)
    bad = None
    for p in ps:
        if p.result[0] != "return":
            bad = bad or f"collect ends in {p.result}"
            continue
        r1, r2 = p.result[1]
        first = {k: r1.get(k) for k in ("valid", "headers", "stopped")}
        second = {k: r2.get(k) for k in ("valid", "headers", "stopped")}
        if first != {"valid": True, "headers": ["a"], "stopped": False}:
            bad = bad or f"first collection shows {first} for a valid, running csvpath with headers ['a']"
        # the counters and positions $.csvpath.<field> prints are the csvpath's own
        wantf = {"count_lines": 4, "line_number": 3, "count_scans": 2, "count_matches": 1, "total_lines": 9, "identity": "ID", "delimiter": ";", "quotechar": "'", "file_name": "F.csv"}
        gotf = {k: r1.get(k, "<absent>") for k in wantf}
        if gotf != wantf:
            bad = bad or f"$.csvpath fields of a csvpath at line 3 (4th physical line, 2 scanned, 1 matched, 9 data lines in all): {gotf}, documented {wantf}"
        if second != {"valid": False, "headers": ["b"], "stopped": True}:
            bad = bad or f"after the verdict, the headers and the stopped flag changed within the line the second collection still shows {second} (a print() later on the same line prints stale $.csvpath values)"
    rep.check(bad is None and len(ps) >= 1, rid, f"{fi.file}::RuntimeDataCollector.collect reads the csvpath every time", bad or f"{len(ps)} paths", K.where(fi, fi.node))



def printers_agree(idx, rep, rid):
    """Printer.print: "prints string with a newline. same as print_to(None, string)" — for every printer class of the package, print(s) has
    the effects of its own print_to with no name (None, or the class's default name): what the class (or a subclass that overrides only
    print_to, like LogPrinter) does with an unnamed entry is one thing, whichever of the two entry points the csvpath used"""
    classes = sorted(c for c in idx.subclasses("Printer") if c != "CsvPath" and len(idx.classes.get(c, [])) == 1)

    def effects(cls, meth, pos):
        fam = {c.name for c in idx.mro(cls)}
        it = Interp(idx, types={"self": cls}, unknown_calls="residual", inline_all=fam, inline={f"{c}.{p_}" for c in fam for p_ in idx.cls(c).properties},
                    handlers={"print": lambda i, c, r, a, k: i.record_call("out", (a[0] if a else None, "stderr" if "file" in k else "stdout"))})
        st = {k: v for k, v in K.instance_store(idx, cls).items()}
        ps = it.run_all(idx.method(cls, meth), args={"__pos__": list(pos)}, store=st)
        out = []
        for p in ps:
            calls = [(kk, v) for k, kk, v in p.trace if k == "call" and not kk.startswith("self.print")]
            fin = {k: v for k, v in p.final_store.items() if k.startswith("self.") and not k.startswith("self._logger")}
            out.append((p.result[0], repr(calls), repr(sorted(fin.items(), key=lambda kv: kv[0]))))
        return sorted(out)

    bad = None
    for cls in classes:
        rep.analysed(idx.method(cls, "print"), idx.method(cls, "print_to"))
        a = effects(cls, "print", ["S"])
        alts = [effects(cls, "print_to", [nm, "S"]) for nm in (None, "default")]
        if a not in alts:
            bad = bad or (f"{cls}.print('S') (resolved to {idx.method(cls, 'print').qual}) does {a}; {cls}.print_to(None, 'S') (resolved to {idx.method(cls, 'print_to').qual}) does {alts[0]}: "
                          "an unnamed print() reaches this printer differently from print_to — entries go to the wrong place or are counted differently")
    rep.check(bad is None and len(classes) >= 3, rid, "csvpath/util/printer.py::print(s) is print_to(<no name>, s) for every printer", bad or f"{classes}", "csvpath/util/printer.py")


def result_printouts(idx, rep, rid):
    """the Result is the printer that feeds printouts.txt: what print() / print_to(name) hand it is what get_printouts() gives back — every
    entry, once, in order, under its own name (unnamed entries under 'default')"""
    fp = idx.method("Result", "print")
    ft = idx.method("Result", "print_to")
    fg = idx.method("Result", "get_printouts")
    rep.analysed(fp, ft, fg)
    it = Interp(idx, types={"self": "Result"}, unknown_calls="residual", inline={f"Result.{p_}" for p_ in idx.cls("Result").properties}, inline_all={"Result"})

    def program(i):
        i.call_function(fp, {"__pos__": ["a"]}, "self")
        i.call_function(ft, {"__pos__": ["audit", "b"]}, "self")
        i.call_function(fp, {"__pos__": [""]}, "self")
        i.call_function(ft, {"__pos__": ["audit", "b"]}, "self")
        i.call_function(fp, {"__pos__": ["c"]}, "self")
        return i.call_function(fg, {"__pos__": []}, "self")

    st = dict(K.ctor_literals(idx, "Result"))
    ps = it.run_program(program, st)
    want = {"default": ["a", "", "c"], "audit": ["b", "b"]}
    ok = len(ps) == 1 and ps[0].result == ("return", want)
    rep.check(ok, rid, f"{ft.file}::Result keeps every printed entry under its printer name", f"after print('a'), print_to('audit','b'), print(''), print_to('audit','b'), print('c'): "
              f"get_printouts() is {[p.result for p in ps][:2]}, documented {want}", K.where(ft, ft.node))
