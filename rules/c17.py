"""C17 — what runs is what was written: parsing is unambiguous and layout-insensitive.

  R1 one tree            the match grammar (taken from the source) builds as LALR(1) without conflicts, and no generated csvpath yields an
                         `_ambig` node under the Earley configuration the code uses
  R2 faithful tree       for every generated AST the structure built by the (interpreted) LarkTransformer callbacks has the same component
                         kinds, names, qualifiers, operators, argument order and literal values as the AST
  R3 layout              inserting/removing whitespace, newlines and ~comments~ between tokens never changes that structure
  R4 exhaustive          every grammar rule / value-carrying terminal has a transformer callback; the parse wrapper hands the text over
                         unchanged and returns the tree of *that* text
  R5 factory             every function name maps to one existing class
  R6 scan/match split    CsvPath._find_scan_and_match_parts table
"""
import ast
import itertools
import os
import random
import re

import lark

from sa.index import AnalysisError, unparse, walk_no_nested, call_name
from sa.absint import Interp, Obj, Residual
from . import common as K
from .match_model import MatchModel
from .aliases import factory_table

# --------------------------------------------------------------------------------------------- generator
TERMS = [('"abc"', ("Term", "abc", "str")), ('"a b, c"', ("Term", "a b, c", "str")), ('"Ann  Lee"', ("Term", "Ann  Lee", "str")), ("5", ("Term", 5, "int")), ("-3", ("Term", -3, "int")),
         ("2.5", ("Term", 2.5, "float")), ("-0.75", ("Term", -0.75, "float")), ("9007199254740993", ("Term", 9007199254740993, "int")), ("/a.b+/", ("Term", "/a.b+/", "str")),
         ("5.0", ("Term", 5.0, "float")), ("-3.0", ("Term", -3.0, "float")), ("0.0", ("Term", 0.0, "float")), ("0", ("Term", 0, "int")), ('""', ("Term", "", "str"))]
HEADERS = [("#name", ("Header", "name", ())), ("#0", ("Header", "0", ())), ('#"Last Name"', ("Header", "Last Name", ())), ('#"price.usd"', ("Header", "price.usd", ())),
           ("#amount.asbool", ("Header", "amount", ("asbool",)))]
VARIABLES = [("@x", ("Variable", "x", ())), ("@x.latch", ("Variable", "x", ("latch",))), ("@x.onmatch.asbool", ("Variable", "x", ("onmatch", "asbool"))), ("@t.k", ("Variable", "t", ("k",)))]
REFERENCES = [("$p.variables.v", ("Reference", "p.variables.v"))]


class Gen:
    def __init__(self, rnd):
        self.rnd = rnd

    def sp(self, layout):
        if not layout:
            return " "
        return self.rnd.choice(["", " ", "  ", "\n", " \n  ", "\t"])

    def value(self, depth, layout):
        """(text, struct) of something usable as an argument / right-hand side"""
        k = self.rnd.random()
        if depth > 0 and k < 0.3:
            return self.function(depth - 1, layout)
        pool = TERMS if k < 0.55 else HEADERS if k < 0.75 else VARIABLES if k < 0.9 else REFERENCES
        return self.rnd.choice(pool)

    def left(self, depth, layout):
        k = self.rnd.random()
        if depth > 0 and k < 0.4:
            return self.function(depth - 1, layout)
        return self.rnd.choice(HEADERS if k < 0.7 else VARIABLES)

    FUNCS = [("yes", 0), ("count", 0), ("not", 1), ("add", 2), ("concat", 3), ("in", 2), ("gt", 2), ("print", 1), ("line_number", 0), ("between", 3), ("push", 2), ("fail", 0), ("stop", 0)]
    QUALS = [(), (), ("onmatch",), ("once",), ("nocontrib", "asbool"), ("mytrack",)]

    def function(self, depth, layout):
        name, arity = self.rnd.choice(self.FUNCS)
        quals = self.rnd.choice(self.QUALS)
        args = []
        for _ in range(arity):
            if depth > 0 and self.rnd.random() < 0.2:
                lt, ls = self.left(depth - 1, layout)
                rt, rs = self.value(depth - 1, layout)
                args.append((f"{lt}{self.sp(layout)}=={self.sp(layout)}{rt}", ("Equality", "==", ls, rs)))
            else:
                args.append(self.value(depth, layout))
        text = name + "".join("." + q for q in quals) + "(" + self.sp(layout) + (self.sp(layout) + "," + self.sp(layout)).join(a[0] for a in args) + self.sp(layout) + ")"
        if not args:
            child = None
        elif len(args) == 1:
            child = args[0][1]
        else:
            child = ("Equality", ",", tuple(a[1] for a in args))
        return text, ("Function", name, tuple(quals), child)

    def action(self, depth, layout):
        if self.rnd.random() < 0.5:
            return self.function(depth, layout)
        return self.assignment(depth, layout)

    def assignment(self, depth, layout):
        vt, vs = self.rnd.choice(VARIABLES)
        rt, rs = self.value(depth, layout)
        return f"{vt}{self.sp(layout)}={self.sp(layout)}{rt}", ("Equality", "=", vs, rs)

    def component(self, depth, layout):
        k = self.rnd.random()
        if k < 0.25:
            t, s = self.left(depth, layout)
        elif k < 0.5:
            lt, ls = self.left(depth, layout)
            rt, rs = self.value(depth, layout)
            t, s = f"{lt}{self.sp(layout)}=={self.sp(layout)}{rt}", ("Equality", "==", ls, rs)
        elif k < 0.6:
            t, s = self.rnd.choice(REFERENCES)
        else:
            t, s = self.assignment(depth, layout)
            return t, ("Expression", (s,))
        if self.rnd.random() < 0.35:
            at, as_ = self.action(depth, layout)
            return f"{t}{self.sp(layout)}->{self.sp(layout)}{at}", ("Expression", (("Equality", "->", s, as_),))
        return t, ("Expression", (s,))


def render(comps, rnd, layout):
    """match part text for the component texts, with optional comments/whitespace between them"""
    out = "["
    for t in comps:
        if layout:
            # names may contain '-', '.', digits: components need a separator (blank, newline or comment) between them
            out += rnd.choice([" ", "\n", "  ", " ~ a note: with punctuation! ~ ", "\n~c~\n", "~c~", "\t"])
        else:
            out += " "
        out += t
    out += (rnd.choice(["", " ", "\n", " ~end~ "]) if layout else " ") + "]"
    return out


def name_split(idx, rep, rid):
    """`name.q1.q2.q3` → (name, [q1, q2, q3]) for every order of up to three qualifiers of different lengths, short and long names, and a
    quoted name containing a dot — ExpressionUtility.get_name_and_qualifiers interpreted directly"""
    import itertools
    fi = idx.method("ExpressionUtility", "get_name_and_qualifiers")
    rep.analysed(fi, *[idx.method("ExpressionUtility", m) for m in ("_next_qual",) if idx.has_method("ExpressionUtility", m)])
    quals = ["onmatch", "latch", "once", "k", "nocontrib"]
    bad = None
    n = 0
    for nm in ("x", "firstname"):
        for k in range(0, 4):
            for qs in itertools.permutations(quals, k):
                text = ".".join((nm,) + qs)
                it = Interp(idx, types={"cls": "ExpressionUtility", "self": "ExpressionUtility"}, inline_all={"ExpressionUtility"})
                ps = it.run_all(fi, args={"name": text})
                n += 1
                if len(ps) != 1 or ps[0].result != ("return", (nm, list(qs))):
                    bad = bad or f"{text!r} splits into {[p.result for p in ps][:2]}, documented ({nm!r}, {list(qs)})"
    for text, want in (('"first.name".latch.once', ("first.name", ["latch", "once"])), ('"a b"', ("a b", []))):
        it = Interp(idx, types={"cls": "ExpressionUtility", "self": "ExpressionUtility"}, inline_all={"ExpressionUtility"})
        ps = it.run_all(fi, args={"name": text})
        n += 1
        if len(ps) != 1 or ps[0].result != ("return", want):
            bad = bad or f"{text!r} splits into {[p.result for p in ps][:2]}, documented {want}"
    rep.check(bad is None, rid, f"{fi.file}::ExpressionUtility.get_name_and_qualifiers split table", bad or f"{n} names", K.where(fi, fi.node))


def named_file_substitution(idx, rep, rid):
    """A csvpath of a CsvPaths that names a registered file (`$orders[…][…]`) runs against that file's path: only the file designator after
    the `$` is replaced; the scan part, the match part, strings, header and variable names stay as written — also when they contain the
    file's name (interpreted CsvPath._update_file_path; the file manager is the boundary)"""
    fi = idx.method("CsvPath", "_update_file_path")
    rep.analysed(fi)
    PATHS = {"orders": "inputs/named_files/orders/orders.csv/5250b3c0.csv", "f": "inputs/named_files/f/f.csv/77aa.csv", "1": "inputs/named_files/1/x.csv/01.csv"}
    cases = [
        ("orders", '$orders[1*][ #status == "orders" @kind = "orders" ]'), ("orders", "$orders[*][ #orders_id == 1 @orders = #0 ]"),
        ("f", '$f[*][ first(#f) @f = "f" fail() ]'), ("f", "  $f[1-3][ yes() ]"), ("1", "$1[1+11][ #1 == 1 ]"), ("unknown", "$unknown[*][ #unknown ]"),
    ]
    bad = None
    for name, text in cases:
        it = Interp(idx, types={"self": "CsvPath"}, unknown_calls="residual",
                    handlers={".get_named_file": lambda i, c, r, a, k: PATHS.get(a[0])},
                    domains={"self.csvpaths": [Obj("cps")]})
        ps = it.run_all(fi, args={"data": text})
        want = text if name not in PATHS else text.replace("$" + name, "$" + PATHS[name], 1)
        if len(ps) != 1 or ps[0].result != ("return", want):
            bad = bad or (f"named file {name!r}: {text!r} becomes {ps[0].result[1] if ps and ps[0].result[0] == 'return' else [p.result for p in ps][:2]!r}; documented {want!r} "
                          "(only the designator after `$`; a literal, header or variable that contains the file's name stays as written)")
    rep.check(bad is None, rid, f"{fi.file}::CsvPath._update_file_path replaces the file designator only", bad or f"{len(cases)} csvpaths", K.where(fi, fi.node))


def run(idx, rep, tier):
    rep.explanation = (
        "The match grammar string is extracted from the source; it builds as LALR(1) without conflicts (one tree per token sequence) and is "
        "also run under the Earley/explicit-ambiguity configuration the code uses on generated csvpaths (no `_ambig` node may appear). The "
        "LarkTransformer callbacks are interpreted bottom-up over the parse trees with model constructors (names/qualifiers through the real "
        "ExpressionUtility.get_name_and_qualifiers code) and the resulting structure is compared with the generating AST; each AST is "
        "re-rendered in random layouts (whitespace, newlines, comments) and must give the same structure. Seeded by VERIF_SEED.")
    rep.rule("R1", "one tree per csvpath: LALR(1) conflict-free grammar, no Earley ambiguity on generated csvpaths")
    rep.rule("R2", "the built structure equals the source AST (kinds, names, qualifiers, operators, order, literal values)")
    rep.rule("R3", "layout never changes the structure")
    rep.rule("R4", "transformer covers the grammar; the parse wrapper is transparent")
    rep.rule("R5", "function factory: every name maps to one existing class")
    rep.rule("R6", "scan/match split")
    rep.rule("R7", "the raw match text and its hash feed only the parser and the log, never names or values of the run")
    mm = MatchModel(idx)
    rep.analysed(mm.fparse, *[m for n, m in mm.tcls.methods.items() if n != "__init__"], idx.method("ExpressionUtility", "get_name_and_qualifiers"),
                 idx.method("ExpressionUtility", "_parse_quoted"))
    name_split(idx, rep, "R2")
    named_file_substitution(idx, rep, "R6")
    # the text handed to the match grammar is the csvpath as written: only outer comments are split off (C15's split corpus)
    from . import c15
    c15.r6(idx, K.as_rule(rep, "R6", keep=lambda k: "extract_csvpath_and_comment" in k or "extract_metadata" in k))
    # an outer comment without mode settings changes nothing: what it contributes is merged into the metadata the csvpath already has
    # (the settings made through the API live there), never put in their place
    c15.metadata_merge(idx, rep, "R6")
    # … and the modes are refreshed the same way with and without such a comment (the mode controller's update, for every kind of metadata)
    c15.r2(idx, K.as_rule(rep, "R6", keep=lambda k: "ModeController.update updates" in k))
    # ---- R1 static
    try:
        lark.Lark(mm.gsrc, parser="lalr", start=mm.ctor.get("start", "match"))
        rep.ok("R1", "csvpath/matching/lark_parser.py::match grammar LALR(1)", "no shift/reduce or reduce/reduce conflict", "csvpath/matching/lark_parser.py")
    except Exception as e:  # pylint: disable=W0718
        rep.fail("R1", "csvpath/matching/lark_parser.py::match grammar LALR(1)", f"the grammar is not LALR(1): {str(e)[:300]} — two derivations may exist for one token sequence", "csvpath/matching/lark_parser.py")
    # the REGEX terminal ends where the regex literal ends (docs/terms.md: `/(?:[^/\\]|\\.)*/` — a backslash escapes the next character):
    # a literal that ends in an escaped backslash must not run on to the next `/` of the match part
    rt = [t for t in mm.parser.terminals if t.name == "REGEX"]
    badr = None
    if len(rt) != 1:
        badr = "terminal REGEX not found in the grammar"
    else:
        rx = rt[0].pattern.to_regexp()
        for lit in (r"/\\/", r"/a\/b/", r"/\\\//", r"/x/", r"/a\\b/", r"/\\\\/", r"//"):
            text = lit + ', #a) ~ and/or ~ regex(/y/, #b) @x = "a/b"'
            m = re.match(rx, text)
            if m is None or m.group(0) != lit:
                badr = badr or (f"the regex literal {lit} followed by other components with a `/` is lexed as {m.group(0) if m else None!r}: the terminal /{rx}/ lets an escaped "
                                "backslash swallow the closing slash, so adding a comment or a second regex() changes (breaks) the parse")
    rep.check(badr is None, "R1", "csvpath/matching/lark_parser.py::REGEX terminal ends at the closing slash", badr or "7 literals", "csvpath/matching/lark_parser.py")
    rep.check(mm.ctor.get("ambiguity") == "explicit" and mm.ctor.get("start") == "match", "R1", "csvpath/matching/lark_parser.py::parser configuration", f"{mm.ctor}", "csvpath/matching/lark_parser.py")
    # ---- R2/R3 generated
    seed = rep.seed
    rnd = random.Random(1000 + seed)
    n_ast = 800 if tier == "thorough" else 90
    n_layout = 6 if tier == "thorough" else 2
    bad2 = bad3 = bad1 = None
    built = 0
    g = Gen(rnd)
    # fixed corpus first: every leaf kind alone and in an equality / assignment / argument
    fixed = []
    for t, s in HEADERS + VARIABLES:
        fixed.append(([t], [("Expression", (s,))]))
    for (t, s) in TERMS:
        fixed.append(([f"#a == {t}"], [("Expression", (("Equality", "==", ("Header", "a", ()), s),))]))
        fixed.append(([f"@v = {t}"], [("Expression", (("Equality", "=", ("Variable", "v", ()), s),))]))
        fixed.append(([f"in(#a, {t})"], [("Expression", (("Function", "in", (), ("Equality", ",", (("Header", "a", ()), s))),))]))
    for (t, s) in HEADERS:
        fixed.append(([f"not({t})"], [("Expression", (("Function", "not", (), s),))]))
        fixed.append(([f"{t} == \"x\" -> @hit = {t}"], [("Expression", (("Equality", "->", ("Equality", "==", s, ("Term", "x", "str")), ("Equality", "=", ("Variable", "hit", ()), s)),))]))
    # qualifiers are kept as written (a name qualifier is case-sensitive: tally.ByCity keeps its counts under ByCity_…)
    fixed.append((["tally.ByCity(#city)"], [("Expression", (("Function", "tally", ("ByCity",), ("Header", "city", ())),))]))
    fixed.append((["count.Total.onmatch(#a)"], [("Expression", (("Function", "count", ("Total", "onmatch"), ("Header", "a", ())),))]))
    fixed.append((["@Total.Latch = #a"], [("Expression", (("Equality", "=", ("Variable", "Total", ("Latch",)), ("Header", "a", ())),))]))
    cases = list(fixed)
    for _ in range(n_ast):
        k = rnd.randint(1, 4)
        comps = [g.component(rnd.randint(0, 2), False) for _ in range(k)]
        cases.append(([c[0] for c in comps], [c[1] for c in comps]))
    for texts, structs in cases:
        want = tuple(structs)
        canonical = render(texts, rnd, False)
        r = mm.build(canonical)
        built += 1
        if r[0] == "ambiguous":
            bad1 = bad1 or f"{canonical!r} parses ambiguously ({r[1]} `_ambig` node(s)): more than one component tree"
            continue
        if r != ("ok", want):
            bad2 = bad2 or f"{canonical!r}: built {r}; the source says {want}"
            continue
        for _ in range(n_layout):
            # re-render with layout noise: between components, and (by regenerating spacing) inside them where the text allows
            noisy = render([_respace(t, rnd) for t in texts], rnd, True)
            r2 = mm.build(noisy)
            built += 1
            if r2[0] == "ambiguous":
                bad1 = bad1 or f"{noisy!r} parses ambiguously"
            elif r2 != ("ok", want):
                bad3 = bad3 or f"layout {noisy!r}: built {r2}; the same csvpath written {canonical!r} gives {want}"
    rep.check(bad1 is None, "R1", "csvpath/matching/lark_parser.py::no ambiguity on generated csvpaths", bad1 or f"{built} parses", "csvpath/matching/lark_parser.py")
    rep.check(bad2 is None, "R2", "csvpath/matching/lark_transformer.py::structure equals source AST", bad2 or f"{len(cases)} csvpaths", "csvpath/matching/lark_transformer.py")
    rep.check(bad3 is None, "R3", "csvpath/matching/lark_transformer.py::layout independence", bad3 or f"{built} layouts", "csvpath/matching/lark_transformer.py")
    rep.stats["table_rows"] = built
    rep.sample({"rule": "R2/R3", "example_text": render(cases[-1][0], rnd, True), "example_structure": repr(cases[-1][1])[:300]})
    # ---- R3 static: whitespace is ignored, no terminal can start with whitespace outside strings/comments/quoted headers
    rep.check(re.search(r"^\s*%ignore\s+WS\s*$", mm.gsrc, re.M) is not None, "R3", "csvpath/matching/lark_parser.py::%ignore WS", "", "csvpath/matching/lark_parser.py")
    r4(idx, rep, mm)
    r5(idx, rep)
    r6(idx, rep)
    r7(idx, rep)


def _respace(t, rnd):
    """add blanks/newlines around the punctuation tokens of a component text, outside strings, regexes, comments and quoted headers"""
    out = ""
    i = 0
    while i < len(t):
        c = t[i]
        if c == '"':
            j = t.index('"', i + 1)
            out += t[i:j + 1]
            i = j + 1
            continue
        if c == "/":
            j = t.index("/", i + 1)
            out += t[i:j + 1]
            i = j + 1
            continue
        two = t[i:i + 2]
        if two in ("==", "->"):
            # `->` / `==` after a name need a blank ('-' and '=' ... '-' is a name character); after them anything goes
            out += rnd.choice([" ", "  ", "\n"]) + two + rnd.choice(["", " ", "  "])
            i += 2
            continue
        if c in "(),":
            out += rnd.choice(["", " "]) + c + rnd.choice(["", " ", "\n "])
            i += 1
            continue
        if c == "=":
            out += rnd.choice(["", " "]) + c + rnd.choice(["", " "])
            i += 1
            continue
        if c in " \n\t":
            i += 1
            continue
        out += c
        i += 1
    return out


def r4(idx, rep, mm):
    # rules and value-carrying terminals ↔ callbacks
    rules = set(re.findall(r"^\s*([a-z_][a-z_0-9]*)\s*:", mm.gsrc, re.M))
    need = (rules - {"a"}) | {"a"} | {"REFERENCE", "HEADER", "VARIABLE", "STRING", "SIGNED_NUMBER", "REGEX", "COMMENT"}
    missing = sorted(x for x in need if x not in mm.callbacks)
    rep.check(not missing, "R4", "csvpath/matching/lark_transformer.py::callbacks cover the grammar", f"no callback for {missing}: the raw token/tree would leak into the component tree", "csvpath/matching/lark_transformer.py")
    # wrapper transparency: the text is handed over unchanged; a second text differing only by blanks inside a string gets its own tree
    texts = ['[#name == "Ann  Lee"]', '[#name == "Ann Lee"]', '[ #"a  b" ]', '[ #"a b" ]', '[#name == "Ann  Lee"]']
    got = mm.parse_texts(texts)
    rep.check(got == texts, "R4", f"{mm.fparse.file}::LarkParser.parse returns the tree of the text it was given",
              f"for the texts {texts} the trees returned were parsed from {got}: two csvpaths that differ inside a quoted string would share one tree", K.where(mm.fparse, mm.fparse.node))
    # … and so does the matcher, which is where a run parses its match part: every csvpath of a process gets the tree of its own text
    fmi, gotm = mm.matcher_texts(texts)
    rep.analysed(fmi)
    rep.check(gotm == texts, "R4", f"{fmi.file}::Matcher.__init__ builds the components from the tree of its own match part",
              f"for the match parts {texts} (parsed one after the other in one process) the trees handed to the transformer were parsed from {gotm}: "
              "a csvpath that differs from an earlier one only inside a quoted string or regex runs the earlier one's literals", K.where(fmi, fmi.node))
    # the factory links the argument subtree to the function it builds (the tree is navigated upwards too: my_expression, durable ids)
    fg = idx.method("FunctionFactory", "get_function")
    rep.analysed(fg)
    itg = Interp(idx, types={"cls": "FunctionFactory", "FunctionFactory": "FunctionFactory"}, unknown_calls="residual", max_loop=4000, inline_all={"FunctionFactory"},
                 handlers={"Count": lambda i, c, r, a, k: Obj("F")}, domains={"F.matcher": [Obj("M")]})
    itg.types["CH"] = "Header"   # (a Matchable)
    psg = itg.run_all(fg, args={"matcher": Obj("M"), "name": "count", "child": Obj("CH")}, selfkey="cls", store={"CH.parent": None})
    okg = len(psg) >= 1 and all(p.result == ("return", Obj("F")) and p.final_store.get("CH.parent") == Obj("F") for p in psg)
    rep.check(okg, "R4", f"{fg.file}::FunctionFactory.get_function links the child to the function", f"{[(p.result, p.final_store.get('CH.parent')) for p in psg][:2]}; documented: returns the "
              "function built for the name, with child.parent set to it", K.where(fg, fg.node))
    # … and builds a component for a name the same way every time the name is used in a process (class-level state of the factory is
    # shared by all csvpaths): the names whose class takes more than (matcher, name, child) — median, percent … — asked twice
    extra = sorted({n_.args[1].value if len(n_.args) > 1 and isinstance(n_.args[1], ast.Constant) else None for n_ in ast.walk(fg.node)
                    if isinstance(n_, ast.Call) and isinstance(n_.func, ast.Name) and idx.has_cls(n_.func.id) and len(n_.args) + len(n_.keywords) > 3} - {None})
    names2 = []
    for st_ in ast.walk(fg.node):
        if isinstance(st_, ast.If) and isinstance(st_.test, ast.Compare) and len(st_.test.comparators) == 1 and isinstance(st_.test.comparators[0], ast.Constant) \
                and any(isinstance(c_, ast.Call) and isinstance(c_.func, ast.Name) and idx.has_cls(c_.func.id) and len(c_.args) + len(c_.keywords) > 3 for b_ in st_.body for c_ in ast.walk(b_)):
            names2.append(st_.test.comparators[0].value)
    names2 = sorted(set(n_ for n_ in names2 if isinstance(n_, str)))[:6] + ["count"]

    def _shape(v):
        try:
            t = ast.parse(v.text if isinstance(v, Residual) else repr(v), mode="eval").body
        except SyntaxError:
            return repr(v)
        if not isinstance(t, ast.Call):
            return repr(v)
        f_ = t.func
        while isinstance(f_, (ast.Attribute, ast.Call, ast.Subscript)):
            f_ = f_.value if not isinstance(f_, ast.Call) else f_.func
        return (getattr(f_, "id", "?"), [ast.dump(a_) for a_ in t.args], sorted((k_.arg, ast.dump(k_.value)) for k_ in t.keywords))

    bad = None
    for nm in names2:
        it2 = Interp(idx, types={"cls": "FunctionFactory", "FunctionFactory": "FunctionFactory", "CH": "Header"}, unknown_calls="residual", max_loop=4000,
                     inline_all={"FunctionFactory"})

        def prog2(i, nm=nm):
            a_ = i.call_function(fg, {"matcher": Obj("M"), "name": nm, "child": Obj("CH")}, "cls")
            b_ = i.call_function(fg, {"matcher": Obj("M"), "name": nm, "child": Obj("CH")}, "cls")
            return a_, b_

        ps2 = it2.run_program(prog2, {"CH.parent": None})
        for p_ in ps2:
            if p_.result[0] != "return":
                continue
            a_, b_ = p_.result[1]
            if _shape(a_) != _shape(b_):
                bad = bad or f"{nm}(): the first use in a process builds {a_!r}, the second {b_!r}: the same source text gives a different component the second time"
    rep.check(bad is None and len(names2) >= 2, "R5", f"{fg.file}::FunctionFactory.get_function builds the same component for a name every time", bad or f"{names2}", K.where(fg, fg.node))


def r5(idx, rep):
    table = factory_table(idx)
    fi = idx.method("FunctionFactory", "get_function")
    rep.analysed(fi)
    missing = sorted({c for n, c in table if not idx.has_cls(c)})
    rep.check(not missing, "R5", f"{fi.file}::FunctionFactory classes exist", f"{missing}", K.where(fi, fi.node))
    names = [n for n, c in table]
    rep.check(len(names) == len(set(names)), "R5", f"{fi.file}::FunctionFactory one class per name", "", K.where(fi, fi.node))
    # the result gets the qualifiers of the written name
    src = unparse(fi.node)
    rep.check("f.set_qualifiers(qualifier)" in src and "cls.get_name_and_qualifier(name)" in src, "R5", f"{fi.file}::FunctionFactory passes the qualifiers on", "", K.where(fi, fi.node))
    fq = idx.method("FunctionFactory", "get_name_and_qualifier")
    bad = None
    for nm, want in (("count", ("count", None)), ("count.onmatch", ("count", "onmatch")), ("print.once.onmatch", ("print", "once.onmatch"))):
        it = Interp(idx, types={"cls": "FunctionFactory"})
        ps = it.run_all(fq, args={"name": nm}, selfkey="cls")
        if len(ps) != 1 or ps[0].result != ("return", want):
            bad = bad or f"{nm}: {ps[0].result}"
    rep.check(bad is None, "R5", f"{fq.file}::FunctionFactory.get_name_and_qualifier table", bad or "", K.where(fq, fq.node))


def r6(idx, rep):
    fi = idx.method("CsvPath", "_find_scan_and_match_parts")
    rep.analysed(fi)
    bad = None
    for data, want in (("$f.csv[*][yes()]", ("$f.csv[*]", "[yes()]")), ("  $f[1-3]  [ #a == \"]\" ]  ", ("$f[1-3]", '[ #a == "]" ]')), ("$f[2+4]\n[\n @x = #b[\n]", None),
                       ("$f[*]", "raise"), ("$f[*] yes()", "raise"), ("no scan", "raise")):
        it = Interp(idx, types={"self": "CsvPath"}, unknown_calls="residual", handlers={"self._save_parts_if": lambda i, c, r, a, k: None})
        ps = it.run_all(fi, args={"data": data})
        if want is None:
            continue
        if want == "raise":
            if ps[0].result[0] != "raise":
                bad = bad or f"{data!r}: accepted as {ps[0].result}"
        elif len(ps) != 1 or ps[0].result != ("return", want):
            bad = bad or f"{data!r}: split into {ps[0].result}, documented {want}"
    rep.check(bad is None, "R6", f"{fi.file}::CsvPath._find_scan_and_match_parts table", bad or "", K.where(fi, fi.node))


RAW_TEXT_READERS = {
    # (function, what) -> reason
    ("ExpressionEncoder", "_id"): "explain/JSON dump of the expression tree (diagnostics only)",
}


def r7(idx, rep):
    """Matcher._id is sha256 of the raw match part and Matcher.path the raw text itself: both change with layout. Anything that
    reads them outside the parser/logging makes run results (variable keys, ids) layout-dependent."""
    n = 0
    for fi in idx.all_funcs("csvpath/matching/"):
        for x in walk_no_nested(fi.node):
            if not (isinstance(x, ast.Attribute) and isinstance(x.ctx, ast.Load)):
                continue
            base = unparse(x.value)
            hit = None
            if x.attr == "_id" and (base.endswith("matcher") or base in ("m", "matcher") or (fi.cls == "Matcher" and base == "self")):
                hit = "_id"
            elif x.attr == "path" and (base.endswith("matcher") or (fi.cls == "Matcher" and base == "self")):
                hit = "path"
            if hit is None:
                continue
            n += 1
            ok = (fi.cls, hit) in RAW_TEXT_READERS or (fi.cls == "Matcher" and fi.name in ("__init__", "__str__"))
            rep.check(ok, "R7", f"{fi.file}::{fi.qual} reads the matcher's {hit}",
                      f"`{unparse(x)}`: the matcher's id/path derive from the raw text of the match part (whitespace and comments included); using it in ids, variable names or values makes a run depend on layout", K.where(fi, x))
        # getattr(thing, "matcher") followed by ._id is the same read in disguise
        for c in walk_no_nested(fi.node):
            if isinstance(c, ast.Call) and call_name(c) == "getattr" and len(c.args) >= 2 and isinstance(c.args[1], ast.Constant) and c.args[1].value in ("_id", "path") and "matcher" in unparse(c.args[0]):
                rep.fail("R7", f"{fi.file}::{fi.qual} getattr on the matcher's {c.args[1].value}", unparse(c), K.where(fi, c))
    fi = idx.method("ExpressionUtility", "get_id")
    rep.analysed(fi)
    names = {n.id for n in ast.walk(fi.node) if isinstance(n, ast.Name)} | {n.attr for n in ast.walk(fi.node) if isinstance(n, ast.Attribute)}
    rep.check(not ({"matcher", "_id", "path", "csvpath", "match"} & names), "R7", f"{fi.file}::ExpressionUtility.get_id depends on the component tree only",
              f"get_id mentions {sorted({'matcher', '_id', 'path', 'csvpath', 'match'} & names)}: the durable ids of count()/every()/once/onchange must be a function of the parsed components, not of the text", K.where(fi, fi.node))
