"""Decision table of the generator CsvPath.next by abstract interpretation (C01.R4, C07.R3/R4, C13.R6, C15.R4/R5).

Abstract world: the reader yields 0..2 lines; _consider_line answers True/False per line; collecting and
unmatched_available flags; the stopped flag may be raised by the consideration of a line."""
from sa.absint import Interp, Obj, Residual


def rows(idx, nlines=2):
    fi = idx.method("CsvPath", "next")

    def consider(interp, call, recv, args, kwargs):
        line = args[0]
        interp.record_call("_consider_line", line)
        b = interp.choose(f"consider({line.text})", [True, False], memo=False)
        st = interp.choose(f"stops({line.text})", [False, True], memo=False)
        if st:
            interp.store["self.stopped"] = True
        return b

    def limit(interp, call, recv, args, kwargs):
        interp.record_call("limit_collection", args[0])
        return Obj(f"limited({args[0].text})")

    def fin(interp, call, recv, args, kwargs):
        interp.record_call("finalize")

    def unm_append(interp, call, recv, args, kwargs):
        interp.record_call("unmatched.append", args[0])

    out = []
    for n in range(0, nlines + 1):
        lines = [Residual(f"L{i}") for i in range(n)]
        it = Interp(idx, types={"self": "CsvPath"}, unknown_calls="residual", inline_all={"CsvPath"},
                    domains={"self.scanner": [Obj("scanner")], "self._next_line()": [lines]},
                    handlers={"self._consider_line": consider, "self.limit_collection": limit, "self.finalize": fin,
                              "self.unmatched.append": unm_append, "len": lambda i, c, r, a, k: len(a[0]) if isinstance(a[0], (list, tuple, dict, str)) else 1})
        # no collect() projection in this model (the projection itself is tabulated in C06.R3 / C07.R6)
        from . import common as K
        store = {"self.stopped": False, "self.unmatched": None, "self.limit_collection_to": [], "self." + K.names(idx)["limit"]: []}
        eager = {"self.will_run": [True, False], "self.collecting": [False, True], "self.unmatched_available": [False, True],
                 "self.line_monitor.physical_end_line_count": [None, 0, 3]}
        for p in it.run_eager(fi, eager, args={"csvpath": None}, store=store):
            p.choices = list(p.cfg.items()) + list(p.choices)
            out.append((n, p))
    return fi, out
