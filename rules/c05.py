"""C05 — errors in match components are handled exactly as the error policy says.

  R1 independent flags     decision table of ErrorHandler._handle_if: each effect iff its own flag; raise is last
  R2 flag plumbing         decision tables of ErrorCommsManager.do_i_* and of the validation-mode token parsers
  R3 handler cannot fault  every attribute read on the Error record is defined by Error.__init__ or ErrorHandler.build
  R4 nothing is lost       Matcher.matches / check_valid clear errors before every return; handle_errors_if hands every
                           collected exception to ErrorHandler.handle_error; Matcher.clear_errors visits every expression
  R5 trap everything       Expression.matches / Function.matches / Matcher._do_lasts trap `Exception` around every child
                           evaluation, record, do not re-raise; an expression with errors does not match unless
                           validation-mode says match (decision table)
  R6 line number           ErrorHandler.build records line_monitor.physical_line_number
"""
import ast
import itertools

from sa.index import AnalysisError, unparse, walk_no_nested, call_name, stores_in
from sa.absint import Interp, Obj, Residual, Raised
from sa import guards as G
from . import common as K
from . import matcher_model as MM
from .c04 import handle_if_paths, do_i_table

FLAGS = {
    "stop": ("self._ecm.do_i_stop()", "do_i_stop", "stop_on_validation_errors", "STOP"),
    "fail": ("self._ecm.do_i_fail()", "do_i_fail", "fail_on_validation_errors", "FAIL"),
    "print": ("self._ecm.do_i_print()", "do_i_print", "print_validation_errors", "PRINT"),
    "raise": ("self._ecm.do_i_raise()", "do_i_raise", "raise_validation_errors", "RAISE"),
}
COLLECT = "OnError.COLLECT.value in policy"


def run(idx, rep, tier):
    rep.explanation = (
        "Decision tables extracted by abstract interpretation of ErrorHandler._handle_if (3^4 flag values x collect x quiet x csvpath "
        "present), ErrorCommsManager.do_i_*, the validation-mode token parsers (all strings of <= 2 tokens) and Expression.matches "
        "(children votes / raising children x match_validation_errors), each compared with the policy semantics 'the outcome is the "
        "conjunction of the flags'; defined-attribute check of the Error record; must-pass-through of clear_errors in Matcher.matches; "
        "shape of the exception traps in Expression.matches, Function.matches and Matcher._do_lasts. Does not decide which inputs make a "
        "function raise, nor printer output text.")
    rep.rule("R1", "each policy effect happens iff its own flag is set; nothing else; raise last")
    rep.rule("R2", "do_i_* consult the matching validation-mode override else the matching policy member; validation-mode tokens parse to the right flag")
    rep.rule("R3", "the handler reads only attributes the Error record defines")
    rep.rule("R4", "collected errors are always handed to the handler (clear_errors before every return)")
    rep.rule("R5", "every exception below an expression is trapped, recorded, and makes the expression not match unless validation-mode match")
    rep.rule("R6", "the error record carries the physical line number")
    r1(idx, rep)
    r2(idx, rep)
    r3(idx, rep)
    r4(idx, rep)
    r5(idx, rep)
    function_matches_table(idx, rep, "R5")
    r6(idx, rep)
    collector_table(idx, rep, "R1")
    rep.stats["exhaustive"] = True


def r1(idx, rep):
    fi = idx.method("ErrorHandler", "_handle_if")
    rep.analysed(fi)
    paths = handle_if_paths(idx, fi)
    bad = {}
    n = 0
    for p in paths:
        n += 1
        if p.atom("error is None"):
            if p.result[0] != "raise":
                bad.setdefault("none-error", "a None error must be rejected")
            continue
        cp = p.atom("self._csvpath") is not None
        ch = dict(p.choices)
        cfg = {k: ch.get(v[0]) for k, v in FLAGS.items()}
        cfg["collect"] = ch.get(COLLECT)
        cfg["csvpath"] = cp
        trace = p.trace
        eff = {
            "stop": [v for k, kk, v in trace if k == "set" and kk == "self._csvpath.stopped"],
            "fail": [v for k, kk, v in trace if k == "set" and kk == "self._csvpath.is_valid"],
            "print": [1 for k, kk, v in trace if k == "call" and kk == "csvpath.print"],
            "collect": [1 for k, kk, v in trace if k == "call" and kk == "collect_error"],
            "raise": [1 for k, kk, v in trace if k == "raise"],
        }
        want = {
            "stop": cfg["stop"] is True and cp,
            "fail": cfg["fail"] is True and cp,
            "print": cfg["print"] is True and cp,
            "collect": bool(cfg["collect"]),
            "raise": cfg["raise"] is True,
        }
        for e in want:
            if bool(eff[e]) != bool(want[e]):
                bad.setdefault(e, f"flags {cfg}: effect '{e}' happened={bool(eff[e])}, policy says {bool(want[e])} (each effect depends on its own flag only)")
        if eff["stop"] and any(v is not True for v in eff["stop"]):
            bad.setdefault("stop", f"flags {cfg}: stopped stores {eff['stop']}")
        if eff["fail"] and any(v is not False for v in eff["fail"]):
            bad.setdefault("fail", f"flags {cfg}: is_valid stores {eff['fail']}")
        if len(eff["collect"]) > 1 or len(eff["print"]) > 1:
            bad.setdefault("once", f"flags {cfg}: an effect happens more than once")
        if eff["raise"]:
            # raise is the last effect
            kinds = [k for k, kk, v in trace if k in ("set", "call", "raise")]
            if kinds and kinds[-1] != "raise":
                bad.setdefault("raise-last", f"flags {cfg}: effects follow the raise")
            if p.result != ("raise", "MatchException"):
                bad.setdefault("raise", f"flags {cfg}: raises {p.result}")
        else:
            if p.result[0] == "raise":
                bad.setdefault("raise", f"flags {cfg}: the handler raises {p.result[1]} although 'raise' is not set")
    for e in ("stop", "fail", "print", "collect", "raise", "raise-last", "once", "none-error"):
        rep.check(e not in bad, "R1", f"{fi.file}::ErrorHandler._handle_if table {e}", bad.get(e, f"{n} paths"), K.where(fi, fi.node))
    rep.stats["table_rows"] = rep.stats.get("table_rows", 0) + n
    rep.sample({"rule": "R1", "paths": n, "example": paths[len(paths) // 3].summary()})
    # handle_error: builds, picks the policy of the csvpath when present, calls _handle_if with it
    fh = idx.method("ErrorHandler", "handle_error")
    rep.analysed(fh)
    it = Interp(idx, types={"self": "ErrorHandler"},
                domains={"self._csvpath": [Obj("self._csvpath"), None], "self._csvpaths": [Obj("self._csvpaths"), None]},
                handlers={"self.build": lambda i, c, r, a, k: Obj("error"),
                          "self._handle_if": lambda i, c, r, a, k: i.record_call("_handle_if", k)})
    badh = None
    for p in it.run_all(fh, args={"ex": Residual("ex")}):
        cp = p.atom("self._csvpath")
        cps = p.atom("self._csvpaths")
        calls = p.calls("_handle_if")
        if cp is not None:
            okh = len(calls) == 1 and isinstance(calls[0][1].get("policy"), Residual) and calls[0][1]["policy"].text == "self._csvpath.config.csvpath_errors_policy" and calls[0][1].get("error") == Obj("error")
            if not okh:
                badh = f"with a csvpath attached _handle_if is called with {[(c[1]) for c in calls]}; expected the csvpath's errors policy and the built error"
        elif cps is not None:
            okh = len(calls) == 1 and isinstance(calls[0][1].get("policy"), Residual) and calls[0][1]["policy"].text == "self._csvpaths.config.csvpaths_errors_policy"
            if not okh:
                badh = f"with only a CsvPaths attached _handle_if is called with {calls}"
    rep.check(badh is None, "R1", f"{fh.file}::ErrorHandler.handle_error policy selection", badh or "", K.where(fh, fh.node))


def r2(idx, rep):
    for flag, (_, meth, prop, member) in FLAGS.items():
        fi = idx.method("ErrorCommsManager", meth)
        rep.analysed(fi)
        ok, detail = do_i_table(idx, fi, prop, member)
        rep.check(ok, "R2", f"{fi.file}::ErrorCommsManager.{meth} table", detail, K.where(fi, fi.node))
    # OnError members carry their own lower-case names
    ci = idx.cls("OnError")
    want = {"RAISE": "raise", "QUIET": "quiet", "COLLECT": "collect", "STOP": "stop", "FAIL": "fail", "PRINT": "print"}
    got = {k: v.value for k, v in ci.class_assigns.items() if isinstance(v, ast.Constant)}
    rep.check(got == want, "R2", f"{ci.file}::OnError members", f"{got}", ci.file)
    # the ErrorCommsManager of a csvpath reads the csvpath policy
    fi = idx.method("ErrorCommsManager", "__init__")
    okp = True
    for cp, cps, want in ((Obj("cp"), None, "cp.config.csvpath_errors_policy"), (None, Obj("cps"), "cps.config.csvpaths_errors_policy"), (Obj("cp"), Obj("cps"), "cp.config.csvpath_errors_policy")):
        _, ps = K.sym_result(idx, "ErrorCommsManager", "__init__", args={"csvpath": cp, "csvpaths": cps})
        pol = ps[0].final_store.get("self._policy") if len(ps) == 1 else None
        okp = okp and isinstance(pol, Residual) and pol.text == want
    rep.check(okp, "R2", f"{fi.file}::ErrorCommsManager.__init__ policy source", "the policy is not taken from the owner's config (the csvpath's when there is one)", K.where(fi, fi.node))
    from . import valmode
    valmode.check(idx, rep, "R2", ["print", "raise", "match", "stop", "fail"])
    valmode.update_sequence(idx, rep, "R2")


def r3(idx, rep):
    rel = "csvpath/util/error.py"
    ci = idx.cls("Error", "util/error.py")
    defined = set(ci.methods)
    init = ci.methods["__init__"]
    for t, v, st in stores_in(init.node):
        if isinstance(t, ast.Attribute) and unparse(t.value) == "self":
            defined.add(t.attr)
    fb = idx.method("ErrorHandler", "build")
    rep.analysed(fb, init)
    # the record variable in build(): the local assigned from Error()
    rec = None
    for t, v, st in stores_in(fb.node):
        if isinstance(t, ast.Name) and isinstance(v, ast.Call) and call_name(v) == "Error":
            rec = t.id
    if rec is None:
        raise AnalysisError("ErrorHandler.build no longer constructs an Error()")
    # attributes assigned unconditionally (top level of build) count as defined
    for st in fb.node.body:
        if isinstance(st, ast.Assign):
            for t in st.targets:
                if isinstance(t, ast.Attribute) and unparse(t.value) == rec:
                    defined.add(t.attr)
    reads = []
    # reads in ErrorHandler methods on names bound to the record: parameter/local `error`
    for mname in ("_handle_if", "handle_error", "build"):
        fi = idx.method("ErrorHandler", mname)
        rep.analysed(fi)
        for n in walk_no_nested(fi.node):
            if isinstance(n, ast.Attribute) and isinstance(n.ctx, ast.Load) and isinstance(n.value, ast.Name) and n.value.id in ("error", rec):
                reads.append((fi, n))
    for mname, fi in ci.methods.items():
        if mname == "__init__":
            continue
        for n in walk_no_nested(fi.node):
            if isinstance(n, ast.Attribute) and isinstance(n.ctx, ast.Load) and isinstance(n.value, ast.Name) and n.value.id == "self":
                reads.append((fi, n))
    for fi, n in reads:
        rep.check(n.attr in defined, "R3", f"{rel}::{fi.qual} reads Error.{n.attr}",
                  f"`{unparse(n)}` reads an attribute that neither Error.__init__ nor ErrorHandler.build (unconditionally) defines: AttributeError whenever this statement runs", K.where(fi, n))
    rep.floor("R3", 15, "attribute reads on the Error record")


def r4(idx, rep):
    fi, rows = MM.run_model(idx, max_components=2, with_memo=False)
    rep.analysed(fi)
    bad = None
    for row in rows:
        for aspect, ok, detail in MM.judge(row):
            if aspect == "clear-errors" and not ok:
                bad = bad or detail
    rep.check(bad is None, "R4", f"{fi.file}::Matcher.matches clear_errors before every return", bad or f"{len(rows)} rows", K.where(fi, fi.node))
    fb, paths = MM.blank_last_rows(idx)
    okb = all(any(k[1] == "clear_errors" for k in p.trace if k[0] == "call") for p in paths)
    rep.check(okb, "R4", f"{fi.file}::Matcher.matches blank-last clear_errors", "", K.where(fi, fi.node))
    rep.stats["table_rows"] = rep.stats.get("table_rows", 0) + len(rows)
    # check_valid passes clear_errors
    fc = idx.method("Matcher", "check_valid")
    rep.analysed(fc)
    m = K.Must(gen=K.call_pred("clear_errors")).run(fc.node)
    rep.check(all(s for kind, st, s in m.exits if kind in ("return", "fall")), "R4", f"{fc.file}::Matcher.check_valid passes clear_errors", "", K.where(fc, fc.node))
    # clear_errors visits every expression unconditionally
    fce = idx.method("Matcher", "clear_errors")
    rep.analysed(fce)
    seen = []
    it = Interp(idx, types={"self": "Matcher"}, unknown_calls="residual", handlers={".handle_errors_if": lambda i, c, r, a, k: seen.append(r.name)})
    ps = it.run_all(fce, store={"self.expressions": [[Obj("e0"), None], [Obj("e1"), True], [Obj("e2"), False]]})
    okc = len(ps) == 1 and ps[0].result[0] == "return" and seen == ["e0", "e1", "e2"]
    rep.check(okc, "R4", f"{fce.file}::Matcher.clear_errors visits every expression", f"three expressions (memo None/True/False): handle_errors_if reached {seen}; every expression once, whatever its memoised vote", K.where(fce, fce.node))
    # Expression.handle_errors_if hands every collected exception to ErrorHandler.handle_error
    fh = idx.method("Expression", "handle_errors_if")
    rep.analysed(fh)

    def eh(interp, call, recv, args, kwargs):
        return Obj("handler")

    def he(interp, call, recv, args, kwargs):
        interp.record_call("handle_error", args[0] if args else None)
        return None

    bad = None
    for errs in ([], ["x"], ["x", "y", "z"]):
        it = Interp(idx, types={"self": "Expression"}, handlers={"ErrorHandler": eh, "handler.handle_error": he})
        ps = it.run_all(fh, store={"self.errors": list(errs)})
        if len(ps) != 1:
            bad = "handle_errors_if is conditional on something other than the error list"
            break
        got = [v for kk, v in ps[0].calls("handle_error")]
        if got != errs:
            bad = f"with collected errors {errs} the handler receives {got}"
        if ps[0].final_store.get("self.errors") not in ([],):
            bad = bad or "the collected list is not emptied after handling (errors would be handled twice)"
    rep.check(bad is None, "R4", f"{fh.file}::Expression.handle_errors_if hands over every error", bad or "", K.where(fh, fh.node))
    # ... with the csvpath as owner and collector
    ctor = [n for n in walk_no_nested(fh.node) if isinstance(n, ast.Call) and call_name(n) == "ErrorHandler"]
    kw = {k.arg: unparse(k.value) for c in ctor for k in c.keywords}
    rep.check(kw.get("csvpath") == "self.matcher.csvpath", "R4", f"{fh.file}::Expression.handle_errors_if handler owner", f"{kw}", K.where(fh, fh.node))


_IDX = []


def _records(fi, stmts, recorder, depth):
    """the statements call one of `recorder`, directly or through private helpers of the same class family (self.<helper>(…))"""
    for s_ in stmts:
        for c in ast.walk(s_):
            if not isinstance(c, ast.Call):
                continue
            nm = call_name(c)
            if nm in recorder:
                return True
            if (depth > 0 and _IDX and fi.cls and isinstance(c.func, ast.Attribute) and isinstance(c.func.value, ast.Name) and c.func.value.id == "self"
                    and _IDX[0].has_cls(fi.cls) and _IDX[0].has_method(fi.cls, nm)):
                m = _IDX[0].method(fi.cls, nm)
                if _records(m, m.node.body, recorder, depth - 1):
                    return True
    return False


def _trap_shape(fi, rep, rid, must_contain, recorder):
    """the function has a try whose body contains the calls in must_contain, a handler for Exception that
    records through `recorder` and does not re-raise"""
    tries = [n for n in walk_no_nested(fi.node) if isinstance(n, ast.Try)]
    found = False
    detail = "no try statement"
    for t in tries:
        calls = {call_name(c) for s in t.body for c in ast.walk(s) if isinstance(c, ast.Call)}
        if not must_contain <= calls:
            detail = f"the try body does not contain the evaluation calls {sorted(must_contain - calls)}"
            continue
        for h in t.handlers:
            tn = unparse(h.type) if h.type is not None else "bare"
            if tn not in ("Exception", "BaseException", "bare"):
                detail = f"handler catches only {tn}"
                continue
            reraises = any(isinstance(n, ast.Raise) for s in h.body for n in ast.walk(s))
            records = _records(fi, h.body, recorder, 3)
            if reraises:
                detail = "the handler re-raises"
            elif not records:
                detail = f"the handler does not record the error (expected a call of {sorted(recorder)})"
            else:
                found = True
    # evaluation calls outside the try
    outside = []
    for n in walk_no_nested(fi.node):
        if isinstance(n, ast.Call) and call_name(n) in must_contain:
            inside = any(n in list(ast.walk(s)) for t in tries for s in t.body)
            if not inside:
                outside.append(unparse(n))
    rep.check(found and not outside, rid, f"{fi.file}::{fi.qual} traps every exception", detail if not found else f"evaluation outside the trap: {outside}", K.where(fi, fi.node))


def r5(idx, rep):
    _IDX[:] = [idx]
    fe = idx.method("Expression", "matches")
    ff = idx.method("Function", "matches")
    fl = idx.method("Matcher", "_do_lasts")
    rep.analysed(fe, ff, fl)
    _trap_shape(fe, rep, "R5", {"matches"}, {"append", "handle_error"})
    _trap_shape(ff, rep, "R5", {"_decide_match", "matches"}, {"handle_error"})
    _trap_shape(fl, rep, "R5", {"_find_and_actvate_lasts"}, {"handle_error"})
    # Expression.matches decision table
    n = 0
    bad = None
    for nchild in (1, 2):
        def child(interp, call, recv, args, kwargs):
            v = interp.choose(f"{recv.name}", [True, False, None, "raise", "records"], memo=False)
            if v == "raise":
                interp.record_call("child-raised")
                raise Raised("ValueError")
            if v == "records":
                # a component below handled its own error (a validation error under a non-raising policy): it hands the error to the
                # expression and still votes True
                interp.store["self.errors"].append("E")
                return True
            return v

        it = Interp(idx, types={"self": "Expression"}, unknown_calls="residual",
                    domains={"self.matcher.csvpath.match_validation_errors": [None, True, False], "self.match": [None]},
                    handlers={".matches": child})
        store = {"self.children": [Obj(f"c{i}") for i in range(nchild)], "self.errors": []}
        # (asked by the matcher — empty skip list — and by an onmatch look-ahead of another expression, which passes itself as the one to skip)
        for p in [p_ for sk in ([], [Obj("asker")]) for p_ in it.run_all(fe, args={"skip": sk}, store=store)]:
            n += 1
            votes = [v for t, v in p.choices if t.startswith("c")]
            raised = "raise" in votes or "records" in votes
            mve = p.atom("self.matcher.csvpath.match_validation_errors")
            if p.result[0] != "return":
                bad = bad or f"children {votes}: an exception escapes Expression.matches ({p.result})"
                continue
            val = p.result[1]
            errs = p.final_store.get("self.errors")
            if raised:
                nerr = sum(1 for v in votes if v in ("raise", "records"))
                if not errs or len(errs) != nerr:
                    bad = bad or f"children {votes}: the errors are not recorded exactly once each (errors={errs})"
                if not mve and val is not False:
                    bad = bad or f"children {votes}, validation-mode match={mve!r}: the expression returns {val!r}; an erroring component must not match"
            else:
                want = all(bool(v) for v in votes)
                if val is not want and "records" not in votes:
                    bad = bad or f"children {votes}: returns {val!r}, expected {want!r}"
    rep.check(bad is None, "R5", f"{fe.file}::Expression.matches table", bad or f"{n} paths", K.where(fe, fe.node))
    rep.stats["table_rows"] = rep.stats.get("table_rows", 0) + n
    # Matchable.handle_error forwards to the expression; Expression.handle_error appends
    fh, ps = K.sym_result(idx, "Expression", "handle_error", args={"error": "E2"}, store={"self.errors": ["E1"]})
    rep.check(len(ps) == 1 and ps[0].final_store.get("self.errors") == ["E1", "E2"], "R5", f"{fh.file}::Expression.handle_error appends", f"{ps[0].final_store.get('self.errors')}", K.where(fh, fh.node))
    got = []
    fm, ps = K.sym_result(idx, "Matchable", "handle_error", args={"e": "E"}, domains={"self.my_expression": [Obj("EXPR")]}, handlers={"EXPR.handle_error": lambda i, c, r, a, k: got.append(a[0])})
    rep.check(got == ["E"], "R5", f"{fm.file}::Matchable.handle_error forwards to its expression", f"{got}", K.where(fm, fm.node))
    # Function.matches: after a trapped exception the function returns self.match, not an exception
    # Args.handle_errors_if: a full mismatch either raises ChildrenException (trapped above) or records it
    fa = idx.method("Args", "handle_errors_if")
    rep.analysed(fa)
    it = Interp(idx, types={"self": "Args"}, unknown_calls="residual", inline_all={"Args"},
                domains={"self._matchable.matcher.csvpath.match_validation_errors": [None, True, False]},
                handlers={"ErrorCommsManager": lambda i, c, r, a, k: Obj("ecm"), "ecm.do_i_raise": lambda i, c, r, a, k: i.choose("do_i_raise", [True, False]),
                          "self._matchable.raiseChildrenException": _raise_children, "self._matchable.handle_error": lambda i, c, r, a, k: i.record_call("handle_error"),
                          "ChildrenException": lambda i, c, r, a, k: Obj("exc")})
    bad = None
    for mism, nsets in ((2, 2), (1, 2), (0, 1)):
        for p in it.run_all(fa, args={"mismatch_count": mism, "mismatches": ["m"]}, store={"self._argsets": list(range(nsets))}):
            full = mism == nsets
            signalled = p.result[0] == "raise" or bool(p.calls("handle_error"))
            am = p.sets("self._args_match")
            if full and not signalled:
                bad = bad or f"all {nsets} argsets mismatch but no error is raised or recorded ({p.summary()['choices']})"
            if full and am != [False]:
                bad = bad or f"all argsets mismatch but args_match stores {am}"
            if full:
                # record-and-continue only under validation-mode match with a policy (as the ErrorCommsManager of *now* reads it,
                # validation-mode override included) that does not raise; otherwise raise into the trap
                dr = p.atom("do_i_raise")
                mve = p.atom("self._matchable.matcher.csvpath.match_validation_errors")
                other = [t for t, v in p.choices if t not in ("do_i_raise", "self._matchable.matcher.csvpath.match_validation_errors")]
                if dr is None or other:
                    bad = bad or (f"the raise-or-continue decision is not taken from a fresh ErrorCommsManager(csvpath=…).do_i_raise() and match_validation_errors "
                                  f"(consulted: {[t for t, v in p.choices]}); a cached manager answers from the policy list it saw at construction")
                else:
                    want_handle = (not dr) and bool(mve)
                    if bool(p.calls("handle_error")) != want_handle or (p.result[0] == "raise") == want_handle:
                        bad = bad or f"do_i_raise={dr} validation-mode match={mve!r}: handled={bool(p.calls('handle_error'))} raised={p.result[0] == 'raise'}, documented handled={want_handle}"
            if not full and (signalled or am):
                bad = bad or f"{mism}/{nsets} argsets mismatch: an error is signalled although one argset matched"
    rep.check(bad is None, "R5", f"{fa.file}::Args.handle_errors_if table", bad or "", K.where(fa, fa.node))
    encoder_total(idx, rep, "R5")
    import_rehomes(idx, rep, "R5")


def import_rehomes(idx, rep, rid):
    """import(): the imported expression *and* all its descendants are re-homed on the importing matcher — Expression.matches and
    Expression.handle_errors_if reach the csvpath (policy, validation-mode, collector, printers) through self.matcher, so a component left
    on the throw-away matcher reports its errors to a discarded csvpath"""
    fi = idx.method("Import", "_set_matcher")
    rep.analysed(fi)
    tree = {"E.children": [Obj("c1"), Obj("c2")], "c1.children": [Obj("c11")], "c2.children": [], "c11.children": [Obj("c111")], "c111.children": [],
            "self.matcher": Obj("IMPORTER")}
    for n in ("E", "c1", "c2", "c11", "c111"):
        tree[f"{n}.matcher"] = Obj("THROWAWAY")
    ps = Interp(idx, types={"self": "Import"}, unknown_calls="residual").run_all(fi, args={"e": Obj("E")}, store=tree)
    left = []
    if len(ps) == 1 and ps[0].result[0] == "return":
        left = [n for n in ("E", "c1", "c2", "c11", "c111") if ps[0].final_store.get(f"{n}.matcher") != Obj("IMPORTER")]
    rep.check(len(ps) == 1 and ps[0].result[0] == "return" and not left, rid, f"{fi.file}::Import._set_matcher re-homes the whole imported expression",
              f"left on the throw-away matcher: {left or [p.result for p in ps]} (E is the imported expression, c* its descendants)", K.where(fi, fi.node))


def encoder_total(idx, rep, rid):
    """the traps of Expression.matches / Function.matches build `e.json = to_json(...)` inside their except blocks, before handle_error:
    an exception there escapes the trap for every policy.  The value cleaner the encoder applies to arbitrary run-time values must
    therefore be total"""
    fi = idx.method("ExpressionEncoder", "_no_quotes")
    rep.analysed(fi)
    bad = None
    corpus = ["", '"', "'", "a", '"a"', 'a"b', " ", None, 0, 5, 2.5, True, False, [], ["x"], {}]
    for v in corpus:
        ps = Interp(idx, types={"self": "ExpressionEncoder"}, unknown_calls="residual").run_all(fi, args={"v": v})
        for p in ps:
            if p.result[0] != "return":
                bad = bad or f"_no_quotes({v!r}) ends in {p.result}: to_json is called inside the error traps before handle_error, so this exception replaces the error being handled and reaches the caller whatever the policy"
    rep.check(bad is None, rid, f"{fi.file}::ExpressionEncoder._no_quotes is total", bad or f"{len(corpus)} values", K.where(fi, fi.node))


def function_matches_table(idx, rep, rid):
    """Function.matches: validation-mode effects of an argument mismatch, the frozen/onmatch gates, the trap"""
    fi = idx.method("Function", "matches")
    rep.analysed(fi)
    bad = {}
    n = 0
    import itertools
    for frozen, onmatch, has_args, matched, args_match, stop_on, fail_on, mve, decide_raises in itertools.product(
            (False, True), (True, False), (True,), (False, True), (True, False, None), (None, True, False), (None, True, False), (None, True, False), (False, True)):
        if frozen and (matched or args_match is not True or stop_on or fail_on or mve is not None or decide_raises):
            continue  # one frozen row per onmatch value is enough
        st = {"self.match": None, "self.args": Obj("ARGS"), "ARGS.matched": matched, "ARGS.args_match": args_match,
              "self.matcher.csvpath.stop_on_validation_errors": stop_on, "self.matcher.csvpath.fail_on_validation_errors": fail_on,
              "self.matcher.csvpath.match_validation_errors": mve, "self.name": "fn", "self.FOCUS": "x"}

        def args_matches(i, c, r, a, k, args_match=args_match):
            i.record_call("args.matches")
            i.store["ARGS.args_match"] = args_match
            i.store["ARGS.matched"] = True

        def decide(i, c, r, a, k, decide_raises=decide_raises):
            i.record_call("_decide_match")
            if decide_raises:
                raise Raised("ValueError")
            i.store["self.match"] = "DECIDED"

        it = Interp(idx, types={"self": "Function"}, unknown_calls="residual",
                    handlers={"self.do_frozen": lambda i, c, r, a, k, frozen=frozen: frozen, "self.do_onmatch": lambda i, c, r, a, k, onmatch=onmatch: onmatch,
                              "self.sibling_values": lambda i, c, r, a, k: ["v"], "ARGS.matches": args_matches, "self._decide_match": decide,
                              "self.matcher.csvpath.stop": lambda i, c, r, a, k: i.record_call("stop"),
                              "self.default_match": lambda i, c, r, a, k: "DEFAULT", "self._noop_value": lambda i, c, r, a, k: "NOOP",
                              "self.my_expression.handle_error": lambda i, c, r, a, k: i.record_call("handle_error"),
                              "self.to_json": lambda i, c, r, a, k: "{}"})
        ps = it.run_all(fi, args={"skip": []}, store=st)
        n += 1
        if len(ps) != 1:
            bad.setdefault("deterministic", f"Function.matches consults something outside the model: {ps[0].summary()['choices'][:3]}")
            continue
        p = ps[0]
        cfg = dict(frozen=frozen, onmatch=onmatch, args_matched_before=matched, args_match=args_match, stop=stop_on, fail=fail_on, match=mve, raises=decide_raises)
        if p.result[0] != "return":
            bad.setdefault("trap", f"{cfg}: an exception escapes Function.matches ({p.result})")
            continue
        stops = len(p.calls("stop"))
        fails = p.sets("self.matcher.csvpath.is_valid")
        decided = len(p.calls("_decide_match"))
        if frozen:
            if stops or fails or decided or p.result[1] != "NOOP":
                bad.setdefault("frozen", f"{cfg}: a frozen function acts (stop={stops}, verdict stores={fails}, decide={decided}, returns {p.result[1]!r})")
            continue
        if not onmatch:
            if stops or fails or decided or p.result[1] != "DEFAULT":
                bad.setdefault("onmatch", f"{cfg}: an onmatch function on a non-matching line acts (stop={stops}, verdict={fails}, decide={decided}, returns {p.result[1]!r})")
            continue
        mismatch = args_match is False
        if stops != (1 if (mismatch and stop_on) else 0):
            bad.setdefault("stop", f"{cfg}: stop() called {stops}x; validation-mode 'stop' stops the run exactly on an argument mismatch")
        if (fails == [False]) != bool(mismatch and fail_on) or any(v is not False for v in fails):
            bad.setdefault("fail", f"{cfg}: verdict stores {fails}; validation-mode 'fail' fails the file exactly on an argument mismatch")
        if mismatch and mve is not None:
            if decided or p.result[1] is not mve:
                bad.setdefault("match", f"{cfg}: returns {p.result[1]!r}, _decide_match called {decided}x; validation-mode (no-)match decides the vote of a mismatching component")
        else:
            if decided != 1:
                bad.setdefault("decide", f"{cfg}: _decide_match called {decided}x")
            elif decide_raises and not p.calls("handle_error"):
                bad.setdefault("trap", f"{cfg}: the exception raised by the function is not handed to its expression")
        if not matched and len(p.calls("args.matches")) != 1:
            bad.setdefault("validate", f"{cfg}: argument validation ran {len(p.calls('args.matches'))}x")
    for aspect in ("deterministic", "trap", "frozen", "onmatch", "stop", "fail", "match", "decide", "validate"):
        rep.check(aspect not in bad, rid, f"{fi.file}::Function.matches table {aspect}", bad.get(aspect, f"{n} rows"), K.where(fi, fi.node))
    rep.stats["table_rows"] = rep.stats.get("table_rows", 0) + n


def _raise_children(interp, call, recv, args, kwargs):
    interp.path.trace.append(("raise", "ChildrenException", None))
    raise Raised("ChildrenException")


def r6(idx, rep):
    fb = idx.method("ErrorHandler", "build")
    rep.analysed(fb)

    def hasattr_h(interp, call, recv, args, kwargs):
        return interp.choose("hasattr:" + str(args[1]), [True, False])

    it = Interp(idx, types={"self": "ErrorHandler"}, unknown_calls="residual",
                domains={"self._csvpath": [Obj("self._csvpath")], "self._csvpath.line_monitor": [Obj("lm")], "self._csvpath.scanner": [Obj("sc")]},
                handlers={"Error": lambda i, c, r, a, k: Obj("error"), "hasattr": hasattr_h})
    bad = None
    n = 0
    for p in it.run_all(fb, args={"ex": Residual("ex")}):
        n += 1
        lc = p.sets("error.line_count")
        if not lc or not isinstance(lc[-1], Residual) or lc[-1].text != "lm.physical_line_number":
            bad = f"line_count stores {lc}; expected the csvpath's line_monitor.physical_line_number"
        er = p.sets("error.error")
        if not er or er[-1] != Residual("ex"):
            bad = bad or f"error.error stores {er}"
        if p.result != ("return", Obj("error")):
            bad = bad or f"build returns {p.result}"
    rep.check(bad is None, "R6", f"{fb.file}::ErrorHandler.build records the line number", bad or f"{n} paths", K.where(fb, fb.node))
    # to_json exports line_count
    ft = idx.method("Error", "to_json", file_hint="util/error.py")
    it = Interp(idx, types={"self": "Error"}, unknown_calls="residual")
    ps = it.run_all(ft, store={"self.line_count": 7})
    rj = ps[0].result[1] if len(ps) == 1 and ps[0].result[0] == "return" else {}
    rep.check(isinstance(rj, dict) and rj.get("line_count") == 7, "R6", f"{ft.file}::Error.to_json exports line_count", f"{rj if not isinstance(rj, dict) else rj.get('line_count')}", K.where(ft, ft.node))


def collector_table(idx, rep, rid):
    """ErrorHandler.__init__: the collector it was given is the collector it uses — also a Result that holds no lines yet (a Result has a
    length: the number of its lines), otherwise the CsvPaths, otherwise the CsvPath, otherwise a configuration error"""
    fi = idx.method("ErrorHandler", "__init__")
    rep.analysed(fi)
    bad = None
    n = 0
    for coll, cps, cp in itertools.product(("empty result", "result", None), (True, False), (True, False)):
        it = Interp(idx, types={"self": "ErrorHandler", "RES": "Result", "CPS": "CsvPaths", "CP": "CsvPath"}, unknown_calls="residual",
                    handlers={"ErrorCommsManager": lambda i, c, r, a, k: Obj("ECM")})
        lines = [] if coll == "empty result" else [["a"], ["b"]]
        st = {"RES.lines": list(lines), "RES._lines": list(lines)}
        args = {"csvpaths": Obj("CPS") if cps else None, "csvpath": Obj("CP") if cp else None, "error_collector": Obj("RES") if coll else None}
        ps = it.run_all(fi, args=args, store=st)
        n += 1
        want = Obj("RES") if coll else Obj("CPS") if cps else Obj("CP") if cp else "raise"
        got = [("raise" if p.result[0] == "raise" else p.final_store.get("self._error_collector")) for p in ps]
        if got != [want]:
            bad = bad or (f"ErrorHandler(csvpaths={'set' if cps else None}, csvpath={'set' if cp else None}, error_collector={coll}) collects into {got}, documented {want!r}: "
                          "the error of a member would be recorded somewhere else than in the member's result (errors.json stays [])")
    rep.check(bad is None, rid, f"{fi.file}::ErrorHandler collector table", bad or f"{n} rows", K.where(fi, fi.node))
