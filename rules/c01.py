"""C01 — returned lines are exactly the scanned lines that satisfy the match part.

  R1 comparator tables      AboveBelow: per alias x type path the *returned* operator; Between: order table
  R2 numeric before lexical AboveBelow._decide_match: the string comparison is reached only after a failed numeric coercion
  R3 vote fold              Matcher.matches exhaustive table: in-order evaluation, AND = no False vote, OR = some True vote
  R4 yield discipline       CsvPath._consider_line verdict table and CsvPath.next table: a line is yielded iff considered True,
                            once, in reader order, unbuffered
  R5 alias ladders          every chain of `self.name` tests covers the aliases the factory gives the class
  R6 component dispatch     Equality.matches / _do_when tables
  R7 error => no match      Expression.matches table (shared with C05.R5)
  R8 function tables        vote/value tables of the simple documented functions (not, and, or, yes, no, equals, in, ...)
"""
import ast
import itertools
import re

from sa.index import AnalysisError, unparse, walk_no_nested, call_name
from sa.absint import Interp, Obj, Residual, Raised
from . import common as K
from . import matcher_model as MM
from . import consider_model as CM
from . import next_model as NM
from . import funcs_model as FM
from .aliases import factory_aliases, aliases_of

ABOVE_SPEC = {"gt": ">", "above": ">", "after": ">", "gte": ">=", "lt": "<", "below": "<", "before": "<", "lte": "<="}


def run(idx, rep, tier):
    rep.explanation = (
        "Per-alias operator tables of the comparison functions (alias set read from FunctionFactory, self.name folded by abstract "
        "interpretation, the returned expression compared with docs/functions/above.md and between.md); type ladder of above/below; the "
        "exhaustive decision tables of Matcher.matches (vote fold), CsvPath._consider_line and the generator CsvPath.next (yield iff "
        "considered true, once, in order); alias-ladder exhaustiveness for every function class; Equality dispatch and when/do tables; "
        "Expression error table; vote/value tables of the simple documented functions. Decides these structural necessary conditions for all "
        "inputs; does not decide the value every function computes for every argument.")
    rep.rule("R1", "comparison functions return the documented operator for every alias and type path")
    rep.rule("R2", "numeric comparison is attempted before the lexicographic one")
    rep.rule("R3", "Matcher.matches folds the votes in order: AND all / OR any")
    rep.rule("R4", "a line is yielded iff it is scanned, non-blank and (matched XOR return-mode no-matches); once; in order")
    rep.rule("R5", "alias ladders cover the factory's alias set")
    rep.rule("R6", "Equality dispatch and when/do semantics")
    rep.rule("R7", "an erroring expression does not match")
    rep.rule("R8", "simple function vote/value tables")
    rep.rule("R9", "a function's value is produced once per line: only Function.to_value calls _produce_value")
    rep.rule("R10", "per-component and per-member state is not shared: durable ids differ with the component text; every group member gets its own line monitor")
    r1(idx, rep)
    r2(idx, rep)
    coercions(idx, rep)
    r3(idx, rep, tier)
    r4(idx, rep)
    r5(idx, rep)
    r6(idx, rep)
    r7(idx, rep)
    r8(idx, rep)
    r9(idx, rep)
    from . import c03, c08, c05, c06
    c03.durable_ids(idx, rep, "R10")
    c08.copies(idx, rep, "R10")
    # a bare @v component votes on existence; #name resolves to the first column of that name in the headers of now
    c03.r7(idx, rep, "R8")
    c06.header_index_sequences(idx, rep, "R8")
    c06.header_value_sequence(idx, rep, "R8")
    c06.reset_table(idx, rep, "R8")
    c06.reset_clears(idx, rep, "R8")
    # a handled error ends the run only when the policy (or the csvpath's validation-mode) says stop: every later matching line is lost otherwise
    c05.r2(idx, K.as_rule(rep, "R7", keep=lambda k: "do_i_" in k))
    rep.stats["exhaustive"] = True


# ------------------------------------------------------------------------------------------ R1
def _op_of(text):
    m = re.findall(r"\s(>=|<=|>|<)\s", text)
    return m[0] if len(m) == 1 else None


def r1(idx, rep):
    names = aliases_of(idx, "AboveBelow")
    unknown = [n for n in names if n not in ABOVE_SPEC]
    if unknown:
        rep.fail("R1", "csvpath/matching/functions/math/above.py::AboveBelow aliases", f"the factory gives AboveBelow the undocumented aliases {unknown}", "function_factory.py")
    paths_spec = {
        "numbers": ("_try_numbers", {}),
        "datetime": ("_try_dates", {"ExpressionUtility.all([a, b], [datetime])": [True]}),
        "date": ("_try_dates", {"ExpressionUtility.all([a, b], [datetime])": [False], "ExpressionUtility.all([a, b], [date])": [True]}),
        "strings": ("_try_strings", {}),
    }
    for nm in names:
        for pname, (meth, dom) in paths_spec.items():
            fi = idx.method("AboveBelow", meth)
            rep.analysed(fi)
            d = {"self.name": [nm]}
            d.update(dom)
            it = Interp(idx, types={"self": "AboveBelow"}, inline={"AboveBelow._above"}, unknown_calls="residual", domains=d)
            ps = it.run_all(fi, args={"a": Residual("a"), "b": Residual("b")})
            key = f"{fi.file}::AboveBelow alias {nm} path {pname}"
            if len(ps) != 1:
                rep.fail("R1", key, f"{len(ps)} paths for a fixed alias (unfolded test: {ps[0].summary()['choices']})", K.where(fi, fi.node))
                continue
            kind, v = ps[0].result
            got = _op_of(v.text) if isinstance(v, Residual) else None
            want = ABOVE_SPEC.get(nm)
            if kind == "return" and v is None:
                detail = f"{nm}() falls off the end of {meth} on the {pname} path (no vote)"
            else:
                detail = f"{nm}() returns `{v.text if isinstance(v, Residual) else v}` on the {pname} path; docs/functions/above.md: `a {want} b`"
                if isinstance(v, Residual) and got == want and not re.search(r"a\b.*" + re.escape(want) + r".*b\b", v.text):
                    got = None
                    detail += " (operands swapped)"
            rep.check(got == want, "R1", key, detail, K.where(fi, fi.node))
    rep.floor("R1", 32, "alias x path instances of AboveBelow")
    # Between: concrete order table through _order/_compare
    bnames = aliases_of(idx, "Between")
    fo = idx.method("Between", "_order")
    rep.analysed(fo, *K.opt(idx, "Between", "_compare"), *K.opt(idx, "Between", "_between"))
    for nm in bnames:
        bad = None
        for me, a, b in itertools.product([1, 2, 3, 4, 5], [2, 4], [2, 4]):
            it = Interp(idx, types={"self": "Between"}, inline={"Between._compare", "Between._between"}, domains={"self.name": [nm]})
            ps = it.run_all(fo, args={"me": me, "a": a, "b": b})
            hi, lo = max(a, b), min(a, b)
            if nm in ("between", "inside"):
                want = lo < me < hi
            elif nm in ("from_to", "range"):
                want = lo <= me <= hi
            elif nm in ("beyond", "outside"):
                want = me > hi or me < lo
            else:
                bad = f"undocumented alias {nm}"
                break
            if len(ps) != 1 or ps[0].result != ("return", want):
                bad = bad or f"{nm}({me}, {a}, {b}) is {ps[0].result[1]!r}; docs/functions/between.md says {want}"
        rep.check(bad is None, "R1", f"{fo.file}::Between alias {nm} order table", bad or "50 rows", K.where(fo, fo.node))
    # Between._decide_match: numbers, then dates, then strings; None in args → False
    fd = idx.method("Between", "_decide_match")
    rep.analysed(fd)

    def tn(name):
        def h(interp, call, recv, args, kwargs):
            interp.record_call(name)
            return interp.choose(name, [None, True, False])
        return h

    it = Interp(idx, types={"self": "Between"}, unknown_calls="residual",
                handlers={"self._try_numbers": tn("numbers"), "self._try_dates": tn("dates"), "self._try_strings": tn("strings"),
                          "self.siblings": lambda i, c, r, a, k: [Obj("s0"), Obj("s1"), Obj("s2")],
                          ".to_value": lambda i, c, r, a, k: Residual(f"v_{r.name}")})
    it.domains["None in [v_s0, v_s1, v_s2]"] = [False, True]
    bad = None
    for p in it.run_all(fd, args={"skip": []}):
        calls = [k[1] for k in p.trace if k[0] == "call" and k[1] in ("numbers", "dates", "strings")]
        anynone = any(v for t, v in p.choices if " in [" in t)
        final = FM.final(p, "self.match")
        if anynone:
            if calls or final is not False:
                bad = bad or f"a None argument: calls {calls}, match {final!r}; documented False"
            continue
        want_calls = ["numbers"]
        res = p.atom("numbers")
        if res is None:
            want_calls.append("dates")
            res = p.atom("dates")
            if res is None:
                want_calls.append("strings")
                res = p.atom("strings")
        if calls != want_calls:
            bad = bad or f"type ladder {calls}, documented number → date → string ({want_calls})"
        if final is not (res if res is not None else False):
            bad = bad or f"ladder results {p.summary()['choices']}: match {final!r}"
    rep.check(bad is None, "R1", f"{fd.file}::Between._decide_match type ladder", bad or "", K.where(fd, fd.node))


# ------------------------------------------------------------------------------------------ R2
def r2(idx, rep):
    fi = idx.method("AboveBelow", "_decide_match")
    rep.analysed(fi)

    def euall(interp, call, recv, args, kwargs):
        t = unparse(call.args[1])
        return interp.choose(f"all:{t}", [False, True])

    def isnum(interp, call, recv, args, kwargs):
        return interp.choose(f"is_number({args[0].text})", [False, True])

    def tr(name):
        def h(interp, call, recv, args, kwargs):
            interp.record_call(name, args)
            return Residual(name)
        return h

    it = Interp(idx, types={"self": "AboveBelow"}, unknown_calls="residual",
                handlers={"ExpressionUtility.all": euall, "ExpressionUtility.is_number": isnum,
                          "self._try_numbers": tr("numbers"), "self._try_dates": tr("dates"), "self._try_strings": tr("strings"),
                          ".to_value": lambda i, c, r, a, k: Residual("a" if r.name == "c0" else "b")},
                domains={"self.name": ["gt"]})
    store = {"self.children": [Obj("eq")], "eq.children": [Obj("c0"), Obj("c1")]}
    bad = None
    n = 0
    for p in it.run_all(fi, args={"skip": []}, store=store):
        n += 1
        calls = [k[1] for k in p.trace if k[0] == "call" and k[1] in ("numbers", "dates", "strings")]
        ch = dict(p.choices)
        a_none = ch.get("a is None")
        b_none = ch.get("b is None")
        if calls == ["strings"]:
            na, nb = ch.get("is_number(a)"), ch.get("is_number(b)")
            tried = (na is not None) and (na is False or nb is False)
            if not tried:
                bad = bad or (f"the lexicographic comparison is reached on a path that never tried (and failed) a numeric coercion of both operands: {p.summary()['choices']}; "
                              "header values are strings, so '9' vs '10' would compare as text")
        if calls == ["numbers"]:
            pass
    rep.check(bad is None, "R2", f"{fi.file}::AboveBelow._decide_match numeric before lexicographic", bad or f"{n} paths", K.where(fi, fi.node))
    # one None operand → False ; both None → compared as strings (documented: no ordinal relationship → False for one None)
    bad = None
    for p in it.run_all(fi, args={"skip": []}, store=store):
        ch = dict(p.choices)
        an, bn = ch.get("a is None"), ch.get("b is None")
        # reconstruct: condition (a None and b not None) or (b None and a not None)
        final = FM.final(p, "self.match")
        calls = [k[1] for k in p.trace if k[0] == "call" and k[1] in ("numbers", "dates", "strings")]
        if not calls and final is not False:
            bad = bad or f"no comparison ran but match is {final!r} ({p.summary()['choices']})"
    rep.check(bad is None, "R2", f"{fi.file}::AboveBelow._decide_match None operand", bad or "", K.where(fi, fi.node))


NUMBERS = [0, 0.0, 1, -1, 2.5, 10, "0", "0.0", "0.00", " 7 ", "-3", ".5", "10", "9"]
NOT_NUMBERS = ["abc", "x1", "", " ", None, True, False]


def coercions(idx, rep, rid="R2"):
    """the numeric coercion helpers every comparison goes through, interpreted on a value corpus: 0 and 0.0 are numbers like any other"""
    inl = {"ExpressionUtility.to_int", "ExpressionUtility.to_float", "ExpressionUtility.isnan", "ExpressionUtility.is_none"}
    ty = {"cls": "ExpressionUtility", "self": "ExpressionUtility"}
    fn = idx.method("ExpressionUtility", "is_number")
    ff = idx.method("ExpressionUtility", "to_float")
    fint = idx.method("ExpressionUtility", "to_int")
    rep.analysed(fn, ff, fint)
    bad = None
    for v in NUMBERS + NOT_NUMBERS:
        ps = Interp(idx, types=ty, inline=inl).run_all(fn, args={"v": v})
        want = v in NUMBERS and not isinstance(v, bool)
        if isinstance(v, bool) or v is None:
            want = False
        if len(ps) != 1 or ps[0].result != ("return", want):
            bad = bad or f"is_number({v!r}) is {[p.result for p in ps]}, documented {want} (a comparison with this operand would {'fall back to text order' if want else 'be numeric'})"
    rep.check(bad is None, rid, f"{fn.file}::ExpressionUtility.is_number table", bad or f"{len(NUMBERS + NOT_NUMBERS)} values", K.where(fn, fn.node))
    bad = None
    for v in NUMBERS:
        want = float(str(v).strip())
        ps = Interp(idx, types=ty, inline=inl).run_all(ff, args={"v": v})
        if len(ps) != 1 or ps[0].result[0] != "return" or isinstance(ps[0].result[1], (Residual, Obj)) or ps[0].result[1] != want or not isinstance(ps[0].result[1], float):
            bad = bad or f"to_float({v!r}) is {[p.result for p in ps]}, documented {want!r}"
        if v == ".5":
            continue  # HEAD: to_int of a 2-character non-integer string trips the decimal-comma heuristic (find(",") == len - 3 == -1); not a comparison path
        ps = Interp(idx, types=ty, inline=inl).run_all(fint, args={"v": v})
        if len(ps) != 1 or ps[0].result != ("return", int(want)):
            bad = bad or f"to_int({v!r}) is {[p.result for p in ps]}, documented {int(want)!r}"
    rep.check(bad is None, rid, f"{ff.file}::ExpressionUtility.to_float/to_int table", bad or f"{len(NUMBERS)} values", K.where(ff, ff.node))


# ------------------------------------------------------------------------------------------ R3
def r3(idx, rep, tier="quick"):
    fi, rows = MM.run_model(idx, max_components=5 if tier == "thorough" else 3, with_memo=True)
    rep.analysed(fi)
    bad = {}
    for row in rows:
        for aspect, ok, detail in MM.judge(row):
            if not ok:
                bad.setdefault(aspect, detail)
    for aspect in ("order", "verdict", "returns"):
        rep.check(aspect not in bad, "R3", f"{fi.file}::Matcher.matches table {aspect}", bad.get(aspect, f"{len(rows)} rows"), K.where(fi, fi.node))
    rep.stats["table_rows"] = rep.stats.get("table_rows", 0) + len(rows)
    # CsvPath.matches: builds the matcher once, hands it the logic mode, resets it for later lines, returns its verdict
    fm = idx.method("CsvPath", "matches")
    rep.analysed(fm)

    def mk(interp, call, recv, args, kwargs):
        interp.record_call("Matcher()", kwargs)
        return Obj("M")

    it = Interp(idx, types={"self": "CsvPath"}, unknown_calls="residual",
                domains={"self.match": ["[yes()]", ""], "self.matcher": [None, Obj("M")]},
                handlers={"Matcher": mk, "M.matches": lambda i, c, r, a, k: (i.record_call("M.matches"), Residual("VERDICT"))[1],
                          "M.reset": lambda i, c, r, a, k: i.record_call("M.reset")})
    bad = None
    for p in it.run_all(fm, args={"line": Residual("line")}):
        if not p.atom("self.match"):
            if p.result != ("return", True):
                bad = bad or f"no match part: returns {p.result}"
            continue
        had = p.atom("self.matcher") is not None
        calls = [k[1] for k in p.trace if k[0] == "call"]
        if p.result != ("return", Residual("VERDICT")):
            bad = bad or f"returns {p.result}, expected the matcher's verdict"
        if had:
            ls = p.sets("M.line") + p.sets("self.matcher.line")
            if calls != ["M.reset", "M.matches"] or ls != [Residual("line")]:
                bad = bad or f"existing matcher: calls {calls}, line stores {ls}; expected reset, line=line, matches"
        else:
            mk_calls = p.calls("Matcher()")
            ands = p.sets("M.AND") + p.sets("self.matcher.AND")
            if len(mk_calls) != 1 or mk_calls[0][1].get("line") != Residual("line") or ands != [Residual("self.AND")]:
                bad = bad or f"new matcher: {mk_calls}, AND stores {ands} (the matcher must get the line and the csvpath's logic mode)"
    rep.check(bad is None, "R3", f"{fm.file}::CsvPath.matches table", bad or "", K.where(fm, fm.node))


# ------------------------------------------------------------------------------------------ R4
def r4(idx, rep):
    fi, crow = CM.rows(idx)
    rep.analysed(fi)
    bad = None
    for adv, p in crow:
        f = CM.facts(adv, p)
        if f["result"][0] != "return":
            bad = bad or f"{f['result']}"
            continue
        val = f["result"][1]
        offered = (not f["blank_last"]) and not (f["skip_blank"] and f["empty"]) and bool(f["includes"])
        matched = (f["vote"] is True) if adv == 0 else False
        want = offered and (matched != bool(f["cwnm"]))
        if val is not want:
            cfg = {k: f[k] for k in ("adv", "blank_last", "skip_blank", "empty", "includes", "cwnm", "vote")}
            bad = bad or f"{cfg}: _consider_line returns {val!r}; documented: included ∧ non-blank ∧ ((matches is True) XOR collect_when_not_matched) = {want!r}"
    rep.check(bad is None, "R4", f"{fi.file}::CsvPath._consider_line verdict table", bad or f"{len(crow)} rows", K.where(fi, fi.node))
    # lines that are not offered leave no trace in the counters the match part reads (count_scans(), firstscan(), count())
    bad = None
    for adv, p in crow:
        f = CM.facts(adv, p)
        offered = (not f["blank_last"]) and not (f["skip_blank"] and f["empty"]) and bool(f["includes"])
        if not offered and (f["scan_sets"] or f["n_raise"] or (f["n_matches"] and not f["blank_last"])):
            cfg = {k: f[k] for k in ("blank_last", "skip_blank", "empty", "includes")}
            bad = bad or f"{cfg}: a line that is not offered to the match part changes scan_count {f['scan_sets']} / match count ({f['n_raise']}) / is matched ({f['n_matches']})"
        if offered and f["scan_sets"] != [6]:
            bad = bad or f"an offered line stores scan_count {f['scan_sets']} (from 5)"
    rep.check(bad is None, "R4", f"{fi.file}::CsvPath._consider_line counters table", bad or "", K.where(fi, fi.node))
    rep.stats["table_rows"] = rep.stats.get("table_rows", 0) + len(crow)
    fn, nrows = NM.rows(idx)
    rep.analysed(fn)
    bad = None
    for n, p in nrows:
        will = p.atom("self.will_run")
        tr = p.trace
        ys = [v for k, kk, v in tr if k == "yield"]
        cons = [v for k, kk, v in tr if k == "call" and kk == "_consider_line"]
        if not will:
            if ys or cons:
                bad = bad or "run-mode no-run: lines are read or yielded"
            continue
        # expected yields: for each line in order until stopped: yield limited(line) iff consider True
        want = []
        stopped = False
        seen = []
        for i in range(n):
            if stopped:
                break
            seen.append(f"L{i}")
            if p.atom(f"consider(L{i})"):
                want.append(f"limited(L{i})")
            if p.atom(f"stops(L{i})"):
                stopped = True
        got = [v.text if isinstance(v, Residual) else getattr(v, "name", v) for v in ys]
        if got != want:
            bad = bad or f"{n} lines, choices {p.summary()['choices']}: yields {got}, documented {want} (each considered-true line once, in reader order, none after stop)"
        if [c.text for c in cons] != seen:
            bad = bad or f"considered {[c.text for c in cons]}, expected {seen}"
    rep.check(bad is None, "R4", f"{fn.file}::CsvPath.next yield table", bad or f"{len(nrows)} paths", K.where(fn, fn.node))
    rep.stats["table_rows"] += len(nrows)


# ------------------------------------------------------------------------------------------ R5
FUNC_DIRS = ("csvpath/matching/functions/boolean/", "csvpath/matching/functions/math/", "csvpath/matching/functions/strings/",
             "csvpath/matching/functions/counting/", "csvpath/matching/functions/lines/", "csvpath/matching/functions/validity/",
             "csvpath/matching/functions/stats/", "csvpath/matching/functions/headers/", "csvpath/matching/functions/types/",
             "csvpath/matching/functions/dates/", "csvpath/matching/functions/variables/", "csvpath/matching/functions/misc/",
             "csvpath/matching/functions/print/")


def name_literals(test):
    """literals a test compares self.name with: ('eq'|'in'|'ne', [values]) or None"""
    if isinstance(test, ast.Compare) and len(test.ops) == 1 and unparse(test.left) == "self.name":
        c = test.comparators[0]
        if isinstance(test.ops[0], (ast.Eq, ast.NotEq)) and isinstance(c, ast.Constant):
            return ("eq" if isinstance(test.ops[0], ast.Eq) else "ne", [c.value])
        if isinstance(test.ops[0], ast.In) and isinstance(c, (ast.List, ast.Tuple, ast.Set)) and all(isinstance(e, ast.Constant) for e in c.elts):
            return ("in", [e.value for e in c.elts])
    return None


KNOWN_NAME_HELPERS = {("AboveBelow", "_above"), ("Between", "_between")}  # folded whatever their shape


def _pure_name_predicate(fn):
    """a helper whose body is only `if <self.name test>: return <const>` statements (+ optional final return const)"""
    body = [st for st in fn.body if not (isinstance(st, ast.Expr) and isinstance(st.value, ast.Constant))]
    if not body:
        return False
    n_if = 0
    for st in body:
        if isinstance(st, ast.If):
            cur = st
            while True:
                if name_literals(cur.test) is None:
                    return False
                if not (len(cur.body) == 1 and isinstance(cur.body[0], ast.Return) and isinstance(cur.body[0].value, ast.Constant)):
                    return False
                n_if += 1
                if len(cur.orelse) == 1 and isinstance(cur.orelse[0], ast.If):
                    cur = cur.orelse[0]
                elif cur.orelse:
                    if not (len(cur.orelse) == 1 and isinstance(cur.orelse[0], ast.Return)):
                        return False
                    break
                else:
                    break
        elif isinstance(st, ast.Return) and isinstance(st.value, ast.Constant):
            continue
        else:
            return False
    return n_if >= 1


def r5(idx, rep):
    """helper predicates that depend only on self.name (e.g. AboveBelow._above, Between._between) are folded for every
    alias the factory gives the class: none may fall off the end (None), which callers read as False/'not above'"""
    ali = factory_aliases(idx)
    for cname, cis in sorted(idx.classes.items()):
        for ci in cis:
            if not ci.file.startswith("csvpath/matching/functions/"):
                continue
            names = set(ali.get(cname, set()))
            for sub in idx.subclasses(cname):
                names |= ali.get(sub, set())
            if not names:
                continue
            for mname, fi in ci.methods.items():
                if not _pure_name_predicate(fi.node) and (cname, mname) not in KNOWN_NAME_HELPERS:
                    continue
                rep.analysed(fi)
                bad = None
                for nm in sorted(names):
                    it = Interp(idx, types={"self": cname}, domains={"self.name": [nm]})
                    ps = it.run_all(fi)
                    if len(ps) != 1 or ps[0].result[0] != "return" or ps[0].result[1] is None:
                        bad = bad or f"for the alias `{nm}` {cname}.{mname}() falls off the end (returns None); every alias the factory maps to {cname} must be decided"
                rep.check(bad is None, "R5", f"{fi.file}::{fi.qual} decides every alias", bad or f"{len(names)} aliases", K.where(fi, fi.node))


def _ladder_assigns_vote(node):
    for n in ast.walk(node):
        if isinstance(n, ast.Assign):
            for t in n.targets:
                if isinstance(t, ast.Attribute) and t.attr in ("match", "value"):
                    return True
        if isinstance(n, ast.Return) and n.value is not None:
            return True
    return False


# ------------------------------------------------------------------------------------------ R6
def r6(idx, rep):
    from .c14 import r5 as dispatch
    # reuse the dispatch table under this property's rule id
    class Proxy:
        def __init__(self, rep):
            self.rep = rep

        def __getattr__(self, n):
            return getattr(self.rep, n)

        def check(self, cond, rid, key, detail="", where=""):
            return self.rep.check(cond, "R6", key, detail, where)

    dispatch(idx, Proxy(rep))
    # when/do: right side evaluated iff left is True; vote table
    fi = idx.method("Equality", "_do_when")
    rep.analysed(fi)

    def iso(interp, args, call):
        return interp.choose("left is Function", [True, False])

    def left(interp, call, recv, args, kwargs):
        interp.record_call("left.matches")
        return interp.choose("left", [True, False, None], memo=False)

    def right(interp, call, recv, args, kwargs):
        interp.record_call("right.matches")
        return interp.choose("right", [True, False, None], memo=False)

    it = Interp(idx, types={"self": "Equality"}, unknown_calls="residual", isinstance_oracle=iso,
                domains={"self.op": ["->"], "self.sentinel": [False], "self.matcher._AND": [True, False], "self.default_match()": [True],
                         "self.left.override_frozen()": [False, True], "self._left_nocontrib(self.left)": [False, True]},
                handlers={"self.left.matches": left, "self.right.matches": right})
    bad = None
    n = 0
    for p in it.run_all(fi, args={"skip": []}):
        n += 1
        lv = p.atom("left")
        AND = p.atom("self.matcher._AND")
        nc = p.atom("self._left_nocontrib(self.left)")
        rc = len(p.calls("right.matches"))
        if rc != (1 if lv is True else 0):
            bad = bad or f"left vote {lv!r}: right side evaluated {rc}x; `a -> b` runs b exactly when a is True"
        if p.result[0] != "return":
            bad = bad or f"{p.result}"
            continue
        val = p.result[1]
        if AND:
            want = True if lv is True else bool(nc)
            if val is not want:
                bad = bad or f"AND mode, left vote {lv!r}, left nocontrib={nc}: when/do votes {val!r}, documented {want!r}"
    rep.check(bad is None, "R6", f"{fi.file}::Equality._do_when table", bad or f"{n} paths", K.where(fi, fi.node))
    # equality test: stripped string equality, else value equality; left/right order irrelevant
    fe = idx.method("Equality", "_do_equality")
    rep.analysed(fe)
    bad = None
    for l, r, want in (("a", "a", True), ("a", "b", False), (" a ", "a", True), (1, "1", True), (1, 1, True), (None, None, True), ("1.0", 1, False), ("", None, False)):
        it = Interp(idx, types={"self": "Equality"}, unknown_calls="residual",
                    handlers={"self.left.to_value": lambda i, c, rr, a, k, l=l: l, "self.right.to_value": lambda i, c, rr, a, k, r=r: r})
        ps = it.run_all(fe, args={"skip": []})
        if len(ps) != 1 or ps[0].result != ("return", want):
            bad = bad or f"{l!r} == {r!r} votes {ps[0].result}, documented {want}"
    rep.check(bad is None, "R6", f"{fe.file}::Equality._do_equality table", bad or "", K.where(fe, fe.node))


# ------------------------------------------------------------------------------------------ R7
def r7(idx, rep):
    from .c05 import r5 as traps

    class Proxy:
        def __init__(self, rep):
            self.rep = rep

        def __getattr__(self, n):
            return getattr(self.rep, n)

        def check(self, cond, rid, key, detail="", where=""):
            return self.rep.check(cond, "R7", key, detail, where)

    traps(idx, Proxy(rep))


# ------------------------------------------------------------------------------------------ R8
def r8(idx, rep):
    C = FM.Child
    votes = [True, False, None]
    # not()
    bad = None
    for v in votes:
        fi, ps = FM.run_function(idx, "Not", "_decide_match", [C("c0", vote=v)])
        got = FM.final(ps[0], "self.match")
        if len(ps) != 1 or got is not (not v):
            bad = bad or f"not({v!r}) votes {got!r}"
    rep.analysed(fi)
    rep.check(bad is None, "R8", f"{fi.file}::Not table", bad or "", K.where(fi, fi.node))
    # and() / or()
    for cls, fold in (("And", all), ("Or", any)):
        bad = None
        for k in (2, 3):
            for vs in itertools.product(votes, repeat=k):
                items = [C(f"s{i}", vote=v) for i, v in enumerate(vs)]
                fi, ps = FM.run_function(idx, cls, "_decide_match", [C("eq", items=items)], extra_store={"self.hold": []})
                got = FM.final(ps[0], "self.match")
                want = fold(bool(v) for v in vs)
                if len(ps) != 1 or bool(got) is not want or got == "<unset>":
                    bad = bad or f"{cls.lower()}{vs} votes {got!r}, documented {want}"
                # evaluation order: left to right, short-circuit
                ev = [k2[1] for k2 in ps[0].trace if k2[0] == "call" and k2[1].endswith(".matches")]
                stop_at = next((i for i, v in enumerate(vs) if (not v if cls == "And" else bool(v))), len(vs) - 1)
                if ev != [f"s{i}.matches" for i in range(stop_at + 1)]:
                    bad = bad or f"{cls.lower()}{vs} evaluates {ev} (documented: left to right, stopping at the deciding argument)"
        rep.analysed(fi)
        rep.check(bad is None, "R8", f"{fi.file}::{cls} table", bad or "", K.where(fi, fi.node))
    # yes / no
    for cls, want in (("Yes", True), ("No", False)):
        fi, ps = FM.run_function(idx, cls, "_decide_match", [])
        rep.analysed(fi)
        rep.check(len(ps) == 1 and FM.final(ps[0], "self.match") is want, "R8", f"{fi.file}::{cls} table", f"{cls.lower()}() votes {FM.final(ps[0], 'self.match')!r}", K.where(fi, fi.node))
    # equals()
    bad = None
    table = [("a", "a", True), ("a", "b", False), ("1", "1.0", True), (1, "1", True), (2, 3, False), (None, None, True), (None, "a", False), ("a", None, False), ("10", "9", False)]
    for l, r, want in table:
        fi, ps = FM.run_function(idx, "Equals", "_decide_match", [C("eq", left=C("l", value=l), right=C("r", value=r))], inline={"Equals._is_float"})
        got = FM.final(ps[0], "self.match")
        if len(ps) != 1 or got is not want:
            bad = bad or f"equals({l!r}, {r!r}) votes {got!r}, documented {want}"
    rep.analysed(fi)
    rep.check(bad is None, "R8", f"{fi.file}::Equals table", bad or "", K.where(fi, fi.node))
    # in()
    bad = None
    table = [("a", [("Term", "a|b")], True), ("c", [("Term", "a|b")], False), ("b", [("Term", "a | b")], True), ("a", [("Term", "x"), ("Term", "a")], True),
             ("a", [("Variable", ["a", "b"])], True), ("z", [("Variable", ["a", "b"])], False), ("k", [("Variable", {"k": 1})], True), ("a", [("Header", "a")], True),
             ("a", [("Header", "a|b")], False), ("ab", [("Term", "a|b")], False),
             ("5", [("Term", 5), ("Term", 7)], True), ("6", [("Term", 5), ("Term", 7)], False), ("7", [("Term", "5|7")], True)]
    for t, rest, want in table:
        items = [C("t", value=t, kind="Header")] + [C(f"s{i}", value=v, kind=kd) for i, (kd, v) in enumerate(rest)]
        fi, ps = FM.run_function(idx, "In", "_decide_match", [C("eq", items=items)])
        got = FM.final(ps[0], "self.match")
        if len(ps) != 1 or got is not want:
            bad = bad or f"in({t!r}, {rest}) votes {got!r}, documented {want}"
    rep.analysed(fi)
    rep.check(bad is None, "R8", f"{fi.file}::In table", bad or "", K.where(fi, fi.node))
    # exists() / empty() single argument
    for cls, neg in (("Exists", True), ("Empty", False)):
        bad = None
        for v, empty in ((None, True), ("", True), ("  ", True), ("a", False), (0, False), ([], True), (["a"], False), ({}, True), ("None", True), ("nan", True)):
            fi, ps = FM.run_function(idx, cls, "_decide_match", [C("c0", value=v, kind="Header")], inline={"Empty._do_one", "Empty._do_many", "Empty._do_headers"})
            got = FM.final(ps[0], "self.match")
            want = (not empty) if neg else empty
            if len(ps) != 1 or got is not want:
                bad = bad or f"{cls.lower()}({v!r}) votes {got!r}, documented {want}"
        rep.analysed(fi)
        rep.check(bad is None, "R8", f"{fi.file}::{cls} table", bad or "", K.where(fi, fi.node))
    # empty(#a, #b, …): true iff every argument is empty (one Equality child holding the comma list)
    bad = None
    for vals in (("", None), ("", "x"), ("x", ""), ("x", "y"), ("", "  ", None), ("", "", "z")):
        items = [C(f"s{i}", value=v, kind="Header") for i, v in enumerate(vals)]
        fi, ps = FM.run_function(idx, "Empty", "_decide_match", [C("eq", items=items, kind="Equality")], siblings=items,
                                 inline={"Empty._do_one", "Empty._do_many", "Empty._do_headers"})
        got = FM.final(ps[0], "self.match")
        want = all(v is None or str(v).strip() == "" for v in vals)
        if len(ps) != 1 or got is not want:
            bad = bad or f"empty{vals!r} votes {got!r}, documented {want} (every argument empty)"
    rep.check(bad is None, "R8", f"{fi.file}::Empty table several arguments", bad or "", K.where(fi, fi.node))
    # string functions (value tables)
    str_tables = [
        ("Lower", "_produce_value", lambda C: [C("c0", value="AbC")], "abc"),
        ("Upper", "_produce_value", lambda C: [C("c0", value="AbC")], "ABC"),
        ("Strip", "_produce_value", lambda C: [C("c0", value="  a b ")], "a b"),
        ("StartsWith", "_produce_value", lambda C: [C("eq", left=C("l", value=" hello "), right=C("r", value="he"))], True),
        ("StartsWith", "_produce_value", lambda C: [C("eq", left=C("l", value="hello"), right=C("r", value="lo"))], False),
        ("Length", "_produce_value", lambda C: [C("c0", value="abc")], 3),
        ("Length", "_produce_value", lambda C: [C("c0", value=None)], 0),
        ("Length", "_produce_value", lambda C: [C("c0", value=12345)], 5),
    ]
    import math as _m
    E2 = lambda a, b: [C("eq", items=[C("l", value=a, kind="Term"), C("r", value=b, kind="Term")], kind="Equality")]
    E3 = lambda a, b, c: [C("eq", items=[C("x", value=a, kind="Term"), C("y", value=b, kind="Term"), C("z", value=c, kind="Term")], kind="Equality")]
    str_tables += [
        ("Add", "_produce_value", lambda C: E2("1", "2"), 3.0), ("Add", "_produce_value", lambda C: E3(1, 2, 3), 6.0), ("Add", "_produce_value", lambda C: E2(None, 5), 5.0),
        ("Add", "_produce_value", lambda C: E2("2.5", 1), 3.5),
        ("Subtract", "_produce_value", lambda C: E2(5, 2), 3.0), ("Subtract", "_produce_value", lambda C: E3(10, 3, 2), 5.0), ("Subtract", "_produce_value", lambda C: [C("t", value="5", kind="Term")], -5),
        ("Multiply", "_produce_value", lambda C: E2(3, 4), 12.0), ("Multiply", "_produce_value", lambda C: E2(2, None), 0), ("Multiply", "_produce_value", lambda C: E3(2, 3, 4), 24.0),
        ("Divide", "_produce_value", lambda C: E2(10, 4), 2.5), ("Divide", "_produce_value", lambda C: E3(100, 5, 2), 10.0),
        ("Mod", "_produce_value", lambda C: E2(7, 3), 1.0), ("Mod", "_produce_value", lambda C: E2(7.5, 2), 1.5),
        ("Concat", "_produce_value", lambda C: E3("a", "b", 1), "ab1"), ("Concat", "_produce_value", lambda C: E2("x ", " y"), "x  y"),
    ]
    groups = {}
    for cls, meth, mk, want in str_tables:
        try:
            fi, ps = FM.run_function(idx, cls, meth, mk(C), inline={f"{cls}._do_sub"})
        except AnalysisError as e:
            rep.note(f"C01.R8 {cls}.{meth}: table not evaluated ({e})")
            continue
        got = FM.final(ps[0], "self.value")
        ok = len(ps) == 1 and got == want and type(got) is type(want)
        g = groups.setdefault(cls, [fi, None])
        if not ok:
            g[1] = g[1] or f"{cls.lower()} table: value {got!r}, documented {want!r}"
    for cls, (fi, bad) in groups.items():
        rep.analysed(fi)
        rep.check(bad is None, "R8", f"{fi.file}::{cls} value table", bad or "", K.where(fi, fi.node))


# ------------------------------------------------------------------------------------------ R9
def r9(idx, rep):
    """argument validation evaluates every argument before a function decides (Function.matches → sibling_values → to_value), so
    a function that calls _produce_value() directly instead of the cached to_value() runs its side effect twice per line when nested
    (counters such as every()/count()/tally() then advance twice)"""
    sites = K.calls_named(idx, {"_produce_value"}, "csvpath/matching/")
    n = 0
    for s in sites:
        fi = s["fi"]
        if fi.name == "_produce_value":
            continue  # an override delegating to its parent
        n += 1
        rep.check(K.owner_of(idx, fi, {"Function.to_value"}) is not None, "R9", f"{fi.file}::{fi.qual} calls _produce_value",
                  "only the caching Function.to_value may call _produce_value; a direct call produces the value (and its side effects) a second time on lines where it was already produced", K.where(fi, s["call"]))
    rep.floor("R9", 1, "_produce_value call sites")
