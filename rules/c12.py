"""C12 — named-paths groups round-trip and select by identity.

  R1 group protocol     PathsManager / PathsRegistrar interpreted (AST) on a model file system over every sequence up to length 2 plus a curated set of length-3 sequences
                        (thorough: every sequence up to length 3) of {add(name, group variant), remove(name), new instance} on two names; after every step:
                        get_named_paths returns the same csvpaths in the same order (up to surrounding whitespace); name#id and
                        $name.csvpaths.id return the member with that identity; :from/:to the suffix/prefix; the manifest gains one
                        entry, fingerprinting the stored group file, per change of content and none for an identical re-add
  R2 separator          writer and readers of the group file use the same marker literal
  R3 identity           CsvPath.identity precedence table id > Id > ID > name > Name > NAME
  R4 order              no sort/set in the group readers
"""
import ast
import itertools
import json

from sa.index import AnalysisError, unparse, walk_no_nested, call_name, stores_in
from sa.absint import Interp, Obj, Residual, Raised
from . import common as K
from . import store_model as SM

IN = "INP"
G1 = ["~id:a~ $[*][ yes() ]", "$[*][no()]", "~ name: third ~ $[1-2][#x == \"y\"]"]
G2 = ["~ name: x\n id: b ~\n$[1*][\n #a == \"1\" ~inner~\n]", "~id:a~ $[*][yes()]", "~Id: c ~ $[2][yes()]"]
G3 = ["~id:a~ $[*][   yes()\n ]", "$[*][no()]", "~ name: third ~ $[1-2][#x  ==  \"y\"]"]   # differs from G1 only by blanks inside a csvpath
G4 = ["~id: ü1~ $[*][yes()]", "~ name: größe ~ $[1][yes()]", "~ id: 名前 ~ $[2][no()]"]   # identities are not ASCII-only
# one comment carrying several spellings of the identity keys: the precedence id > Id > ID > name > Name > NAME decides, not the order written
G5 = ["~ id: alpha ID: legacy7 ~ $[*][yes()]", "~ Name: beta NAME: B2 ~ $[1][yes()]", "~ NAME: G3 name: gamma ~ $[2][no()]"]
GROUPS = {"G1": G1, "G2": G2, "G3": G3, "G4": G4, "G5": G5}


def ids_of(group):
    out = []
    for p in group:
        md = {}
        if p.lstrip().startswith("~"):
            c = p[p.index("~") + 1: p.index("~", p.index("~") + 1)]
            import re
            for m in re.finditer(r"([^\W\d_]+)\s*:\s*(\w+)", c):
                md[m.group(1)] = m.group(2)
        ident = ""
        for k in ("id", "Id", "ID", "name", "Name", "NAME"):
            if k in md:
                ident = md[k]
                break
        out.append(ident)
    return out


def make(idx, fsbox):
    h = SM.handlers(fsbox)

    def new_mdata(i, c, r, a, k):
        n = i.store.get("__mdata_n__", 0) + 1
        i.store["__mdata_n__"] = n
        o = Obj(f"mdata{n}")
        for f in ("named_paths_name", "named_paths_home", "named_paths_file", "named_paths_identities", "named_paths", "group_file_path", "manifest_path",
                  "fingerprint", "archive_name", "time_started", "time_completed"):
            i.store[f"{o.name}.{f}"] = None
        i.store[f"{o.name}.named_paths_count"] = -1
        i.store[f"{o.name}.time_string"] = f"T{n}"
        i.store[f"{o.name}.uuid_string"] = f"U{n}"
        i.store[f"{o.name}.named_paths_root"] = IN
        return o

    def new_csvpath(i, c, r, a, k):
        n = i.store.get("__cp_n__", 0) + 1
        i.store["__cp_n__"] = n
        o = Obj(f"cp{n}")
        i.types[o.name] = "CsvPath"
        i.store[f"{o.name}.metadata"] = {}
        return o

    def new_mp(i, c, r, a, k):
        o = Obj("mp")
        i.types["mp"] = "MetadataParser"
        return o

    def refparser(i, c, r, a, k):
        s = a[0]
        o = Obj("ref")
        parts = s.lstrip("$").split(".")
        i.store["ref.root_major"] = parts[0]
        i.store["ref.datatype"] = parts[1] if len(parts) > 1 else None
        i.store["ref.name_one"] = parts[2] if len(parts) > 2 else None
        return o

    def new_mdata_checked(i, c, r, a, k):
        if not a and not k:
            i.path.trace.append(("raise", "TypeError", "PathsMetadata() missing its config argument"))
            raise Raised("TypeError")
        return new_mdata(i, c, r, a, k)

    h.update({"PathsMetadata": new_mdata_checked, "CsvPath": new_csvpath, "MetadataParser": new_mp, "ReferenceParser": K.reference_parser_handler(idx)})
    pm = {f"PathsManager.{m}" for m in idx.cls("PathsManager").methods}
    pr = {f"PathsRegistrar.{m}" for m in idx.cls("PathsRegistrar").methods} | {"PathsRegistrar.distribute_update"}
    mp = {f"MetadataParser.{m}" for m in ("extract_metadata", "extract_csvpath_and_comment", "collect_metadata")}
    it = Interp(idx, types={"self": "PathsManager", "self.registrar": "PathsRegistrar", "self._registrar": "PathsRegistrar"},
                inline=pm | pr | mp | {"CsvPath.identity"}, handlers=h, unknown_calls="residual", max_loop=4000)
    return it


def initial_store(idx):
    st = {"self.csvpaths.config.inputs_csvpaths_path": IN, "os.sep": "/", "self.csvpaths.config.archive_name": "archive",
          "self._registrar": Obj("self.registrar"), "self.registrar.listeners": [Obj("self.registrar")],
          "self.registrar._manager": Obj("self"), "self.registrar.manager": Obj("self"),
          "self.registrar.csvpaths.config.archive_name": "archive", "ReferenceParser.CSVPATHS": "csvpaths", "PathsManager.MARKER": None}
    st.pop("PathsManager.MARKER")
    extra = K.instance_store(idx, "PathsRegistrar", "self.registrar")
    for k, v in extra.items():
        st.setdefault(k, v)
    for k, v in K.instance_store(idx, "PathsManager", "self").items():
        if k != "self._registrar":
            st.setdefault(k, v)
    return st


def norm(ps):
    return [p.strip() for p in ps] if isinstance(ps, list) else ps


def check_state(idx, it, fs, spec, trail):
    fget = idx.method("PathsManager", "get_named_paths")
    for name in ("g", "h"):
        s = spec.get(name)
        try:
            got = it.call_function(fget, {"name": name}, "self")
        except Raised as r:
            return f"after {trail}: get_named_paths({name!r}) raises {r.typ}"
        if s is None:
            if got not in (None, []):
                return f"after {trail}: group {name!r} does not exist but get_named_paths returns {got!r}"
            continue
        group = GROUPS[s["cur"]]
        if norm(got) != norm(group):
            return (f"after {trail}: get_named_paths({name!r}) returns {got!r}; documented the csvpaths last added, in order, text equal up to surrounding whitespace: {group!r}")
        ids = ids_of(group)
        for j, ident in enumerate(ids):
            if not ident:
                continue
            for form in (f"{name}#{ident}", f"${name}.csvpaths.{ident}"):
                try:
                    one = it.call_function(fget, {"name": form}, "self")
                except Raised as r:
                    return f"after {trail}: get_named_paths({form!r}) raises {r.typ}; documented: exactly the member with identity {ident!r}"
                if norm(one) != [group[j].strip()]:
                    return f"after {trail}: get_named_paths({form!r}) returns {one!r}; documented exactly the member identified as {ident!r}: {group[j]!r}"
            for suffix, want in ((":from", group[j:]), (":to", group[: j + 1])):
                form = f"${name}.csvpaths.{ident}{suffix}"
                try:
                    sub = it.call_function(fget, {"name": form}, "self")
                except Raised as r:
                    return f"after {trail}: get_named_paths({form!r}) raises {r.typ}"
                if norm(sub) != norm(want):
                    return f"after {trail}: get_named_paths({form!r}) returns {norm(sub)!r}; documented the {'suffix starting' if suffix == ':from' else 'prefix ending'} at {ident!r}: {norm(want)!r}"
        mp = f"{IN}/{name}/manifest.json"
        man = fs.get(mp) if mp in fs.files else None
        if isinstance(man, str):
            man = json.loads(man)
        if not isinstance(man, list) or len(man) != s["entries"]:
            return (f"after {trail}: the manifest of group {name!r} has {len(man) if isinstance(man, list) else man!r} entries; documented {s['entries']} "
                    "(one per change of the group's content, none for an identical re-add)")
        gf = f"{IN}/{name}/group.csvpaths"
        if man and man[-1].get("fingerprint") != SM.MFS.sha(fs.get(gf)):
            return f"after {trail}: the newest manifest entry of {name!r} does not fingerprint the stored group file"
    return None


CURATED = [
    (("add", "g", "G1"), ("add", "g", "G2"), ("add", "g", "G1")),
    (("add", "g", "G1"), ("add", "g", "G3"), ("add", "g", "G1")),
    (("add", "g", "G1"), ("remove", "g"), ("add", "g", "G1")),
    (("add", "g", "G1"), ("new",), ("add", "g", "G1")),
    (("add", "g", "G2"), ("new",), ("add", "g", "G3")),
    (("add", "g", "G1"), ("add", "h", "G2"), ("add", "g", "G2")),
    (("add", "g", "G1"), ("add", "g", "G1"), ("add", "g", "G3")),
    (("add", "g", "G1"), ("read",), ("add", "g", "G2")),
    (("add", "g", "G1"), ("read",), ("add", "g", "G3"), ("read",), ("add", "g", "G1")),
    (("add", "g", "G2"), ("read",), ("remove", "g"), ("add", "g", "G1")),
    (("add", "g", "G4"),),
    (("add", "g", "G1"), ("add", "g", "G4"), ("new",)),
    (("add", "g", "G5"),),
    (("add", "g", "G2"), ("add", "g", "G5"), ("new",)),
]


def run_sequences(idx, maxlen, variants=("G1", "G2", "G3"), extra=()):
    fadd = idx.method("PathsManager", "add_named_paths")
    frem = idx.method("PathsManager", "remove_named_paths")
    ops = [("add", n, g) for n in ("g", "h") for g in variants] + [("remove", "g")] + [("new",)]
    checked = 0
    init = initial_store(idx)
    seqs = [seq for L in range(1, maxlen + 1) for seq in itertools.product(ops, repeat=L)] + list(extra)
    for seq in seqs:
        if True:
            if seq[0][0] != "add" or seq[0][1] != "g":
                continue
            # keep the second name light: at most one add on h
            if sum(1 for o in seq if o[0] == "add" and o[1] == "h") > 1:
                continue
            fsbox = [SM.MFS()]
            fs = fsbox[0]
            fs.dirs.add(IN)
            it = make(idx, fsbox)
            spec = {}

            def program(it, seq=seq, fs=fs, spec=spec):
                trail = []
                for op in seq:
                    trail.append(op)
                    if op[0] == "add":
                        _, n, g = op
                        it.call_function(fadd, {"name": n, "paths": list(GROUPS[g])}, "self")
                        s = spec.setdefault(n, {"cur": None, "entries": 0})
                        if s["cur"] is None or GROUPS[s["cur"]] != GROUPS[g]:
                            s["entries"] += 1
                        s["cur"] = g
                    elif op[0] == "remove":
                        if op[1] in spec:
                            it.call_function(frem, {"name": op[1]}, "self")
                            spec.pop(op[1])
                    elif op[0] == "new":
                        for k, v in initial_store(idx).items():
                            it.store[k] = v
                    elif op[0] == "read":
                        # a read between two writes (what a run does): the group as it is now; a memo filled here must not outlive the next write
                        msg = check_state(idx, it, fs, spec, trail)
                        if msg:
                            return msg
                # prefixes are sequences of their own: judge the final state only
                return check_state(idx, it, fs, spec, trail)

            ps = it.run_program(program, dict(init))
            checked += 1
            for p in ps:
                if p.result[0] == "raise":
                    return checked, f"sequence {seq}: the named-paths code raises {p.result[1]}"
                if p.result[1]:
                    return checked, p.result[1]
            if len(ps) != 1:
                return checked, f"sequence {seq}: not deterministic on the model ({len(ps)} paths: {ps[0].summary()['choices'][:3]})"
    return checked, None


def run(idx, rep, tier):
    rep.explanation = (
        "PathsManager.add_named_paths/get_named_paths (plain, #id, $name.csvpaths.id, :from, :to)/remove_named_paths with PathsRegistrar and "
        "the real MetadataParser/CsvPath.identity code are interpreted at AST level on a model file system over every operation sequence up to "
        "length 2 plus curated length-3 sequences (thorough: all up to length 3) on two group names and three group variants (outer comments, inner comments, newlines, a variant differing "
        "only in inner whitespace), compared after every step with the abstract group store; marker agreement; identity precedence table; "
        "no sorting in the readers. Bounded as stated.")
    rep.rule("R1", "groups round-trip, select by identity, and version by content on all bounded operation sequences")
    rep.rule("R2", "one separator literal for writer and readers")
    rep.rule("R3", "identity precedence id > Id > ID > name > Name > NAME")
    rep.rule("R4", "order is kept: no sort / set in the readers")
    pm = idx.cls("PathsManager")
    for m in ("add_named_paths", "get_named_paths", "_get_named_paths", "_str_from_list", "_copy_in", "_find_one", "_get_to", "_get_from", "get_identified_paths_in", "remove_named_paths"):
        rep.analysed(pm.methods[m])
    pr = idx.cls("PathsRegistrar")
    for m in ("register_complete", "metadata_update", "manifest_path", "_fingerprint", "update_manifest_if"):
        rep.analysed(pr.methods[m])
    n, msg = run_sequences(idx, 3 if tier == "thorough" else 2, extra=CURATED)
    rep.check(msg is None, "R1", "csvpath/managers/paths/paths_manager.py::named-paths store sequences", msg or f"{n} operation sequences", "csvpath/managers/paths/paths_manager.py")
    rep.stats["table_rows"] = n
    rep.stats["exhaustive"] = True
    rep.sample({"rule": "R1", "sequences": n, "groups": GROUPS})
    r2(idx, rep)
    r3(idx, rep)
    r4(idx, rep)
    # constructor arity of PathsMetadata in update_manifest_if (outside the property's quantifier: out-of-band edits)
    fu = pr.methods["update_manifest_if"]
    for c in walk_no_nested(fu.node):
        if isinstance(c, ast.Call) and call_name(c) == "PathsMetadata" and not c.args and not c.keywords:
            rep.note("PathsRegistrar.update_manifest_if builds PathsMetadata() without its required config argument: TypeError when a group file was edited out of band (outside C12's quantifier)")


def r2(idx, rep):
    pm = idx.cls("PathsManager")
    marker = pm.class_assigns.get("MARKER")
    mv = marker.value if isinstance(marker, ast.Constant) else None
    lits = {}
    for mname in ("_str_from_list", "_get_named_paths", "_get_csvpaths_from_file"):
        f = pm.methods[mname]
        found = set()
        for n in ast.walk(f.node):
            if isinstance(n, ast.Constant) and isinstance(n.value, str) and "CSVPATH" in n.value:
                found.add(n.value.strip())
            if isinstance(n, ast.Attribute) and n.attr == "MARKER":
                found.add(mv)
        lits[mname] = found
    ok = all(v == {mv} for v in lits.values()) and mv
    rep.check(ok, "R2", f"{pm.file}::PathsManager marker agreement", f"marker {mv!r}; used: {lits}", pm.file)


def r3(idx, rep):
    fi = idx.method("CsvPath", "identity")
    rep.analysed(fi)
    keys = ["id", "Id", "ID", "name", "Name", "NAME"]
    bad = None
    n = 0
    for r in range(0, 4):
        for combo in itertools.combinations(keys, r):
            md = {k: f"v_{k}" for k in combo}
            md["description"] = "x"
            it = Interp(idx, types={"self": "CsvPath"}, unknown_calls="residual")
            ps = it.run_all(fi, store={"self.metadata": md})
            n += 1
            want = next((f"v_{k}" for k in keys if k in combo), "")
            if len(ps) != 1 or ps[0].result != ("return", want):
                bad = bad or f"metadata keys {list(combo)}: identity {ps[0].result}, documented {want!r} (precedence id > Id > ID > name > Name > NAME)"
    it = Interp(idx, types={"self": "CsvPath"}, unknown_calls="residual")
    ps = it.run_all(fi, store={"self.metadata": {}})
    if ps[0].result != ("return", ""):
        bad = bad or f"no metadata: identity {ps[0].result}"
    rep.check(bad is None, "R3", f"{fi.file}::CsvPath.identity precedence table", bad or f"{n} key sets", K.where(fi, fi.node))


def r4(idx, rep):
    pm = idx.cls("PathsManager")
    for mname in ("_get_named_paths", "get_named_paths", "_get_to", "_get_from", "_find_one", "get_identified_paths_in", "_str_from_list"):
        f = pm.methods[mname]
        bad = [unparse(c)[:60] for c in walk_no_nested(f.node) if isinstance(c, ast.Call) and call_name(c) in ("sorted", "sort", "set", "reversed", "reverse", "shuffle")]
        rep.check(not bad, "R4", f"{f.file}::PathsManager.{mname} keeps the order", f"{bad}", K.where(f, f.node))
